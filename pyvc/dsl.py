"""Operators with two readings: on Python ints/bools they compute, on z3 terms they build terms.
Spec functions in /verif/speclib and the pre/postconditions in /verif/contracts are written with them,
so one text yields both the proof obligation and the concrete check used for replay / bounded contracts.
"""
from __future__ import annotations

import itertools

import z3

_cnt = itertools.count()


class Defs:
    """definitional side constraints introduced by spec functions (floor-division witnesses)"""
    stack = [([], [])]

    @classmethod
    def push(cls):
        cls.stack.append(([], []))

    @classmethod
    def pop(cls):
        """(definitional constraints, divisor-non-zero side obligations)"""
        return cls.stack.pop()

    @classmethod
    def add(cls, c):
        cls.stack[-1][0].append(c)

    @classmethod
    def nonzero(cls, d):
        # a floor-division witness is only definitional when the divisor is non-zero: the caller must
        # prove this separately, otherwise the definitions would be unsatisfiable and the VC vacuous
        cls.stack[-1][1].append(d != 0)


def sym(*vs):
    return any(isinstance(v, z3.ExprRef) for v in vs)


def B(v):
    if isinstance(v, z3.ExprRef):
        return v
    return z3.BoolVal(bool(v))


def ite(c, a, b):
    if not sym(c):
        return a if c else b
    if not sym(a) and not sym(b) and a is b:
        return a
    if isinstance(a, bool) or isinstance(b, bool) or (sym(a) and z3.is_bool(a)) or (sym(b) and z3.is_bool(b)):
        return z3.If(c, B(a), B(b))
    if isinstance(a, tuple):
        return tuple(ite(c, x, y) for x, y in zip(a, b))
    return z3.If(c, a if sym(a) else _num(a, b), b if sym(b) else _num(b, a))


def _num(v, other):
    if sym(other) and z3.is_real(other):
        return z3.RealVal(v)
    if isinstance(v, float):
        return z3.RealVal(v)
    return z3.IntVal(v)


def And(*cs):
    if not sym(*cs):
        return all(cs)
    if any((not sym(c)) and not c for c in cs):
        return False
    cs = [c for c in cs if sym(c)]
    return z3.And(cs) if len(cs) > 1 else cs[0]


def Or(*cs):
    if not sym(*cs):
        return any(cs)
    if any((not sym(c)) and c for c in cs):
        return True
    cs = [c for c in cs if sym(c)]
    return z3.Or(cs) if len(cs) > 1 else cs[0]


def Not(c):
    return z3.Not(c) if sym(c) else (not c)


def Implies(a, b):
    if not sym(a, b):
        return (not a) or b
    return z3.Implies(B(a), B(b))


def Iff(a, b):
    if not sym(a, b):
        return bool(a) == bool(b)
    return B(a) == B(b)


def imax(a, b):
    return ite(a >= b, a, b) if sym(a, b) else max(a, b)


def imin(a, b):
    return ite(a <= b, a, b) if sym(a, b) else min(a, b)


def iabs(a):
    return ite(a >= 0, a, -a) if sym(a) else abs(a)


_fdiv_cache = {}


def fdiv(x, d):
    """Python floor division; the divisor being non-zero is a side obligation (Defs.nonzero).
    Witnesses are cached per (x, d) term pair: q and r are functions of x and d, so every occurrence of
    the same division -- in a contract used modularly and in the postcondition being proved -- shares them."""
    if not sym(x, d):
        return x // d
    xs = x if sym(x) else z3.IntVal(x)
    ds = d if sym(d) else z3.IntVal(d)
    key = (xs.get_id(), ds.get_id())
    hit = _fdiv_cache.get(key)
    if hit is None:
        q = z3.Int(f"sq!{next(_cnt)}")
        r = z3.Int(f"sr!{next(_cnt)}")
        cons = [xs == q * ds + r]
        if not sym(d):
            cons.append(z3.And(0 <= r, r < d) if d > 0 else z3.And(d < r, r <= 0))
        else:
            cons.append(z3.If(ds > 0, z3.And(0 <= r, r < ds), z3.And(ds < r, r <= 0)))
            # implied linear sign facts (help the solver; each follows from the two constraints above)
            cons.append(z3.Implies(z3.And(ds > 0, xs >= 0), q >= 0))
            cons.append(z3.Implies(z3.And(ds > 0, xs < 0), q < 0))
            cons.append(z3.Implies(z3.And(ds < 0, xs > 0), q < 0))
            cons.append(z3.Implies(z3.And(ds < 0, xs <= 0), q >= 0))
        hit = (q, cons, xs, ds)  # keep xs/ds alive so ids are not recycled
        _fdiv_cache[key] = hit
    q, cons = hit[0], hit[1]
    if sym(d):
        Defs.nonzero(ds)
    elif d == 0:
        raise ZeroDivisionError
    frame = Defs.stack[-1][0]
    for c in cons:
        if not any(c is e for e in frame):
            frame.append(c)
    return q


def fmod(x, d):
    if not sym(x, d):
        return x % d
    return x - fdiv(x, d) * d


def eq(a, b):
    """structural equality on tuples / scalars"""
    if isinstance(a, tuple) or isinstance(b, tuple):
        if not (isinstance(a, tuple) and isinstance(b, tuple)) or len(a) != len(b):
            return False
        return And(*[eq(x, y) for x, y in zip(a, b)])
    if a is None or b is None:
        return a is None and b is None
    return a == b
