"""Operators with two readings: on Python ints/bools they compute, on z3 terms they build terms.
Spec functions in /verif/speclib and the pre/postconditions in /verif/contracts are written with them,
so one text yields both the proof obligation and the concrete check used for replay / bounded contracts.
"""
from __future__ import annotations

import itertools

import z3

_cnt = itertools.count()


class Defs:
    """definitional side constraints introduced by spec functions (floor-division witnesses)"""
    stack = [[]]

    @classmethod
    def push(cls):
        cls.stack.append([])

    @classmethod
    def pop(cls):
        return cls.stack.pop()

    @classmethod
    def add(cls, c):
        cls.stack[-1].append(c)


def sym(*vs):
    return any(isinstance(v, z3.ExprRef) for v in vs)


def B(v):
    if isinstance(v, z3.ExprRef):
        return v
    return z3.BoolVal(bool(v))


def ite(c, a, b):
    if not sym(c):
        return a if c else b
    if not sym(a) and not sym(b) and a is b:
        return a
    if isinstance(a, bool) or isinstance(b, bool) or (sym(a) and z3.is_bool(a)) or (sym(b) and z3.is_bool(b)):
        return z3.If(c, B(a), B(b))
    if isinstance(a, tuple):
        return tuple(ite(c, x, y) for x, y in zip(a, b))
    return z3.If(c, a if sym(a) else _num(a, b), b if sym(b) else _num(b, a))


def _num(v, other):
    if sym(other) and z3.is_real(other):
        return z3.RealVal(v)
    if isinstance(v, float):
        return z3.RealVal(v)
    return z3.IntVal(v)


def And(*cs):
    if not sym(*cs):
        return all(cs)
    if any((not sym(c)) and not c for c in cs):
        return False
    cs = [c for c in cs if sym(c)]
    return z3.And(cs) if len(cs) > 1 else cs[0]


def Or(*cs):
    if not sym(*cs):
        return any(cs)
    if any((not sym(c)) and c for c in cs):
        return True
    cs = [c for c in cs if sym(c)]
    return z3.Or(cs) if len(cs) > 1 else cs[0]


def Not(c):
    return z3.Not(c) if sym(c) else (not c)


def Implies(a, b):
    if not sym(a, b):
        return (not a) or b
    return z3.Implies(B(a), B(b))


def Iff(a, b):
    if not sym(a, b):
        return bool(a) == bool(b)
    return B(a) == B(b)


def imax(a, b):
    return ite(a >= b, a, b) if sym(a, b) else max(a, b)


def imin(a, b):
    return ite(a <= b, a, b) if sym(a, b) else min(a, b)


def iabs(a):
    return ite(a >= 0, a, -a) if sym(a) else abs(a)


def fdiv(x, d):
    """Python floor division; d must be non-zero (caller's obligation)"""
    if not sym(x, d):
        return x // d
    if not sym(d) and d > 0:
        q = z3.Int(f"sq!{next(_cnt)}")
        r = z3.Int(f"sr!{next(_cnt)}")
        Defs.add(x == q * d + r)
        Defs.add(z3.And(0 <= r, r < d))
        return q
    q = z3.Int(f"sq!{next(_cnt)}")
    r = z3.Int(f"sr!{next(_cnt)}")
    Defs.add(x == q * d + r)
    Defs.add(z3.If(d > 0, z3.And(0 <= r, r < d), z3.And(d < r, r <= 0)))
    return q


def fmod(x, d):
    if not sym(x, d):
        return x % d
    return x - fdiv(x, d) * d


def eq(a, b):
    """structural equality on tuples / scalars"""
    if isinstance(a, tuple) or isinstance(b, tuple):
        if not (isinstance(a, tuple) and isinstance(b, tuple)) or len(a) != len(b):
            return False
        return And(*[eq(x, y) for x, y in zip(a, b)])
    if a is None or b is None:
        return a is None and b is None
    return a == b
