"""pyvc.symex -- path-based symbolic executor over the Python ``ast`` of *real* cogent3 functions.

The executor never sees a hand-written model of a cogent3 function: ``pyvc.extract`` hands it the
``ast.FunctionDef`` nodes parsed from /repo's working tree on every run.  What is modelled here is
Python itself (the subset listed in DESIGN.md section 2.2):

* values: Python constants, z3 ``Int``/``Bool``/``Real``/``String`` terms, tuples, lists and dicts of
  concrete shape, ``Rec`` (record with named fields = an object), ``Opaque`` (uninterpreted object);
* statements: assignment (names, tuples, attributes), augmented assignment, ``if``, ``return``,
  ``raise``, ``assert``, ``try/except/else/finally``, ``with`` (through hooks), ``pass``, expression
  statements, ``for``/``while`` only through a loop handler supplied by the contract;
* expressions: arithmetic with Python floor-division semantics, comparison chains, ``and``/``or`` with
  short-circuit, conditional expressions (as ``ite`` when both arms are scalar), walrus, attribute,
  call (through hooks), subscripts of concrete containers.

Forking is replay-style: a path is a vector of Boolean decisions; the function is re-executed per
vector, so mutable state needs no copying.  Only ``if``/``while``/``assert``/truth tests fork; ``min``,
``max``, ``abs`` and scalar conditional expressions are encoded as ``ite`` terms.
"""
from __future__ import annotations

import ast
import itertools

import z3

__all__ = [
    "Engine", "Hooks", "Rec", "Template", "SymRange", "SymList", "Opaque", "SliceV", "Raise", "Unsupported", "PathResult", "is_sym",
    "fresh_int", "fresh_bool", "fresh_real",
]


class Unsupported(Exception):
    """construct outside the verified subset: the function is UNDECIDED, never a violation"""


class Raise(Exception):
    def __init__(self, kind, payload=None):
        self.kind = kind
        self.payload = payload


class _Return(Exception):
    def __init__(self, val):
        self.val = val


class _Break(Exception):
    pass


class _Continue(Exception):
    pass


class _ForkInPure(Exception):
    pass


class PathAbort(Exception):
    """path ends here by design (e.g. after checking a loop invariant's preservation)"""


class Rec:
    """symbolic record: an object with named fields and a class tag"""

    def __init__(self, cls, **fields):
        self.cls = cls
        self.fields = dict(fields)
        self.cache = {}

    def __repr__(self):
        return f"Rec<{self.cls}>({self.fields})"


class Opaque:
    """an object about which nothing is known except its tag and identity"""
    _ids = itertools.count()

    def __init__(self, tag, **attrs):
        self.tag = tag
        self.attrs = attrs
        self.uid = next(Opaque._ids)

    def __repr__(self):
        return f"Opaque<{self.tag}#{self.uid}>"


class Template:
    """text with symbolic holes (the value of an f-string that formats symbolic integers)"""

    def __init__(self, parts):
        out = []
        for p_ in parts:
            if isinstance(p_, Template):
                out.extend(p_.parts)
            else:
                out.append(p_)
        merged = []
        for p_ in out:
            if isinstance(p_, str) and merged and isinstance(merged[-1], str):
                merged[-1] += p_
            elif not (isinstance(p_, str) and p_ == ""):
                merged.append(p_)
        self.parts = merged

    def __repr__(self):
        return "Template(" + "".join(p_ if isinstance(p_, str) else "{" + str(p_) + "}" for p_ in self.parts) + ")"


def _concrete(v, depth=0):
    if isinstance(v, (str, int, float, bool, bytes)) or v is None:
        return True
    if isinstance(v, (list, tuple, set, frozenset)) and depth < 4:
        return all(_concrete(x, depth + 1) for x in v)
    if isinstance(v, dict) and depth < 4:
        return all(_concrete(k, depth + 1) and _concrete(x, depth + 1) for k, x in v.items())
    return False


PYTYPES = {"tuple": tuple, "set": set, "list": list, "str": str, "int": int, "dict": dict, "float": float,
           "bool": bool, "bytes": bytes, "frozenset": frozenset}


class SymRange:
    """range(a, b, c) with symbolic bounds"""

    def __init__(self, a, b, c):
        self.a, self.b, self.c = a, b, c


class SymList:
    """a list of symbolic length described by its generic element: for every j with 0 <= j < count the j-th
    element is ``elem`` (a value that mentions the variable ``j``); ``side`` are the constraints (definitional or
    implied) collected while the element expression was evaluated"""

    def __init__(self, j, count, elem, side):
        self.j, self.count, self.elem, self.side = j, count, elem, side


class OptV:
    """an ``Optional[int]`` value: ``none`` (z3 Bool) says whether it is None, ``val`` (z3 Int) is the number
    otherwise.  ``x is None`` reads ``none``; arithmetic on it raises TypeError on the None branch."""

    def __init__(self, none, val):
        self.none, self.val = none, val

    def __repr__(self):
        return f"OptV({self.none}, {self.val})"


class SliceV:
    def __init__(self, start, stop, step):
        self.start, self.stop, self.step = start, stop, step


_fresh = itertools.count()


def fresh_int(prefix="i"):
    return z3.Int(f"{prefix}!{next(_fresh)}")


def fresh_bool(prefix="b"):
    return z3.Bool(f"{prefix}!{next(_fresh)}")


def fresh_real(prefix="r"):
    return z3.Real(f"{prefix}!{next(_fresh)}")


def is_sym(v):
    return isinstance(v, z3.ExprRef)


def is_linear(e):
    if z3.is_app(e):
        k = e.decl().kind()
        if k == z3.Z3_OP_MUL:
            nonconst = [a for a in e.children() if not (z3.is_int_value(a) or z3.is_rational_value(a))]
            if len(nonconst) > 1:
                return False
        if k in (z3.Z3_OP_IDIV, z3.Z3_OP_MOD, z3.Z3_OP_DIV):
            if not (z3.is_int_value(e.children()[1]) or z3.is_rational_value(e.children()[1])):
                return False
        return all(is_linear(c) for c in e.children())
    return True


# exception class hierarchy used for ``except`` matching (child -> parent)
EXC_PARENT = {
    "Exception": "BaseException", "KeyboardInterrupt": "BaseException", "SystemExit": "BaseException",
    "Kill": "BaseException",  # ghost: the process dies here
    "ArithmeticError": "Exception", "ZeroDivisionError": "ArithmeticError", "OverflowError": "ArithmeticError",
    "FloatingPointError": "ArithmeticError",
    "LookupError": "Exception", "IndexError": "LookupError", "KeyError": "LookupError",
    "ValueError": "Exception", "TypeError": "Exception", "AssertionError": "Exception",
    "AttributeError": "Exception", "NotImplementedError": "RuntimeError", "RuntimeError": "Exception",
    "OSError": "Exception", "IOError": "Exception", "FileNotFoundError": "OSError", "PermissionError": "OSError",
    "FileExistsError": "OSError", "StopIteration": "Exception",
    "MaximumEvaluationsReached": "FloatingPointError", "ParameterOutOfBoundsError": "Exception",
}


def exc_isinstance(kind, cls):
    k = kind
    if cls == "IOError":
        cls = "OSError"
    if k == "IOError":
        k = "OSError"
    while k is not None:
        if k == cls:
            return True
        k = EXC_PARENT.get(k)
    return False


class PathResult:
    def __init__(self, pc, outcome, value, obligations, trace, decisions, state=None):
        self.pc = pc                  # list of z3 Bool
        self.outcome = outcome        # "return" | "raise" | "abort"
        self.value = value            # returned value or exception kind
        self.obligations = obligations  # [(name, z3 Bool that must hold under pc)]
        self.trace = trace            # ghost event list
        self.decisions = decisions
        self.state = state


class Hooks:
    """contract-side extension points; the defaults know only builtins"""

    def call_name(self, eng, name, args, kw, env):
        raise Unsupported(f"call {name}")

    def call_method(self, eng, obj, meth, args, kw, env):
        raise Unsupported(f"method {meth} on {obj!r}")

    def call_value(self, eng, fn, args, kw, env):
        raise Unsupported(f"call of value {fn!r}")

    def get_attr(self, eng, obj, attr):
        raise Unsupported(f"attr {attr} on {obj!r}")

    def set_attr(self, eng, obj, attr, val):
        if isinstance(obj, Rec):
            obj.fields[attr] = val
            obj.cache.clear()
            return
        raise Unsupported(f"set attr {attr} on {obj!r}")

    def truth(self, eng, v):
        raise Unsupported(f"truth of {v!r}")

    def loop(self, eng, node, env):
        raise Unsupported("loop without invariant")

    def with_enter(self, eng, ctx, env):
        raise Unsupported("with")

    def with_exit(self, eng, ctx, exc, env):
        raise Unsupported("with")

    def global_name(self, eng, name):
        raise Unsupported(f"name {name}")

    def yield_(self, eng, value, env):
        raise Unsupported("yield")

    def subscript(self, eng, obj, idx):
        raise Unsupported(f"subscript of {obj!r}")

    def isinstance(self, eng, v, clsnames):
        raise Unsupported(f"isinstance({v!r}, {clsnames})")

    def str_format(self, eng, fmt, arg):
        """printf-style formatting: the text is dropped, only its length is kept when it is determined"""
        import re as _re
        m = _re.fullmatch(r"%(-?)(\d+)s", fmt)
        if m and not isinstance(arg, tuple):
            width = int(m.group(2))
            n = arg.attrs.get("length") if isinstance(arg, Opaque) else (len(arg) if isinstance(arg, str) else None)
            if n is not None:
                ln = z3.If(n >= width, n, width) if is_sym(n) else max(n, width)
                return Opaque("text", length=ln, formatted=fmt)
        return Opaque("text", formatted=fmt)


class Engine:
    def __init__(self, funcs, hooks, prune_ms=250, max_paths=20000, int_div_lemmas=True, prune_logic="QF_LIA"):
        self.funcs = funcs            # name -> ast.FunctionDef (methods of the class under contract + module functions)
        self.hooks = hooks
        self.prune_ms = prune_ms
        self.max_paths = max_paths
        self.nforks = 0
        self.nofork = 0
        self.prune_logic = prune_logic   # None: general solver (needed when path conditions mention strings)
        self.int_div_lemmas = int_div_lemmas

    # ------------------------------------------------------------------ driver
    def run(self, entry, base_pc=()):
        """entry(engine) executes the code under analysis; returns every feasible path"""
        results = []
        work = [[]]
        while work:
            prefix = work.pop()
            self.decisions = list(prefix)
            self.dpos = 0
            self.pc = list(base_pc)
            self.obligations = []
            self.inline = []
            self.trace = []
            self.new_branches = []
            self.memo = {}
            self.state = {}
            try:
                out = ("return", entry(self))
            except Raise as r:
                out = ("raise", r.kind)
            except _Return as r:  # pragma: no cover
                out = ("return", r.val)
            except PathAbort:
                out = ("abort", None)
            pr = PathResult(self.pc, out[0], out[1], self.obligations, self.trace, list(self.decisions), self.state)
            pr.inline = self.inline   # side obligations discharged on the spot by the in-process solver
            results.append(pr)
            work.extend(self.new_branches)
            if len(results) > self.max_paths:
                raise Unsupported(f"more than {self.max_paths} paths")
        return results

    # ------------------------------------------------------------------ branching
    def assume(self, cond):
        if isinstance(cond, bool):
            if not cond:
                raise PathAbort()
            return
        self.pc.append(cond)

    def require(self, name, cond):
        """side obligation: must hold on this path (pc at this point is captured)"""
        if isinstance(cond, bool):
            if cond:
                return
            cond = z3.BoolVal(cond)
        cond = z3.simplify(cond)
        if z3.is_true(cond):
            return
        if any(n == name and c.eq(cond) for n, _, c in self.obligations):
            return
        # discharged on the spot when the *linear relaxation* of the path condition already implies it
        # (dropping hypotheses is sound for validity); counted in ``inline_discharged``
        if not self.feasible(z3.Not(cond)):
            self.inline_discharged = getattr(self, "inline_discharged", 0) + 1
            self.inline.append(name)
            return
        self.obligations.append((name, list(self.pc), cond))

    def feasible(self, extra):
        s = z3.SolverFor(self.prune_logic) if self.prune_logic else z3.Solver()
        s.set("timeout", self.prune_ms)
        for c in self.pc + [extra]:
            if is_linear(c):
                s.add(c)
        return s.check() != z3.unsat

    def branch(self, cond):
        if isinstance(cond, bool):
            return cond
        cond = z3.simplify(cond)
        if z3.is_true(cond):
            return True
        if z3.is_false(cond):
            return False
        if self.nofork:
            ft = self.feasible(cond)
            ff = self.feasible(z3.Not(cond))
            if ft and ff:
                raise _ForkInPure()
            if not ft and not ff:
                raise PathAbort()
            self.pc.append(cond if ft else z3.Not(cond))  # implied by the linear part of pc
            return ft
        if self.dpos < len(self.decisions):
            d = self.decisions[self.dpos]
            self.dpos += 1
        else:
            ft = self.feasible(cond)
            ff = self.feasible(z3.Not(cond))
            if ft and ff:
                self.new_branches.append(self.decisions + [False])
                d = True
            elif ft:
                d = True
            elif ff:
                d = False
            else:
                raise PathAbort()
            self.decisions.append(d)
            self.dpos += 1
            self.nforks += 1
        self.pc.append(cond if d else z3.Not(cond))
        return d

    def choose(self, n, label="choice"):
        """non-deterministic choice among n alternatives (externals with several outcomes)"""
        for i in range(n - 1):
            if self.branch(fresh_bool(f"{label}{i}")):
                return i
        return n - 1

    # ------------------------------------------------------------------ python integer semantics
    def floordiv(self, x, d):
        if not is_sym(d) and not is_sym(x):
            if d == 0:
                raise Raise("ZeroDivisionError")
            return x // d
        if is_sym(x) and z3.is_real(x) or is_sym(d) and z3.is_real(d):
            raise Unsupported("floor division on reals")
        if is_sym(d):
            if self.branch(d == 0):
                raise Raise("ZeroDivisionError")
        elif d == 0:
            raise Raise("ZeroDivisionError")
        key = ("//", _key(x), _key(d))
        if key in self.memo:
            return self.memo[key]
        q, r = fresh_int("q"), fresh_int("r")
        self.pc.append(x == q * d + r)
        if is_sym(d):
            self.pc.append(z3.If(d > 0, z3.And(0 <= r, r < d), z3.And(d < r, r <= 0)))
            if self.int_div_lemmas:
                self.pc.append(z3.Implies(z3.And(d > 0, x >= 0), q >= 0))
                self.pc.append(z3.Implies(z3.And(d > 0, x < 0), q < 0))
                self.pc.append(z3.Implies(z3.And(d < 0, x > 0), q < 0))
                self.pc.append(z3.Implies(z3.And(d < 0, x <= 0), q >= 0))
        elif d > 0:
            self.pc.append(z3.And(0 <= r, r < d))
        else:
            self.pc.append(z3.And(d < r, r <= 0))
        self.memo[key] = q
        return q

    def mod(self, x, d):
        if not is_sym(d) and not is_sym(x):
            if d == 0:
                raise Raise("ZeroDivisionError")
            return x % d
        q = self.floordiv(x, d)
        return x - q * d

    # ------------------------------------------------------------------ calls of extracted functions
    def call(self, fname, args, memo_key=None):
        if memo_key is not None and memo_key in self.memo:
            return self.memo[memo_key]
        fn = self.funcs[fname]
        env = self.bind(fn, args)
        try:
            self.block(fn.body, env)
            r = None
        except _Return as ret:
            r = ret.val
        if memo_key is not None:
            self.memo[memo_key] = r
        return r

    def bind(self, fn, args):
        env = dict(args)
        a = fn.args
        names = [x.arg for x in a.posonlyargs + a.args]
        for n, dflt in zip(names[len(names) - len(a.defaults):], a.defaults):
            if n not in env:
                env[n] = self.eval(dflt, {})
        for n, dflt in zip([x.arg for x in a.kwonlyargs], a.kw_defaults):
            if n not in env and dflt is not None:
                env[n] = self.eval(dflt, {})
        return env

    def call_positional(self, fname, pos, kw, self_obj=None):
        fn = self.funcs[fname]
        names = [x.arg for x in fn.args.posonlyargs + fn.args.args]
        args = {}
        if self_obj is not None:
            args[names[0]] = self_obj
            names = names[1:]
        if len(pos) > len(names):
            raise Unsupported(f"too many positional args for {fname}")
        args.update(zip(names, pos))
        accepted = set(names) | {x.arg for x in fn.args.kwonlyargs}
        for k, v in kw.items():
            if k in accepted:
                args[k] = v
            elif fn.args.kwarg is None:
                raise Raise("TypeError")
        if fn.args.kwarg is not None:
            args[fn.args.kwarg.arg] = {k: v for k, v in kw.items() if k not in accepted}
        return args

    # ------------------------------------------------------------------ statements
    def block(self, stmts, env):
        for s in stmts:
            self.stmt(s, env)

    def stmt(self, s, env):
        if isinstance(s, ast.Expr):
            if isinstance(s.value, ast.Constant):
                return
            self.eval(s.value, env)
            return
        if isinstance(s, ast.Pass):
            return
        if isinstance(s, ast.Return):
            raise _Return(self.eval(s.value, env) if s.value is not None else None)
        if isinstance(s, ast.Assign):
            v = self.eval(s.value, env)
            for t in s.targets:
                self.assign(t, v, env)
            return
        if isinstance(s, ast.AnnAssign):
            if s.value is not None:
                self.assign(s.target, self.eval(s.value, env), env)
            return
        if isinstance(s, ast.AugAssign):
            cur = self.eval(_as_load(s.target), env)
            v = self.eval(s.value, env)
            self.assign(s.target, self.binop(s.op, cur, v), env)
            return
        if isinstance(s, ast.If):
            c = self.truth(self.eval(s.test, env))
            self.block(s.body if c else s.orelse, env)
            return
        if isinstance(s, ast.Raise):
            if s.exc is None:
                cur = env.get("__current_exception__")
                if cur is None:
                    raise Unsupported("bare raise outside handler")
                raise Raise(cur.kind, cur.payload)
            kind, payload = self.exc_of(s.exc, env)
            raise Raise(kind, payload)
        if isinstance(s, ast.Assert):
            c = self.truth(self.eval(s.test, env))
            if not c:
                raise Raise("AssertionError")
            return
        if isinstance(s, ast.Try):
            return self.try_stmt(s, env)
        if isinstance(s, ast.With):
            return self.with_stmt(s, env)
        if isinstance(s, ast.For):
            it = self.eval(s.iter, env)
            items = self.concrete_iter(it)
            if items is None:
                return self.hooks.loop(self, s, env)
            broke = False
            for item in items:  # iteration over a container of concrete shape: exact unrolling
                self.assign(s.target, item, env)
                try:
                    self.block(s.body, env)
                except _Break:
                    broke = True
                    break
                except _Continue:
                    continue
            if not broke:
                self.block(s.orelse, env)
            return
        if isinstance(s, ast.While):
            return self.hooks.loop(self, s, env)
        if isinstance(s, ast.Break):
            raise _Break()
        if isinstance(s, ast.Continue):
            raise _Continue()
        if isinstance(s, (ast.Import, ast.ImportFrom)):
            return
        if isinstance(s, ast.Delete):
            for t in s.targets:
                if isinstance(t, ast.Name):
                    env.pop(t.id, None)
                else:
                    raise Unsupported("del of non-name")
            return
        if isinstance(s, ast.FunctionDef):
            env[s.name] = ("closure", s, env)
            return
        if isinstance(s, ast.Nonlocal) or isinstance(s, ast.Global):
            return
        raise Unsupported(type(s).__name__)

    def exc_of(self, node, env):
        if isinstance(node, ast.Call):
            f = node.func
            name = f.id if isinstance(f, ast.Name) else f.attr if isinstance(f, ast.Attribute) else None
            if name is None:
                raise Unsupported("raise form")
            # evaluate arguments for their side conditions only when cheap: messages are dropped
            return name, None
        if isinstance(node, ast.Name):
            v = env.get(node.id)
            if isinstance(v, Raise):
                return v.kind, v.payload
            return node.id, None
        raise Unsupported("raise form")

    def try_stmt(self, s, env):
        pending = None
        try:
            try:
                self.block(s.body, env)
            except Raise as r:
                handled = False
                for h in s.handlers:
                    if self.handler_matches(h, r):
                        handled = True
                        if h.name:
                            env[h.name] = r
                        saved = env.get("__current_exception__")
                        env["__current_exception__"] = r
                        try:
                            self.block(h.body, env)
                        finally:
                            env["__current_exception__"] = saved
                        break
                if not handled:
                    raise
            else:
                self.block(s.orelse, env)
        except (Raise, _Return, _Break, _Continue) as e:
            pending = e
        if s.finalbody:
            self.block(s.finalbody, env)  # an exception in finally replaces the pending one
        if pending is not None:
            raise pending

    def handler_matches(self, h, r):
        if h.type is None:
            return True
        names = []
        t = h.type
        elts = t.elts if isinstance(t, ast.Tuple) else [t]
        for e in elts:
            if isinstance(e, ast.Name):
                names.append(e.id)
            elif isinstance(e, ast.Attribute):
                names.append(e.attr)
            else:
                raise Unsupported("except form")
        return any(exc_isinstance(r.kind, n) for n in names)

    def with_stmt(self, s, env):
        if len(s.items) != 1:
            raise Unsupported("multi-item with")
        item = s.items[0]
        ctx = self.eval(item.context_expr, env)
        if isinstance(ctx, tuple) and ctx and ctx[0] == "suppress":
            # contextlib.suppress(*exceptions): the listed exceptions end the block silently
            try:
                self.block(s.body, env)
            except Raise as r:
                if r.kind != "Kill" and any(exc_isinstance(r.kind, n) for n in ctx[1]):
                    return
                raise
            return
        v = self.hooks.with_enter(self, ctx, env)
        if item.optional_vars is not None:
            self.assign(item.optional_vars, v, env)
        try:
            self.block(s.body, env)
        except Raise as r:
            if r.kind == "Kill":
                raise
            suppress = self.hooks.with_exit(self, ctx, r, env)
            if not suppress:
                raise
            return
        except (_Return, _Break, _Continue):
            self.hooks.with_exit(self, ctx, None, env)
            raise
        self.hooks.with_exit(self, ctx, None, env)

    def symlist(self, rng, target, elt, env):
        """[elt for target in range(a, b, c)] with symbolic bounds: the generic element, evaluated fork-free"""
        from .dsl import Defs
        from speclib.slices import len_range
        if is_sym(rng.c):
            if self.branch(rng.c == 0):
                raise Raise("ValueError")
        j = fresh_int("j")
        Defs.push()
        count = len_range(rng.a, rng.b, rng.c)
        defs, nz = Defs.pop()
        for c_ in defs:
            self.pc.append(c_)
        mark = len(self.pc)
        self.pc.append(z3.And(0 <= j, j < count))
        local = dict(env)
        local[target] = rng.a + j * rng.c
        self.nofork += 1
        try:
            elem = self.eval(elt, local)
        except _ForkInPure:
            raise Unsupported("comprehension element forks")
        finally:
            self.nofork -= 1
        side = self.pc[mark:]
        del self.pc[mark:]
        return SymList(j, count, elem, side)

    def concrete_iter(self, it):
        if isinstance(it, tuple) and len(it) == 2 and isinstance(it[0], str) and it[0] == "enumerate":
            return None       # enumerate over a symbolic range / sequence: needs a loop contract
        if isinstance(it, (list, tuple)):
            return list(it)
        if isinstance(it, dict):
            return list(it.keys())
        if isinstance(it, (set, frozenset)) and _concrete(it):
            return sorted(it, key=repr)
        if isinstance(it, str):
            return list(it)
        if isinstance(it, range):
            return list(it)
        if isinstance(it, type({}.items())) or isinstance(it, type({}.values())) or isinstance(it, type({}.keys())):
            return list(it)
        if isinstance(it, (enumerate, zip)):
            return list(it)
        return None

    def assign(self, t, v, env):
        if isinstance(t, ast.Name):
            env[t.id] = v
        elif isinstance(t, (ast.Tuple, ast.List)):
            if not isinstance(v, (tuple, list)):
                raise Unsupported("unpack")
            stars = [i for i, x in enumerate(t.elts) if isinstance(x, ast.Starred)]
            if stars:
                if len(stars) > 1 or len(v) < len(t.elts) - 1:
                    raise Unsupported("unpack")
                i = stars[0]
                tail = len(t.elts) - i - 1
                parts = list(v[:i]) + [list(v[i:len(v) - tail])] + list(v[len(v) - tail:])
                for tt, vv in zip(t.elts, parts):
                    self.assign(tt.value if isinstance(tt, ast.Starred) else tt, vv, env)
                return
            if len(v) != len(t.elts):
                raise Unsupported("unpack")
            for tt, vv in zip(t.elts, v):
                self.assign(tt, vv, env)
        elif isinstance(t, ast.Attribute):
            obj = self.eval(t.value, env)
            self.hooks.set_attr(self, obj, t.attr, v)
        elif isinstance(t, ast.Subscript):
            obj = self.eval(t.value, env)
            idx = self.eval(t.slice, env)
            if isinstance(obj, dict) and not is_sym(idx):
                obj[idx] = v
            elif isinstance(obj, list) and isinstance(idx, int):
                obj[idx] = v
            else:
                self.hooks.subscript(self, obj, ("store", idx, v))
        else:
            raise Unsupported("assign target")

    # ------------------------------------------------------------------ expressions
    def truth(self, v):
        if v is None:
            return False
        if isinstance(v, bool):
            return v
        if isinstance(v, (int, float)):
            return v != 0
        if isinstance(v, (str, tuple, list, dict, set, frozenset)):
            return len(v) != 0
        if isinstance(v, Template):
            return True if any(not isinstance(p_, str) or p_ for p_ in v.parts) else False
        if is_sym(v):
            if z3.is_bool(v):
                return self.branch(v)
            if z3.is_int(v) or z3.is_real(v):
                return self.branch(v != 0)
            if z3.is_string(v):
                return self.branch(z3.Length(v) != 0)
        return self.hooks.truth(self, v)

    def to_bool_term(self, v):
        """truth value as a z3 term without forking, or None if that is impossible"""
        if v is None:
            return z3.BoolVal(False)
        if isinstance(v, bool):
            return z3.BoolVal(v)
        if isinstance(v, int):
            return z3.BoolVal(v != 0)
        if is_sym(v):
            if z3.is_bool(v):
                return v
            if z3.is_int(v) or z3.is_real(v):
                return v != 0
        return None

    def unopt(self, v):
        if isinstance(v, OptV):
            if self.branch(v.none):
                raise Raise("TypeError")
            return v.val
        return v

    def binop(self, op, l, r):
        l, r = self.unopt(l), self.unopt(r)
        if isinstance(l, (list, tuple, str)) and not is_sym(l) and isinstance(op, ast.Add) and type(l) is type(r):
            return l + r
        if isinstance(l, (set, frozenset)) and isinstance(r, (set, frozenset)) and _concrete(l) and _concrete(r):
            if isinstance(op, ast.BitAnd):
                return l & r
            if isinstance(op, ast.BitOr):
                return l | r
            if isinstance(op, ast.Sub):
                return l - r
            if isinstance(op, ast.BitXor):
                return l ^ r
        if isinstance(op, ast.Add) and (isinstance(l, Opaque) and l.tag == "text" or isinstance(r, Opaque) and r.tag == "text") \
                and isinstance(l, (str, Opaque, tuple)) and isinstance(r, (str, Opaque, tuple)):
            return Opaque("text", parts=[l, r])
        if isinstance(op, ast.Add) and (isinstance(l, Template) or isinstance(r, Template)):
            return Template([l, r])
        if isinstance(op, ast.Add):
            if is_sym(l) and z3.is_string(l) or is_sym(r) and z3.is_string(r):
                return z3.Concat(_s(l), _s(r))
            return l + r
        if isinstance(op, ast.Sub):
            return l - r
        if isinstance(op, ast.Mult):
            return l * r
        if isinstance(op, ast.FloorDiv):
            return self.floordiv(l, r)
        if isinstance(op, ast.Mod):
            if isinstance(l, str):
                return self.hooks.str_format(self, l, r)
            return self.mod(l, r)
        if isinstance(op, ast.Div):
            if is_sym(r):
                if self.branch(r == 0):
                    raise Raise("ZeroDivisionError")
            elif r == 0:
                raise Raise("ZeroDivisionError")
            lr = z3.ToReal(l) if is_sym(l) and z3.is_int(l) else l
            rr = z3.ToReal(r) if is_sym(r) and z3.is_int(r) else r
            if not is_sym(lr) and not is_sym(rr):
                if isinstance(lr, int) and isinstance(rr, int) and not isinstance(lr, bool) and lr % rr != 0:
                    return z3.Q(lr, rr)      # floats are modelled as reals: 4 / 3 is the rational 4/3
                return lr / rr
            if not is_sym(lr):
                lr = z3.RealVal(lr)
            return lr / rr
        if isinstance(op, ast.Pow) and not is_sym(r) and isinstance(r, int) and 0 <= r <= 4:
            out = 1
            for _ in range(r):
                out = out * l
            return out
        raise Unsupported(f"binop {type(op).__name__}")

    def cmp(self, op, l, r):
        if isinstance(op, (ast.Is, ast.IsNot)):
            if isinstance(l, OptV) and r is None:
                res = l.none
            elif isinstance(r, OptV) and l is None:
                res = r.none
            elif l is None or r is None:
                res = l is None and r is None
            elif isinstance(l, (Rec, Opaque)) or isinstance(r, (Rec, Opaque)):
                res = l is r
            elif isinstance(l, bool) and isinstance(r, bool):
                res = l is r
            else:
                res = fresh_bool("ident")  # identity of two non-None scalars is implementation defined
            if is_sym(res):
                return res if isinstance(op, ast.Is) else z3.Not(res)
            return res if isinstance(op, ast.Is) else not res
        if isinstance(op, (ast.In, ast.NotIn)):
            res = self.contains(r, l)
            if is_sym(res):
                return res if isinstance(op, ast.In) else z3.Not(res)
            return res if isinstance(op, ast.In) else not res
        if l is None or r is None:
            if isinstance(op, ast.Eq):
                return l is None and r is None
            if isinstance(op, ast.NotEq):
                return not (l is None and r is None)
            raise Raise("TypeError")
        if isinstance(l, tuple) and isinstance(r, tuple) and isinstance(op, (ast.Eq, ast.NotEq)):
            if len(l) != len(r):
                return isinstance(op, ast.NotEq)
            parts = [self.cmp(ast.Eq(), a, b) for a, b in zip(l, r)]
            if all(isinstance(p, bool) for p in parts):
                res = all(parts)
                return res if isinstance(op, ast.Eq) else not res
            res = z3.And([p if is_sym(p) else z3.BoolVal(p) for p in parts])
            return res if isinstance(op, ast.Eq) else z3.Not(res)
        if isinstance(l, (Rec, Opaque)) or isinstance(r, (Rec, Opaque)):
            if isinstance(op, ast.Eq):
                return l is r if (isinstance(l, Opaque) or isinstance(r, Opaque)) else _unsupported("== on records")
            if isinstance(op, ast.NotEq):
                return l is not r if (isinstance(l, Opaque) or isinstance(r, Opaque)) else _unsupported("!= on records")
        if isinstance(l, str) and is_sym(r):
            l = z3.StringVal(l)
        if isinstance(r, str) and is_sym(l):
            r = z3.StringVal(r)
        if isinstance(op, ast.Lt):
            return l < r
        if isinstance(op, ast.LtE):
            return l <= r
        if isinstance(op, ast.Gt):
            return l > r
        if isinstance(op, ast.GtE):
            return l >= r
        if isinstance(op, ast.Eq):
            return l == r
        if isinstance(op, ast.NotEq):
            return l != r
        raise Unsupported("cmp")

    def contains(self, container, item):
        if is_sym(container) and z3.is_string(container):
            return z3.Contains(container, _s(item))
        if isinstance(container, str) and is_sym(item):
            return z3.Contains(z3.StringVal(container), item)
        if isinstance(container, (str, bytes)) and isinstance(item, (str, bytes)):
            return item in container
        if isinstance(container, (tuple, list, set, frozenset, dict)):
            if not is_sym(item) and not any(is_sym(c) for c in container):
                return item in container
            return z3.Or([self._eqterm(item, c) for c in container]) if len(container) else False
        return self.hooks.call_method(self, container, "__contains__", [item], {}, None)

    def _eqterm(self, a, b):
        r = self.cmp(ast.Eq(), a, b)
        return r if is_sym(r) else z3.BoolVal(bool(r))

    def eval(self, e, env):
        if isinstance(e, ast.Constant):
            return e.value
        if isinstance(e, ast.Name):
            if e.id in env:
                return env[e.id]
            if e.id in ("True", "False", "None"):
                return {"True": True, "False": False, "None": None}[e.id]
            if e.id in PYTYPES:
                return PYTYPES[e.id]
            if e.id in EXC_PARENT or e.id == "BaseException":
                try:
                    return self.hooks.global_name(self, e.id)
                except Unsupported:
                    return ("exc-class", e.id)
            return self.hooks.global_name(self, e.id)
        if isinstance(e, ast.Tuple):
            return tuple(self.eval(x, env) for x in e.elts)
        if isinstance(e, ast.List):
            return [self.eval(x, env) for x in e.elts]
        if isinstance(e, ast.Dict):
            d = {}
            for k, v in zip(e.keys, e.values):
                if k is None:
                    d.update(self.eval(v, env))
                else:
                    d[self.eval(k, env)] = self.eval(v, env)
            return d
        if isinstance(e, ast.UnaryOp):
            v = self.eval(e.operand, env)
            if isinstance(e.op, ast.USub):
                return -v
            if isinstance(e.op, ast.UAdd):
                return v
            if isinstance(e.op, ast.Not):
                t = self.to_bool_term(v) if is_sym(v) else None
                if t is not None and not z3.is_true(t) and not z3.is_false(t):
                    return z3.Not(t)
                return not self.truth(v)
            raise Unsupported("unary")
        if isinstance(e, ast.BinOp):
            return self.binop(e.op, self.eval(e.left, env), self.eval(e.right, env))
        if isinstance(e, ast.BoolOp):
            if isinstance(e.op, ast.And):
                v = True
                for x in e.values:
                    v = self.eval(x, env)
                    if not self.truth(v):
                        return v if not is_sym(v) else False
                return v if not is_sym(v) else True
            v = False
            for x in e.values:
                v = self.eval(x, env)
                if self.truth(v):
                    return v if not is_sym(v) or not z3.is_bool(v) else True
            return v if not is_sym(v) else False
        if isinstance(e, ast.Compare):
            left = self.eval(e.left, env)
            res = True
            for op, rt in zip(e.ops, e.comparators):
                right = self.eval(rt, env)
                c = self.cmp(op, left, right)
                if len(e.ops) == 1:
                    return c
                if not self.truth(c):
                    return False
                left = right
            return res
        if isinstance(e, ast.IfExp):
            t = self.eval(e.test, env)
            tb = self.to_bool_term(t) if is_sym(t) else None
            if tb is not None and _pure(e.body) and _pure(e.orelse):
                # scalar conditional expression: encode as ite, do not fork.  Both arms are evaluated in
                # no-fork mode (only definitional constraints may be added); otherwise roll back and fork.
                snap = (len(self.pc), dict(self.memo), len(self.obligations))
                self.nofork += 1
                ok = False
                try:
                    a = self.eval(e.body, env)
                    b = self.eval(e.orelse, env)
                    ok = _scalar(a) and _scalar(b)
                except (_ForkInPure, Unsupported, Raise):
                    ok = False
                finally:
                    self.nofork -= 1
                if ok:
                    return z3.If(tb, _z(a), _z(b))
                del self.pc[snap[0]:]
                self.memo = snap[1]
                del self.obligations[snap[2]:]
            return self.eval(e.body if self.truth(t) else e.orelse, env)
        if isinstance(e, ast.NamedExpr):
            v = self.eval(e.value, env)
            env[e.target.id] = v
            return v
        if isinstance(e, ast.Attribute):
            obj = self.eval(e.value, env)
            return self.getattr(obj, e.attr)
        if isinstance(e, ast.Call):
            return self.evalcall(e, env)
        if isinstance(e, ast.Subscript):
            obj = self.eval(e.value, env)
            idx = self.eval(e.slice, env)
            if isinstance(obj, (tuple, list)) and isinstance(idx, int):
                try:
                    return obj[idx]
                except IndexError:
                    raise Raise("IndexError")
            if isinstance(obj, dict) and not is_sym(idx):
                if idx in obj:
                    return obj[idx]
                raise Raise("KeyError")
            return self.hooks.subscript(self, obj, idx)
        if isinstance(e, ast.Slice):
            return SliceV(*(self.eval(x, env) if x is not None else None for x in (e.lower, e.upper, e.step)))
        if isinstance(e, ast.JoinedStr):
            parts = []
            for v in e.values:
                if isinstance(v, ast.Constant):
                    parts.append(v.value)
                else:
                    val = self.eval(v.value, env)
                    if isinstance(val, (str, Template)):
                        parts.append(val)
                    elif isinstance(val, bool) or val is None:
                        parts.append(str(val))
                    elif isinstance(val, int) and v.format_spec is None:
                        parts.append(str(val))
                    elif is_sym(val) and (z3.is_string(val) or (z3.is_int(val) and v.format_spec is None)):
                        parts.append(val)
                    elif isinstance(val, Opaque):
                        parts.append(val)
                    else:
                        return Opaque("fstring")
            if any(isinstance(p, Opaque) for p in parts):
                return Opaque("text", parts=parts)   # text whose pieces are kept for the contract to inspect
            if all(isinstance(p, str) for p in parts):
                return "".join(parts)
            if any(is_sym(p) and z3.is_int(p) for p in parts) or any(isinstance(p, Template) for p in parts):
                return Template(parts)
            return z3.Concat(*[_s(p) for p in parts]) if len(parts) > 1 else _s(parts[0])
        if isinstance(e, ast.Lambda):
            return ("lambda", e, env)
        if isinstance(e, ast.Yield):
            # a generator-based context manager: the hook plays the body of the ``with`` block (returns, or raises)
            return self.hooks.yield_(self, self.eval(e.value, env) if e.value is not None else None, env)
        if isinstance(e, (ast.ListComp, ast.GeneratorExp, ast.SetComp)):
            if len(e.generators) != 1:
                raise Unsupported("nested comprehension")
            g = e.generators[0]
            itv = self.eval(g.iter, env)
            if isinstance(itv, SymRange) and not g.ifs and isinstance(g.target, ast.Name):
                return self.symlist(itv, g.target.id, e.elt, env)
            items = self.concrete_iter(itv)
            if items is None:
                raise Unsupported("comprehension over symbolic iterable")
            out = []
            local = dict(env)
            for item in items:
                self.assign(g.target, item, local)
                if all(self.truth(self.eval(c, local)) for c in g.ifs):
                    out.append(self.eval(e.elt, local))
            return set(out) if isinstance(e, ast.SetComp) else out
        if isinstance(e, ast.Set):
            return set(self.eval(x, env) for x in e.elts)
        if isinstance(e, ast.DictComp):
            if len(e.generators) != 1:
                raise Unsupported("nested comprehension")
            g = e.generators[0]
            items = self.concrete_iter(self.eval(g.iter, env))
            if items is None:
                raise Unsupported("comprehension over symbolic iterable")
            out = {}
            local = dict(env)
            for item in items:
                self.assign(g.target, item, local)
                if all(self.truth(self.eval(c, local)) for c in g.ifs):
                    out[self.eval(e.key, local)] = self.eval(e.value, local)
            return out
        if isinstance(e, ast.Starred):
            raise Unsupported("starred")
        raise Unsupported(type(e).__name__)

    def _try_eval(self, e, env):
        try:
            return self.eval(e, env)
        except Unsupported:
            return _FAIL

    def getattr(self, obj, attr):
        if isinstance(obj, SliceV) and attr in ("start", "stop", "step"):
            return getattr(obj, attr)
        if isinstance(obj, Raise) and attr == "args":
            return (Opaque("exception-argument"),)
        return self.hooks.get_attr(self, obj, attr)

    def pymax(self, a, b):
        if not is_sym(a) and not is_sym(b):
            return max(a, b)
        return z3.If(_z(a) >= _z(b), _z(a), _z(b))

    def pymin(self, a, b):
        if not is_sym(a) and not is_sym(b):
            return min(a, b)
        return z3.If(_z(a) <= _z(b), _z(a), _z(b))

    def evalcall(self, e, env):
        f = e.func
        args = []
        for a in e.args:
            if isinstance(a, ast.Starred):
                v = self.eval(a.value, env)
                if not isinstance(v, (tuple, list)):
                    raise Unsupported("star-arg")
                args.extend(v)
            else:
                args.append(self.eval(a, env))
        kw = {}
        for k in e.keywords:
            v = self.eval(k.value, env)
            if k.arg is None:
                if not isinstance(v, dict):
                    raise Unsupported("**kwargs of non-dict")
                kw.update(v)
            else:
                kw[k.arg] = v
        if isinstance(f, ast.Name):
            n = f.id
            if n in env:
                return self.call_value(env[n], args, kw, env)
            b = self.builtin(n, args, kw)
            if b is not _FAIL:
                return b
            return self.hooks.call_name(self, n, args, kw, env)
        if isinstance(f, ast.Attribute):
            obj = self.eval(f.value, env)
            if isinstance(obj, Opaque) and obj.tag == "module" and obj.attrs.get("modname") == "contextlib" and f.attr == "suppress":
                names = []
                for a in args:
                    names.append(a[1] if isinstance(a, tuple) else a.kind if isinstance(a, Raise) else str(a))
                return ("suppress", names)
            if isinstance(obj, dict) and f.attr == "get":
                return obj.get(args[0], args[1] if len(args) > 1 else None)
            if isinstance(obj, dict) and f.attr == "pop" and not is_sym(args[0]):
                if args[0] in obj:
                    return obj.pop(args[0])
                if len(args) > 1:
                    return args[1]
                raise Raise("KeyError")
            if isinstance(obj, list) and f.attr in ("append", "extend", "insert", "pop", "copy", "index", "count"):
                if f.attr == "extend":
                    items = self.concrete_iter(args[0])
                    if items is None:
                        raise Unsupported("extend with symbolic iterable")
                    obj.extend(items)
                    return None
                try:
                    return getattr(obj, f.attr)(*args)
                except IndexError:
                    raise Raise("IndexError")
                except ValueError:
                    raise Raise("ValueError")
            if isinstance(obj, dict) and f.attr in ("items", "keys", "values", "copy", "update", "setdefault"):
                return getattr(obj, f.attr)(*args, **kw)
            if isinstance(obj, str) and f.attr == "join" and len(args) == 1 and isinstance(args[0], SymList):
                return ("join", obj, args[0])
            if isinstance(obj, str) and f.attr == "join" and len(args) == 1 and isinstance(args[0], (list, tuple)) \
                    and not all(isinstance(a, str) for a in args[0]):
                parts = []
                for i_, a in enumerate(args[0]):
                    if i_:
                        parts.append(obj)
                    if not isinstance(a, (str, Template)) and not (is_sym(a) and z3.is_string(a)):
                        raise Unsupported("join of non-text")
                    parts.append(a)
                if any(isinstance(a, Template) for a in parts):
                    return Template(parts)
                return z3.Concat(*[_s(a) for a in parts]) if len(parts) > 1 else _s(parts[0])
            if isinstance(obj, (str, bytes, tuple, frozenset, int, float)) and not isinstance(obj, bool) \
                    and _concrete(args) and _concrete(kw) and not f.attr.startswith("_"):
                try:  # pure method of an immutable builtin on concrete arguments: computed by CPython itself
                    return getattr(obj, f.attr)(*args, **kw)
                except (ValueError, IndexError, KeyError, TypeError, AttributeError) as ex:
                    raise Raise(type(ex).__name__)
            return self.hooks.call_method(self, obj, f.attr, args, kw, env)
        fn = self.eval(f, env)
        return self.call_value(fn, args, kw, env)

    def call_value(self, fn, args, kw, env):
        if isinstance(fn, tuple) and fn and fn[0] == "closure":
            _, node, cenv = fn
            names = [x.arg for x in node.args.args]
            local = dict(cenv)  # closures read the enclosing environment (by reference for Rec values)
            local.update(zip(names, args))
            accepted = set(names) | {x.arg for x in node.args.kwonlyargs}
            local.update({k: v for k, v in kw.items() if k in accepted})
            if node.args.kwarg is not None:
                local[node.args.kwarg.arg] = {k: v for k, v in kw.items() if k not in accepted}
            if node.args.vararg is not None:
                local[node.args.vararg.arg] = tuple(args[len(names):])
            for nme, dflt in zip(names[len(names) - len(node.args.defaults):], node.args.defaults):
                if nme not in dict(zip(names, args)) and nme not in kw:
                    local[nme] = self.eval(dflt, cenv)
            nonlocals = [n for st in node.body for x in ast.walk(st) if isinstance(x, ast.Nonlocal) for n in x.names]
            try:
                self.block(node.body, local)
            except _Return as r:
                return r.val
            finally:
                for n in nonlocals:                # ``nonlocal`` names are rebound in the enclosing scope
                    if n in local:
                        cenv[n] = local[n]
            return None
        if isinstance(fn, tuple) and fn and fn[0] == "lambda":
            _, node, cenv = fn
            local = dict(cenv)
            local.update(zip([x.arg for x in node.args.args], args))
            return self.eval(node.body, local)
        return self.hooks.call_value(self, fn, args, kw, env)

    def builtin(self, n, args, kw):
        if n == "abs" and len(args) == 1:
            v = args[0]
            if not is_sym(v):
                return abs(v)
            return z3.If(v >= 0, v, -v)
        if n == "max" and len(args) >= 2:
            r = args[0]
            for a in args[1:]:
                r = self.pymax(r, a)
            return r
        if n == "min" and len(args) >= 2:
            r = args[0]
            for a in args[1:]:
                r = self.pymin(r, a)
            return r
        if n == "divmod" and len(args) == 2:
            q = self.floordiv(args[0], args[1])
            return (q, self.mod(args[0], args[1]))
        if n == "len" and len(args) == 1:
            v = args[0]
            if isinstance(v, (tuple, list, dict, str)):
                return len(v)
            if is_sym(v) and z3.is_string(v):
                return z3.Length(v)
            return self.hooks.call_method(self, v, "__len__", [], {}, None)
        if n == "int" and len(args) == 1:
            v = args[0]
            if isinstance(v, bool):
                return int(v)
            if isinstance(v, int) or is_sym(v) and z3.is_int(v):
                return v
            if is_sym(v) and z3.is_bool(v):
                return z3.If(v, 1, 0)
            return _FAIL
        if n == "bool" and len(args) == 1:
            v = args[0]
            t = self.to_bool_term(v)
            if t is not None:
                return z3.simplify(t) if is_sym(v) else bool(v)
            return self.truth(v)
        if n == "isinstance" and len(args) == 2:
            v, t = args
            ts = t if isinstance(t, tuple) else (t,)
            if all(isinstance(x, type) for x in ts):
                if is_sym(v):
                    kinds = (int,) if z3.is_int(v) else (bool,) if z3.is_bool(v) else (float,) if z3.is_real(v) \
                        else (str,) if z3.is_string(v) else ()
                    if not kinds:
                        return _FAIL
                    return any(issubclass(k, x) for k in kinds for x in ts)
                if isinstance(v, Template):
                    return any(issubclass(str, x) for x in ts)
                if _concrete(v):
                    return isinstance(v, ts)
            return _FAIL
        if n == "range" and 1 <= len(args) <= 3 and not kw:
            a_, b_, c_ = (0, args[0], 1) if len(args) == 1 else (args[0], args[1], 1) if len(args) == 2 else args
            if not any(is_sym(x) for x in (a_, b_, c_)):
                return range(a_, b_, c_)
            return SymRange(a_, b_, c_)
        if n == "enumerate" and len(args) == 1 and (isinstance(args[0], SymRange) or any(k.__name__ == "SymSeq" for k in type(args[0]).__mro__)):
            return ("enumerate", args[0])
        if n == "enumerate" and len(args) == 1 and isinstance(args[0], (list, tuple)):
            return list(enumerate(args[0]))
        if n == "zip" and all(isinstance(a_, (list, tuple)) for a_ in args):
            return list(zip(*args))
        if n == "tuple" and len(args) == 1 and isinstance(args[0], (tuple, list)):
            return tuple(args[0])
        if n == "list" and len(args) == 1 and isinstance(args[0], (tuple, list)):
            return list(args[0])
        if n in ("list", "tuple", "sorted") and len(args) == 1 and not kw:
            items = self.concrete_iter(args[0])
            if items is not None and (n != "sorted" or _concrete(items)):
                return {"list": list, "tuple": tuple, "sorted": sorted}[n](items)
        if n == "dict" and not args:
            return dict(kw)
        if n in EXC_PARENT or n == "BaseException":
            return Raise(n)
        return _FAIL


_FAIL = object()


def _unsupported(msg):
    raise Unsupported(msg)


def _key(v):
    return v.get_id() if is_sym(v) else ("c", v)


def _as_load(t):
    import copy
    t2 = copy.copy(t)
    t2.ctx = ast.Load()
    return t2


def _pure(node):
    """expression without calls that could fork or have effects other than known pure builtins"""
    for n in ast.walk(node):
        if isinstance(n, ast.Call):
            if not (isinstance(n.func, ast.Name) and n.func.id in ("abs", "max", "min", "len", "int")):
                return False
        if isinstance(n, (ast.NamedExpr, ast.Lambda, ast.BoolOp, ast.IfExp, ast.Compare)):
            return False
    return True


def _scalar(v):
    return isinstance(v, (int, bool)) and not isinstance(v, str) or (is_sym(v) and (z3.is_int(v) or z3.is_bool(v) or z3.is_real(v)))


def _z(v):
    if is_sym(v):
        return v
    if isinstance(v, bool):
        return z3.BoolVal(v)
    if isinstance(v, int):
        return z3.IntVal(v)
    if isinstance(v, float):
        return z3.RealVal(v)
    raise Unsupported(f"scalar {v!r}")


def _s(v):
    if isinstance(v, str):
        return z3.StringVal(v)
    return v
