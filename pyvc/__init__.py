"""pyvc: verification-condition generator and harness for contract-based verification of cogent3."""
