"""SMT-LIB2 dump + solver portfolio (z3-new 5.1 CLI first, then /usr/bin/z3 4.8.12, then cvc5).

The in-process z3 API is used for term construction and cheap path pruning only; every verdict that
counts comes from a solver process with a hard wall-clock cap (measured necessity, DESIGN.md sect. 8).
"""
from __future__ import annotations

import hashlib
import os
import re
import shutil
import subprocess
import time

import z3

import itertools
_qid = itertools.count()
WORK = os.path.join(os.path.dirname(os.path.dirname(os.path.abspath(__file__))), ".work")

Z3NEW = shutil.which("z3-new") or "/usr/local/bin/z3-new"
Z3OLD = "/usr/bin/z3"
CVC5 = "/usr/bin/cvc5"


def to_smt2(assertions, logic=None, want_model=True):
    s = z3.Solver()
    for a in assertions:
        s.add(a)
    text = s.to_smt2()
    # to_smt2 ends with (check-sat)
    head = f"(set-logic {logic})\n" if logic else ""
    if want_model:
        text = text.rstrip() + "\n(get-model)\n"
    return head + text


def guess_logic(assertions):
    has_real = has_str = nonlin = quant = arr = uf = has_int = False

    seen = set()

    def walk(e):
        nonlocal has_real, has_str, nonlin, quant, arr, uf, has_int
        if e.get_id() in seen:
            return
        seen.add(e.get_id())
        if z3.is_quantifier(e):
            quant = True
            walk(e.body())
            return
        if z3.is_app(e):
            srt = e.sort()
            if srt.kind() == z3.Z3_REAL_SORT:
                has_real = True
            if srt.kind() == z3.Z3_INT_SORT:
                has_int = True
            if srt.kind() == z3.Z3_SEQ_SORT:
                has_str = True
            if srt.kind() == z3.Z3_ARRAY_SORT:
                arr = True
            k = e.decl().kind()
            if k == z3.Z3_OP_UNINTERPRETED and e.num_args() > 0:
                uf = True
            if k == z3.Z3_OP_MUL:
                nc = [a for a in e.children() if not (z3.is_int_value(a) or z3.is_rational_value(a))]
                if len(nc) > 1:
                    nonlin = True
            if k in (z3.Z3_OP_IDIV, z3.Z3_OP_MOD, z3.Z3_OP_DIV):
                if not (z3.is_int_value(e.children()[1]) or z3.is_rational_value(e.children()[1])):
                    nonlin = True
            for c in e.children():
                walk(c)

    for a in assertions:
        walk(a)
    if quant or arr or uf or has_str:
        return None  # let the solver choose (ALL)
    if has_real and has_int:
        return None
    if has_real:
        return "QF_NRA" if nonlin else "QF_LRA"
    return "QF_NIA" if nonlin else "QF_LIA"


_MODEL_RE = re.compile(r"\(define-fun\s+(\S+)\s+\(\)\s+(\w+)\s+(.*?)\)\s*(?=\(define-fun|\)\s*$)", re.S)


def parse_model(text):
    out = {}
    for name, sort, val in _MODEL_RE.findall(text):
        val = val.strip()
        name = name.strip("|")
        try:
            if sort == "Int":
                m = re.fullmatch(r"\(-\s*(\d+)\)", val)
                out[name] = -int(m.group(1)) if m else int(val)
            elif sort == "Bool":
                out[name] = val == "true"
            elif sort == "Real":
                out[name] = _real(val)
            elif sort == "String":
                out[name] = _unescape(val[1:-1])
        except Exception:
            out[name] = val
    return out


def _real(val):
    val = val.strip()
    m = re.fullmatch(r"\(-\s*(.*)\)", val)
    if m:
        return -_real(m.group(1))
    m = re.fullmatch(r"\(/\s*(\S+)\s+(\S+)\)", val)
    if m:
        return float(m.group(1)) / float(m.group(2))
    return float(val)


def _unescape(s):
    s = s.replace('""', '"')
    return re.sub(r"\\u\{([0-9a-fA-F]+)\}", lambda m: chr(int(m.group(1), 16)), s)


def run_solver(cmd, path, timeout):
    t0 = time.time()
    try:
        p = subprocess.run(cmd + [path], capture_output=True, text=True, timeout=timeout + 5)
        out = p.stdout
    except subprocess.TimeoutExpired:
        return "timeout", "", time.time() - t0
    first = out.strip().split("\n", 1)[0].strip() if out.strip() else ""
    if first in ("sat", "unsat", "unknown"):
        return first, out, time.time() - t0
    if first == "timeout" or "interrupted by timeout" in out or "timeout" in out.lower()[:200]:
        return "timeout", out, time.time() - t0
    return "error", out + p.stderr, time.time() - t0


def portfolio(text, timeout=30, strings=False, name="q"):
    """returns (status, backend, seconds, model_or_None, raw)"""
    os.makedirs(WORK, exist_ok=True)
    h = hashlib.sha1(text.encode()).hexdigest()[:12]
    path = os.path.join(WORK, f"{os.getpid()}_{next(_qid)}_{h}.smt2")
    with open(path, "w") as f:
        f.write(text)
    total = 0.0
    tried = []
    solvers = [
        ("z3-new 5.1.0", [Z3NEW, f"-T:{timeout}"]),
        ("z3 4.8.12", [Z3OLD, f"-T:{timeout}"]),
        ("cvc5 1.0.3", [CVC5, f"--tlimit={timeout * 1000}", "--produce-models"] + (["--strings-exp"] if strings else [])),
    ]
    if strings:
        solvers = [solvers[2], solvers[0], solvers[1]]
    try:
        for label, cmd in solvers:
            status, out, secs = run_solver(cmd, path, timeout)
            total += secs
            tried.append(f"{label}:{status}:{secs:.2f}s")
            if status == "unsat":
                return "unsat", label, total, None, "; ".join(tried)
            if status == "sat":
                return "sat", label, total, parse_model(out), "; ".join(tried)
        return "unknown", "none", total, None, "; ".join(tried)
    finally:
        try:
            os.unlink(path)
        except OSError:
            pass


def check_valid(pc, goal, timeout=30, logic="auto", defs=(), name="q", strings=False):
    """is  (and pc defs) -> goal  valid?  returns (verdict, backend, secs, model, raw) with verdict in
    proved / refuted / unknown"""
    assertions = list(pc) + list(defs) + [z3.Not(goal)]
    if logic == "auto":
        logic = guess_logic(assertions)
    text = to_smt2(assertions, logic)
    status, backend, secs, model, raw = portfolio(text, timeout, strings=strings, name=name)
    verdict = {"unsat": "proved", "sat": "refuted"}.get(status, "unknown")
    return verdict, backend, secs, model, raw


def check_sat(pc, timeout=20, logic="auto", strings=False):
    assertions = list(pc)
    if logic == "auto":
        logic = guess_logic(assertions)
    text = to_smt2(assertions, logic)
    status, backend, secs, model, raw = portfolio(text, timeout, strings=strings)
    return status, backend, secs, model, raw
