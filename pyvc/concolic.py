"""Symbolic evaluation of *real function objects* by operator overloading.

For numeric code (plain arithmetic, comparisons, numpy reductions over object arrays) Python's dynamic typing lets the
function that runs in production be executed on symbolic values: ``Sym`` wraps a z3 real term, arithmetic builds terms,
and a comparison used in an ``if`` asks the driver which way to go.  The driver re-runs the function once per feasible
decision vector (depth-first, infeasible prefixes pruned by z3) and returns one (path condition, result) per path --
the same information the AST engine produces, with no extraction step at all: the proved text is the code that runs.

Limits (stated in every evidence file that uses this): only operations Python dispatches to the operands are seen
(a C routine that insists on float64 fails loudly, it is never silently mis-modelled); ``math.log`` is not overloadable,
``numpy.log`` on an object array calls the element's ``log`` method, which returns the uninterpreted LOG(term).
"""
from __future__ import annotations

import z3

LOG = z3.Function("LOG", z3.RealSort(), z3.RealSort())


class _Driver:
    current = None

    def __init__(self, pre):
        self.pre = list(pre)
        self.decisions = []
        self.pos = 0
        self.pc = []

    def decide(self, cond):
        """truth value of a symbolic condition on this run"""
        if self.pos < len(self.decisions):
            v = self.decisions[self.pos]
        else:
            v = True
            self.decisions.append(v)
        self.pos += 1
        self.pc.append(cond if v else z3.Not(cond))
        s = z3.Solver()
        s.set("timeout", 3000)
        s.add(*self.pre, *self.pc)
        if s.check() == z3.unsat:
            raise _Infeasible()
        return v


class _Infeasible(Exception):
    pass


def _t(v):
    if isinstance(v, Sym):
        return v.t
    if isinstance(v, bool):
        raise TypeError("bool in arithmetic")
    if isinstance(v, int):
        return z3.RealVal(v)
    if isinstance(v, float):
        if v != v or v in (float("inf"), float("-inf")):
            raise TypeError("non-finite float constant")
        return z3.RealVal(repr(v))
    if hasattr(v, "item") and getattr(v, "shape", None) == ():
        return _t(v.item())
    raise TypeError(f"cannot mix {type(v).__name__} with a symbolic value")


def _is_arr(o):
    return type(o).__module__ == "numpy" and type(o).__name__ == "ndarray" and getattr(o, "shape", ()) != ()


class SymBool:
    def __init__(self, t):
        self.t = t

    def __bool__(self):
        return _Driver.current.decide(self.t)

    def __and__(self, o):
        return SymBool(z3.And(self.t, o.t if isinstance(o, SymBool) else z3.BoolVal(bool(o))))

    def __or__(self, o):
        return SymBool(z3.Or(self.t, o.t if isinstance(o, SymBool) else z3.BoolVal(bool(o))))

    def __invert__(self):
        return SymBool(z3.Not(self.t))


class Sym:
    """a real number known only symbolically"""

    def __init__(self, t):
        self.t = t

    # arithmetic (an ndarray operand is left to numpy, which then applies the operation element by element)
    def __add__(self, o): return NotImplemented if _is_arr(o) else Sym(self.t + _t(o))
    def __radd__(self, o): return NotImplemented if _is_arr(o) else Sym(_t(o) + self.t)
    def __sub__(self, o): return NotImplemented if _is_arr(o) else Sym(self.t - _t(o))
    def __rsub__(self, o): return NotImplemented if _is_arr(o) else Sym(_t(o) - self.t)
    def __mul__(self, o): return NotImplemented if _is_arr(o) else Sym(self.t * _t(o))
    def __rmul__(self, o): return NotImplemented if _is_arr(o) else Sym(_t(o) * self.t)
    def __neg__(self): return Sym(-self.t)
    def __pos__(self): return self

    def __truediv__(self, o):
        if _is_arr(o):
            return NotImplemented
        d = _t(o)
        _Driver.current.divisors.append(d)
        return Sym(self.t / d)

    def __rtruediv__(self, o):
        if _is_arr(o):
            return NotImplemented
        _Driver.current.divisors.append(self.t)
        return Sym(_t(o) / self.t)

    def __pow__(self, k):
        if isinstance(k, int) and 0 <= k <= 4:
            r = z3.RealVal(1)
            for _ in range(k):
                r = r * self.t
            return Sym(r)
        raise TypeError("only small integer powers")

    # comparisons
    def __lt__(self, o): return SymBool(self.t < _t(o))
    def __le__(self, o): return SymBool(self.t <= _t(o))
    def __gt__(self, o): return SymBool(self.t > _t(o))
    def __ge__(self, o): return SymBool(self.t >= _t(o))
    def __eq__(self, o): return SymBool(self.t == _t(o))
    def __ne__(self, o): return SymBool(self.t != _t(o))
    __hash__ = None

    def __bool__(self):
        return _Driver.current.decide(self.t != 0)

    # numpy ufuncs on object arrays look these up on the element
    def log(self):
        _Driver.current.log_args.append(self.t)
        return Sym(LOG(self.t))

    def sqrt(self):
        raise TypeError("sqrt of a symbolic value is not modelled")

    def __float__(self):
        raise TypeError("a symbolic value was forced into a float (a C routine outside the model)")

    def __repr__(self):
        return f"Sym({self.t})"


class Path:
    def __init__(self, pc, outcome, value, divisors, log_args):
        self.pc, self.outcome, self.value, self.divisors, self.log_args = pc, outcome, value, divisors, log_args


def explore(fn, pre, max_paths=64):
    """run ``fn()`` once per feasible decision vector; -> [Path]"""
    out = []
    stack = [[]]
    while stack:
        dec = stack.pop()
        d = _Driver(pre)
        d.decisions = list(dec)
        d.divisors, d.log_args = [], []
        _Driver.current = d
        try:
            try:
                val = fn()
                out.append(Path(list(d.pc), "return", val, d.divisors, d.log_args))
            except _Infeasible:
                pass
            except Exception as e:  # the real code raised on this path
                out.append(Path(list(d.pc), "raise", f"{type(e).__name__}: {e}", d.divisors, d.log_args))
        finally:
            _Driver.current = None
        # schedule the sibling of the last decision taken as True beyond the given prefix
        taken = d.decisions[:d.pos]
        for i in range(len(taken) - 1, len(dec) - 1, -1):
            if taken[i] is True:
                stack.append(taken[:i] + [False])
        if len(out) > max_paths:
            raise RuntimeError("too many paths")
    return out


def term(v):
    """z3 term of a returned value (Sym, number, numpy scalar)"""
    return _t(v)
