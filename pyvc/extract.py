"""Mechanical extraction of function ASTs from /repo's *working tree* (never from HEAD, never cached).

What extraction drops (also echoed in every evidence file): docstrings, type annotations, decorators
(a decorated function is verified as its undecorated body), text of exception messages.
"""
from __future__ import annotations

import ast
import hashlib
import os

REPO = os.environ.get("VERIF_REPO", "/repo")
SRC = os.path.join(REPO, "src")

_cache = {}
_origin = {}          # id(FunctionDef) -> (relpath, qualname) of every node handed out
AUTO_RESOLVED = []    # (relpath, qualname) of helpers that were not named by a contract but resolved from the source


def module_ast(relpath):
    path = os.path.join(SRC, relpath)
    st = os.stat(path)
    key = (path, st.st_mtime_ns, st.st_size)
    if key not in _cache:
        with open(path) as f:
            text = f.read()
        _cache[key] = (text, ast.parse(text))
    return _cache[key]


def _find(body, parts):
    for node in body:
        if isinstance(node, (ast.FunctionDef, ast.ClassDef, ast.AsyncFunctionDef)) and node.name == parts[0]:
            if len(parts) == 1:
                yield node
            elif isinstance(node, ast.ClassDef):
                yield from _find(node.body, parts[1:])
            elif isinstance(node, ast.FunctionDef):
                yield from _find(node.body, parts[1:])


def is_setter(node):
    return any(isinstance(d, ast.Attribute) and d.attr in ("setter", "deleter") for d in node.decorator_list)


def is_property(node):
    return any(isinstance(d, ast.Name) and d.id == "property" for d in node.decorator_list)


def get(relpath, qualname, index=0):
    """FunctionDef/ClassDef node for ``qualname`` ("Class.method" or "func"); setters are skipped"""
    text, mod = module_ast(relpath)
    found = [n for n in _find(mod.body, qualname.split(".")) if not (isinstance(n, ast.FunctionDef) and is_setter(n))]
    if not found:
        raise KeyError(f"{qualname} not found in {relpath}")
    _origin[id(found[index])] = (relpath, qualname)
    return found[index]


_NOCONST = object()


def module_constant(nodes, name):
    """value of a module-level ``NAME = <literal>`` next to the functions under contract, or _NOCONST"""
    seen = set()
    for n in nodes:
        o = _origin.get(id(n))
        if o is None or o[0] in seen:
            continue
        seen.add(o[0])
        _, mod = module_ast(o[0])
        for st in mod.body:
            targets = st.targets if isinstance(st, ast.Assign) else [st.target] if isinstance(st, ast.AnnAssign) and st.value else []
            if any(isinstance(t, ast.Name) and t.id == name for t in targets):
                try:
                    return ast.literal_eval(st.value)
                except Exception:
                    pass
                ok = (ast.Constant, ast.BinOp, ast.UnaryOp, ast.Tuple, ast.List, ast.operator, ast.unaryop, ast.Load, ast.expr_context)
                if all(isinstance(x, ok) for x in ast.walk(st.value)):       # e.g. " " * 10: constants and operators only
                    try:
                        return eval(compile(ast.Expression(st.value), "<const>", "eval"), {"__builtins__": {}}, {})
                    except Exception:
                        return _NOCONST
                return _NOCONST
    return _NOCONST


def sibling(nodes, name, method=False):
    """A function the contract did not name (e.g. a helper a refactor extracted): look ``name`` up next to the
    functions already under contract -- as a method of their classes when ``method``, else as a top-level
    function of their modules.  -> FunctionDef | None"""
    seen = set()
    for n in nodes:
        o = _origin.get(id(n))
        if o is None or o in seen:
            continue
        seen.add(o)
        relpath, qual = o
        parts = qual.split(".")
        cands = []
        if method and len(parts) > 1:
            cands.append(".".join(parts[:-1] + [name]))
        if not method:
            cands.append(name)
        for q in cands:
            try:
                found = get(relpath, q)
            except KeyError:
                continue
            if isinstance(found, ast.FunctionDef):
                AUTO_RESOLVED.append((relpath, q))
                return found
    return None


def get_all(relpath, qualname):
    text, mod = module_ast(relpath)
    return list(_find(mod.body, qualname.split(".")))


def source(relpath, qualname, index=0):
    text, _ = module_ast(relpath)
    node = get(relpath, qualname, index)
    return ast.get_source_segment(text, node)


def sha(relpath, qualname, index=0):
    return hashlib.sha256(source(relpath, qualname, index).encode()).hexdigest()[:16]


def describe(relpath, qualname, tier, index=0):
    node = get(relpath, qualname, index)
    return {"file": "src/" + relpath, "qualname": qualname, "line": node.lineno, "sha256": sha(relpath, qualname, index),
            "tier": tier}


def class_functions(relpath, clsname, include_bases=()):
    """name -> FunctionDef for the methods of a class (setters skipped); later bases do not override"""
    out = {}
    props = set()
    for cn in (clsname, *include_bases):
        cls = get(relpath, cn)
        for x in cls.body:
            if isinstance(x, ast.FunctionDef) and not is_setter(x) and x.name not in out:
                out[x.name] = x
                _origin[id(x)] = (relpath, f"{cn}.{x.name}")
                if is_property(x):
                    props.add(x.name)
    return out, props


def module_functions(relpath, names):
    return {n: get(relpath, n) for n in names}


def get_dispatch(relpath, generic, argtype):
    """the implementation registered with ``@<generic>.register`` whose first parameter is annotated ``argtype``
    (a singledispatch / singledispatchmethod variant, conventionally named ``_``)"""
    text, mod = module_ast(relpath)
    for node in ast.walk(mod):
        if isinstance(node, ast.FunctionDef):
            for d in node.decorator_list:
                if isinstance(d, ast.Attribute) and d.attr == "register" and \
                        (isinstance(d.value, ast.Name) and d.value.id == generic or
                         isinstance(d.value, ast.Attribute) and d.value.attr == generic):
                    args = [a for a in node.args.args if a.arg not in ("self", "cls")]
                    if args and args[0].annotation is not None and ast.unparse(args[0].annotation) == argtype:
                        return node
    raise KeyError(f"{generic}.register({argtype}) not found in {relpath}")


def describe_node(relpath, node, label, tier):
    text, _ = module_ast(relpath)
    src = ast.get_source_segment(text, node)
    return {"file": "src/" + relpath, "qualname": label, "line": node.lineno,
            "sha256": hashlib.sha256(src.encode()).hexdigest()[:16], "tier": tier}
