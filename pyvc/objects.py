"""Generic hooks for executing the methods of one (extracted) class on a symbolic record."""
from __future__ import annotations

import ast

import z3

from .symex import Hooks, Opaque, Raise, Rec, SliceV, Unsupported, is_sym


class ClassHooks(Hooks):
    """``funcs``: name -> FunctionDef (methods and module-level helpers); ``props``: names of properties;
    ``modular``: name -> callable(eng, self_or_None, args, kw) implementing a *contract* (assert requires,
    return a value constrained by ensures);  ``aliases``: attribute -> field name."""

    def __init__(self, funcs, props, modular=None, aliases=None, memo_methods=("__len__",), globals_=None):
        self.funcs = funcs
        self.props = set(props)
        self.modular = modular or {}
        self.aliases = aliases or {}
        self.memo_methods = set(memo_methods)
        self.globals = globals_ or {}

    # ---- attributes
    def get_attr(self, eng, obj, attr):
        if isinstance(obj, Rec):
            attr = self.aliases.get(attr, attr)
            if attr in obj.fields:
                return obj.fields[attr]
            if attr == "__class__":
                return ("ctor", obj)
            if attr in self.modular and attr in self.props:
                return self.modular[attr](eng, obj, [], {})
            if attr in self.props and attr in self.funcs:
                return eng.call(attr, {"self": obj})
            if attr in self.funcs:
                return ("bound", obj, attr)
            if self._resolve(eng, attr, True):
                return self.get_attr(eng, obj, attr)
            raise Unsupported(f"attribute {attr} of {obj.cls}")
        if isinstance(obj, Opaque):
            if attr in obj.attrs:
                return obj.attrs[attr]
            if obj.tag == "module":
                return ("func", attr)
            if attr == "__name__":
                return "name"
        if isinstance(obj, tuple) and obj and obj[0] == "ctor" and attr == "__name__":
            return "cls"
        if isinstance(obj, (int, float, bool)) or obj is None or (is_sym(obj) and not z3.is_string(obj)):
            raise Raise("AttributeError")   # numbers have no data attributes
        raise Unsupported(f"attribute {attr} of {obj!r}")

    # ---- calls
    def call_method(self, eng, obj, meth, args, kw, env):
        if isinstance(obj, Rec):
            if meth in self.modular:
                return self.modular[meth](eng, obj, args, kw)
            if meth in self.funcs:
                a = eng.call_positional(meth, args, kw, self_obj=obj)
                if meth in self.memo_methods and not args and not kw:
                    key = (meth, id(obj), tuple(_fkey(v) for v in obj.fields.values()))
                    return eng.call(meth, a, memo_key=key)
                return eng.call(meth, a)
            if meth == "__class__":
                return self.construct(eng, obj, args, kw)
            if self._resolve(eng, meth, True):
                return self.call_method(eng, obj, meth, args, kw, env)
            raise Unsupported(f"method {meth} of {obj.cls}")
        if isinstance(obj, Opaque):
            if meth == "__len__" and "length" in obj.attrs:
                return obj.attrs["length"]
            if obj.tag == "module":
                return self.call_name(eng, meth, args, kw, env)
        raise Unsupported(f"method {meth} on {obj!r}")

    def call_name(self, eng, name, args, kw, env):
        if name in self.modular:
            return self.modular[name](eng, None, args, kw)
        if name in self.funcs:
            return eng.call(name, eng.call_positional(name, args, kw))
        if self._resolve(eng, name, False):
            return eng.call(name, eng.call_positional(name, args, kw))
        raise Unsupported(f"call {name}")

    def _resolve(self, eng, name, method):
        """a helper the contract does not name (extracted by a refactor): take its *real* body from the source,
        next to the functions under contract; it is then executed inline like any other callee without contract"""
        from . import extract
        if name.startswith("__") and name.endswith("__"):
            return False
        node = extract.sibling(list(self.funcs.values()), name, method)
        if node is None:
            return False
        self.funcs[name] = node
        eng.funcs[name] = node
        if extract.is_property(node):
            self.props.add(name)
        return True

    def call_value(self, eng, fn, args, kw, env):
        if isinstance(fn, tuple) and fn:
            if fn[0] == "ctor":
                return self.construct(eng, fn[1], args, kw)
            if fn[0] == "func":
                return self.call_name(eng, fn[1], args, kw, env)
            if fn[0] == "bound":
                return self.call_method(eng, fn[1], fn[2], args, kw, env)
        raise Unsupported(f"call of {fn!r}")

    def construct(self, eng, proto, args, kw):
        """``proto.__class__(**kw)``: run the real ``__init__`` on a fresh record"""
        if args:
            raise Unsupported("positional constructor args")
        new = Rec(proto.cls)
        if "__init__" in self.modular:
            self.modular["__init__"](eng, new, [], kw)
        else:
            eng.call("__init__", eng.call_positional("__init__", [], kw, self_obj=new))
        return new

    def global_name(self, eng, name):
        if name in self.globals:
            return self.globals[name]
        if name in self.funcs or name in self.modular:
            return ("func", name)
        if self._resolve(eng, name, False):
            return ("func", name)
        from . import extract
        v = extract.module_constant(list(self.funcs.values()), name)
        if v is not extract._NOCONST:
            return v                              # a module-level literal constant, read from the real source
        raise Unsupported(f"global {name}")

    def truth(self, eng, v):
        if isinstance(v, Rec):
            if "__bool__" in self.funcs:
                return eng.truth(self.call_method(eng, v, "__bool__", [], {}, None))
            if "__len__" in self.funcs or "__len__" in self.modular:
                n = self.call_method(eng, v, "__len__", [], {}, None)
                return eng.truth(n != 0 if is_sym(n) else n != 0)
            return True
        if isinstance(v, Opaque):
            if "length" in v.attrs:
                n = v.attrs["length"]
                return eng.truth(n != 0)
            return True
        if isinstance(v, SliceV):
            return True
        raise Unsupported(f"truth of {v!r}")


def _fkey(v):
    if is_sym(v):
        return ("z", v.get_id())
    if isinstance(v, (Rec, Opaque)):
        return ("o", id(v))
    try:
        hash(v)
        return v
    except TypeError:
        return ("u", id(v))
