"""pyvc.harness -- obligations, bounded contracts, verdicts, known findings, evidence, replay files.

Exit codes of ``./check``: 0 held / 1 violation / 2 undecided / 3 checker error (DESIGN.md 3.5).
"""
from __future__ import annotations

import hashlib
import importlib
import json
import multiprocessing as mp
import os
import re
import sys
import time
import traceback
from concurrent.futures import ThreadPoolExecutor

ROOT = os.path.dirname(os.path.dirname(os.path.abspath(__file__)))
EVID = os.path.join(ROOT, "evidence")
REPLAYS = os.path.join(ROOT, "replays")
KNOWN = os.path.join(ROOT, "known_findings.json")

EXTRACTION_DROPS = (
    "extraction drops docstrings, type annotations, decorators (a decorated function is verified as its "
    "undecorated body) and the text of exception messages / warnings"
)


class Obligation:
    """one proof obligation generated from the current source"""

    def __init__(self, name, kind, function=None):
        self.name = name          # stable name  C01/core.sequence.SliceRecordABC.__getitem__/post/cfg=.../path=7
        self.kind = kind          # post | pre@callsite | inv.establish | inv.preserve | noexcept | frame | cover | lemma | finite
        self.function = function
        self.status = "pending"   # discharged | failed | undecided | error
        self.backend = ""         # z3-new 5.1.0 | z3 4.8.12 | cvc5 1.0.3 | finite-enumeration | lean4 | syntactic
        self.seconds = 0.0
        self.detail = ""
        self.model = None
        self.thunk = None         # callable -> (status, backend, seconds, model, detail)
        self.replayer = None      # callable(model) -> dict(failed=bool, description=str, witness=...)
        self.key = None           # key used for known-finding matching (defaults to name)

    def to_json(self):
        return {"name": self.name, "kind": self.kind, "status": self.status, "backend": self.backend,
                "seconds": round(self.seconds, 3), "detail": self.detail[:400]}


class Failure:
    def __init__(self, source, key, message, witness=None, replay=None, natively_confirmed=True, extra=None):
        self.source = source      # obligation name or bounded contract name
        self.key = key            # matched against known findings
        self.message = message
        self.witness = witness
        self.replay = replay      # dict: how to re-run (module, contract, case)
        self.natively_confirmed = natively_confirmed
        self.extra = extra or {}


def _slug(s):
    return re.sub(r"[^A-Za-z0-9_.=-]+", "_", s)[:120] + "_" + hashlib.sha1(s.encode()).hexdigest()[:8]


def _bounded_worker(job):
    modname, cname, shard, nshards, tier, seed, limit_s = job
    try:
        mod = importlib.import_module(modname)
        bc = mod.BOUNDED[cname]
        t0 = time.time()
        evaluations = 0
        nontrivial = set()
        fails = {}
        samples = []
        skipped = 0
        truncated = False
        for i, case in enumerate(bc["gen"](tier, seed)):
            if i % nshards != shard:
                continue
            if limit_s and time.time() - t0 > limit_s:
                truncated = True
                break
            try:
                res = bc["contract"](case)
            except Exception as e:  # a contract that crashes is a checker error, reported as such
                tb = traceback.format_exc(limit=6)
                res = ("error", f"{type(e).__name__}: {e}", tb)
            if res is None or res[0] == "skip":
                skipped += 1
                continue
            evaluations += 1
            if res[0] == "ok":
                if len(res) < 2 or res[1]:
                    nontrivial.add(hashlib.blake2b(repr(case).encode(), digest_size=8).hexdigest())
                if len(samples) < 2:
                    samples.append(case)
            elif res[0] == "fail":
                nontrivial.add(hashlib.blake2b(repr(case).encode(), digest_size=8).hexdigest())
                key = res[1]
                if key not in fails:
                    fails[key] = {"key": key, "message": res[2], "case": case, "count": 0}
                fails[key]["count"] += 1
            elif res[0] == "error":
                key = "CHECKER-ERROR " + res[1][:80]
                if key not in fails:
                    fails[key] = {"key": key, "message": res[1] + "\n" + res[2], "case": case, "count": 0, "error": True}
                fails[key]["count"] += 1
        return {"evaluations": evaluations, "nontrivial": list(nontrivial), "fails": list(fails.values()),
                "samples": samples, "skipped": skipped, "truncated": truncated, "secs": time.time() - t0}
    except Exception as e:
        return {"crash": f"{type(e).__name__}: {e}\n{traceback.format_exc(limit=8)}"}


def _proof_worker(job):
    prop, tier, seed, modname, funcname, args = job
    try:
        mod = importlib.import_module(modname)
        sub = Check(prop, tier, seed)
        getattr(mod, funcname)(sub, *args)
        sub.discharge(workers=1)
        return {"obligations": [dict(o.to_json(), function=o.function) for o in sub.obligations],
                "failures": [dict(source=f.source, key=f.key, message=f.message, witness=_jsonable(f.witness),
                                  replay=_jsonable(f.replay), natively_confirmed=f.natively_confirmed,
                                  extra=_jsonable(f.extra)) for f in sub.failures],
                "undecided": sub.undecided, "errors": sub.errors, "notes": sub.notes,
                "cross_checks": sub.cross_checks, "functions": sub.functions}
    except Exception as e:
        return {"crash": f"{type(e).__name__}: {e}\n{traceback.format_exc(limit=8)}"}


class Check:
    def __init__(self, prop, tier="quick", seed=0):
        self.prop = prop
        self.tier = tier
        self.seed = seed
        self.t0 = time.time()
        self.obligations = []
        self.functions = []
        self.assumptions = [EXTRACTION_DROPS]
        self.trusted = ["CPython 3.12 + ast", "pyvc (VC generator; cross-checked against CPython on path models)",
                        "z3 / cvc5 solver kernels", "spec functions in /verif/speclib"]
        self.bounded_results = []
        self.failures = []
        self.errors = []
        self.undecided = []
        self.notes = []
        self.level = "other"
        self.explanation = ""
        self.cross_checks = 0
        self.mutants = []

    # ------------------------------------------------------------------ registration
    def function(self, relpath, qualname, tier, index=0):
        from . import extract
        d = extract.describe(relpath, qualname, tier, index)
        self.functions.append(d)
        return d

    def assume(self, text):
        if text not in self.assumptions:
            self.assumptions.append(text)

    def trust(self, text):
        if text not in self.trusted:
            self.trusted.append(text)

    def obligation(self, name, kind, thunk, function=None, replayer=None, key=None, device=False):
        o = Obligation(f"{self.prop}/{name}", kind, function)
        o.thunk = thunk
        o.replayer = replayer
        o.key = key or o.name
        # device=True: a clause that is a proof device and demands MORE than the property states (e.g. "nothing is
        # re-evaluated without need"): when it stops holding and the native replay of the property itself finds no
        # failing input, the property is UNDECIDED by proof -- not violated
        o.device = device
        self.obligations.append(o)
        return o

    def discharged_inline(self, name, kind, function=None, backend="z3 5.1.0 API in-process (path-condition relaxation)"):
        """a side obligation that the engine discharged while executing the path (dropping hypotheses is sound)"""
        o = Obligation(f"{self.prop}/{name}", kind, function)
        o.status, o.backend, o.detail = "discharged", backend, "implied by the (relaxed) path condition"
        self.obligations.append(o)
        return o

    def error(self, msg):
        self.errors.append(msg)

    # ------------------------------------------------------------------ discharge
    def discharge(self, workers=16):
        pend = [o for o in self.obligations if o.status == "pending"]

        def run(o):
            t0 = time.time()
            try:
                status, backend, secs, model, detail = o.thunk()
            except Exception as e:
                status, backend, secs, model, detail = "error", "", time.time() - t0, None, \
                    f"{type(e).__name__}: {e}\n{traceback.format_exc(limit=6)}"
            if status == "refuted" and o.kind in ("post", "frame") and getattr(o.thunk, "goal_is_false", False):
                # the contract wrote ``False`` because it could not read the result in the shape it expects (a value
                # built another way after a refactor): that is a misfit of the contract, not a counterexample
                status, detail = "unknown", "postcondition could not be stated for this result shape (goal is literally " \
                                            "false: contract misfit) :: " + (detail or "")
            o.status = {"proved": "discharged", "refuted": "failed", "unknown": "undecided"}.get(status, status)
            o.backend, o.seconds, o.model, o.detail = backend, secs, model, detail or ""
            return o

        if pend and workers <= 1:
            for o in pend:
                run(o)
        elif pend:
            with ThreadPoolExecutor(max_workers=workers) as ex:
                list(ex.map(run, pend))
        for o in pend:
            if o.status == "failed":
                self._handle_failed(o)
            elif o.status == "undecided":
                # no solver verdict: a bounded native search of the same contract may still find a failing input
                rep = None
                if o.replayer is not None:
                    try:
                        rep = o.replayer(o.model or {})
                    except Exception as e:
                        rep = {"failed": False, "description": f"replayer crashed: {type(e).__name__}: {e}"}
                if rep and rep.get("failed"):
                    o.status = "failed"
                    o.detail = "no solver verdict (" + o.detail[:200] + "); native search of the same contract fails"
                    self._handle_failed(o)
                else:
                    self.undecided.append(o.name + " :: " + o.detail[:200])
            elif o.status == "error":
                self.errors.append(f"{o.name}: {o.detail[:600]}")

    def _handle_failed(self, o):
        rep = None
        if o.replayer is not None:
            try:
                rep = o.replayer(o.model)
            except Exception as e:
                rep = {"failed": False, "description": f"replayer crashed: {type(e).__name__}: {e}"}
        if rep is None:
            rep = {"failed": False, "description": "no replayer for this obligation"}
        if (getattr(o, "device", False) or str(o.kind).startswith("inv")) and not rep.get("failed"):
            # a loop invariant (or another clause marked device) is a means of proof, not the property: when it no longer
            # holds for the current code and the native replay of the property finds no failing input, the proof is
            # lost -- UNDECIDED -- but nothing says the property is violated (e.g. a loop rewritten in another shape)
            o.status = "undecided"
            self.undecided.append(f"{o.name} :: proof-device clause (invariant / stronger than the property) refuted by "
                                  f"{o.backend}; native replay of the property: {rep.get('description', '')[:160]}")
            return
        self.failures.append(Failure(
            source=o.name, key=rep.get("key") or o.key,
            message=f"obligation {o.name} refuted by {o.backend}: {o.detail[:300]} :: {rep.get('description', '')}",
            witness=rep.get("witness"), natively_confirmed=bool(rep.get("failed")),
            replay=rep.get("replay"),
            extra={"obligation": o.name, "kind": o.kind, "function": o.function, "backend": o.backend,
                   "model": _jsonable(o.model), "solver_output": o.detail[:2000], "native": rep}))

    # ------------------------------------------------------------------ proof jobs in worker processes
    def guard(self, step, *args, **kw):
        """run one obligation-generating step of a contract.  If the sidecar contract cannot be applied to the
        current shape of the code (an unsupported construct, or the contract reaches for a closure cell / attribute /
        path shape that a refactor removed) the step is UNDECIDED -- never a violation, never a crash of the whole
        check: the remaining steps and the bounded tier still run."""
        from .symex import Unsupported
        label = getattr(step, "__name__", str(step))
        fallback = kw.pop("fallback", ())
        n_und = len(self.undecided)
        try:
            r = step(self, *args, **kw)
            if len(self.undecided) == n_und:
                return r
        except Unsupported as u:
            self.undecided.append(f"{self.prop}/{label}: UNSUPPORTED {u}")
        except Exception as e:
            tb = traceback.format_exc(limit=4).strip().splitlines()
            self.undecided.append(f"{self.prop}/{label}: CONTRACT-MISFIT the sidecar contract does not fit the current code "
                                  f"shape ({type(e).__name__}: {e}) @ {tb[-2].strip() if len(tb) > 1 else ''}")
        # no proof verdict for (part of) this step: the native replayers of its contract still run as a bounded search,
        # so a change that both leaves the engine's subset and breaks the contract is reported, not just "undecided"
        for rp in fallback:
            try:
                rep = rp({})
            except Exception as e:
                rep = {"failed": False, "description": f"replayer crashed: {type(e).__name__}: {e}"}
            if rep and rep.get("failed"):
                self.failures.append(Failure(
                    source=f"{self.prop}/{label}/native-search", key=rep.get("key") or f"{self.prop}/{label}/native-search",
                    message=f"no proof verdict for {label} (see UNDECIDED); the native bounded search of the same contract "
                            f"fails :: {rep.get('description', '')}",
                    witness=rep.get("witness"), natively_confirmed=True, replay=rep.get("replay"),
                    extra={"obligation": f"{label}/native-search", "native": rep}))

    def parallel(self, modname, funcname, arglist, workers=16):
        """run ``modname.funcname(sub_check, *args)`` for every args in worker processes; each worker
        generates its obligations from the current source, discharges them and replays counterexamples;
        the results are merged here.  (Path enumeration is the expensive, single-threaded part.)"""
        jobs = [(self.prop, self.tier, self.seed, modname, funcname, a) for a in arglist]
        if not jobs:
            return
        ctx = mp.get_context("fork")
        with ctx.Pool(min(workers, len(jobs))) as pool:
            results = pool.map(_proof_worker, jobs, chunksize=1)
        for job, res in zip(jobs, results):
            if "crash" in res:
                first = res["crash"].splitlines()[0]
                self.undecided.append(f"{self.prop}/{funcname}{job[5]!r}: CONTRACT-MISFIT the sidecar contract does not fit "
                                      f"the current code shape ({first})")
                continue
            for od in res["obligations"]:
                o = Obligation(od["name"], od["kind"], od.get("function"))
                o.status, o.backend, o.seconds, o.detail = od["status"], od["backend"], od["seconds"], od["detail"]
                self.obligations.append(o)
            for fd in res["failures"]:
                self.failures.append(Failure(**fd))
            self.undecided.extend(res["undecided"])
            self.errors.extend(res["errors"])
            self.notes.extend(n for n in res["notes"] if n not in self.notes)
            self.cross_checks += res["cross_checks"]
            for fn_ in res["functions"]:
                if fn_ not in self.functions:
                    self.functions.append(fn_)

    # ------------------------------------------------------------------ finite-domain obligations
    def finite(self, name, cases, pred, function=None, key_fn=None, describe=None):
        """loop-free full-domain harness: evaluates the *real* function on the whole finite domain"""
        def thunk():
            t0 = time.time()
            n = 0
            for c in cases() if callable(cases) else cases:
                n += 1
                r = pred(c)
                if r is not True and r is not None:
                    return "refuted", "finite-enumeration", time.time() - t0, {"case": _jsonable(c)}, \
                        f"case {c!r}: {r}"
            if n == 0:
                return "error", "finite-enumeration", time.time() - t0, None, "empty domain (vacuous)"
            return "proved", "finite-enumeration", time.time() - t0, None, f"{n} cases, whole domain"

        def replayer(model):
            c = model["case"]
            return {"failed": True, "description": f"finite-domain case {c!r} fails on the real code", "witness": c,
                    "key": (key_fn(c) if key_fn else None)}
        return self.obligation(name, "finite", thunk, function, replayer)

    # ------------------------------------------------------------------ bounded contracts
    def bounded(self, modname, names=None, nshards=16, limit_s=None):
        mod = importlib.import_module(modname)
        names = names or list(mod.BOUNDED)
        jobs = []
        for cname in names:
            bc = mod.BOUNDED[cname]
            ns = bc.get("shards", nshards)
            for sh in range(ns):
                jobs.append((modname, cname, sh, ns, self.tier, self.seed, limit_s))
        ctx = mp.get_context("fork")
        with ctx.Pool(min(16, max(1, len(jobs)))) as pool:
            results = pool.map(_bounded_worker, jobs, chunksize=1)
        by = {}
        for job, res in zip(jobs, results):
            by.setdefault(job[1], []).append(res)
        for cname in names:
            bc = mod.BOUNDED[cname]
            rs = by[cname]
            crashes = [r["crash"] for r in rs if "crash" in r]
            if crashes:
                self.errors.append(f"bounded contract {cname} crashed: {crashes[0]}")
                continue
            evaluations = sum(r["evaluations"] for r in rs)
            nontrivial = set()
            for r in rs:
                nontrivial.update(r["nontrivial"])
            samples = [s for r in rs for s in r["samples"]][:3]
            fails = {}
            for r in rs:
                for f in r["fails"]:
                    if f["key"] not in fails:
                        fails[f["key"]] = dict(f)
                    else:
                        fails[f["key"]]["count"] += f["count"]
            entry = {"contract": f"{self.prop}.{cname}", "functions": bc.get("functions", []), "bound": bc["bound"],
                     "rule": bc["rule"], "evaluations": evaluations, "distinct_nontrivial": len(nontrivial),
                     "samples": _jsonable(samples), "failures": len(fails), "skipped_pre_false": sum(r["skipped"] for r in rs),
                     "truncated_by_time_limit": any(r["truncated"] for r in rs),
                     "secs": round(max(r["secs"] for r in rs), 2), "counts_as": "bounded (never proved)"}
            self.bounded_results.append(entry)
            if evaluations == 0:
                self.errors.append(f"bounded contract {cname}: zero evaluations (vacuous)")
            for f in fails.values():
                if f.get("error"):
                    self.errors.append(f"bounded contract {cname}: {f['message'][:800]} on case {f['case']!r}")
                    continue
                self.failures.append(Failure(
                    source=f"{self.prop}.{cname}", key=f["key"], message=f["message"], witness=f["case"],
                    replay={"module": modname, "contract": cname, "case": _jsonable(f["case"])},
                    extra={"count": f["count"], "bound": bc["bound"]}))

    # ------------------------------------------------------------------ verdict
    def finish(self, level=None, explanation=None):
        if level:
            self.level = level
        if explanation:
            self.explanation = explanation
        known = []
        if os.path.exists(KNOWN):
            with open(KNOWN) as f:
                known = [k for k in json.load(f).get("findings", []) if k.get("property") == self.prop
                         and k.get("status", "finding") == "finding"]
        printed = set()
        violations = []
        known_hits = []
        for fl in self.failures:
            hit = None
            for k in known:
                if re.search(k["match"], fl.key):
                    hit = k
                    break
            if hit is not None:
                known_hits.append((hit, fl))
                if hit["id"] not in printed:
                    printed.add(hit["id"])
                    print(f"KNOWN-FINDING: property={self.prop} {hit['what']} [{hit['id']}; e.g. {fl.key}]")
                continue
            violations.append(fl)
        lines = []
        os.makedirs(os.path.join(REPLAYS, self.prop), exist_ok=True)
        uniq = {}
        for fl in violations:  # one VIOLATION line per distinct key; natively confirmed witnesses first
            cur = uniq.get(fl.key)
            if cur is None or (fl.natively_confirmed and not cur.natively_confirmed):
                fl.extra["same_key_failures"] = (cur.extra.get("same_key_failures", 1) + 1) if cur else 1
                uniq[fl.key] = fl
            else:
                cur.extra["same_key_failures"] = cur.extra.get("same_key_failures", 1) + 1
        violations = list(uniq.values())
        for fl in violations:
            path = os.path.join("replays", self.prop, _slug(fl.key) + ".json")
            with open(os.path.join(ROOT, path), "w") as f:
                json.dump({"property": self.prop, "source": fl.source, "key": fl.key, "message": fl.message,
                           "witness": _jsonable(fl.witness), "replay": fl.replay,
                           "status": "replayed-on-real-code" if fl.natively_confirmed else "no-failing-input-found",
                           **fl.extra}, f, indent=1, default=str)
            tail = "" if fl.natively_confirmed else " no-failing-input-found"
            lines.append(f"VIOLATION property={self.prop} replay={path}{tail}")
        nob = len(self.obligations)
        ndis = sum(1 for o in self.obligations if o.status == "discharged")
        if nob == 0 and not self.bounded_results:
            self.errors.append("zero obligations and zero bounded contracts generated")
        self._write_evidence(len(violations), known_hits)
        for ln, fl in list(zip(lines, violations))[:40]:
            print(ln)
            print("   ", fl.message[:400].replace("\n", " "))
        if len(lines) > 40:
            print(f"... {len(lines) - 40} more violations (see replays/{self.prop}/)")
        for u in self.undecided[:20]:
            print(f"UNDECIDED property={self.prop} obligation={u}")
        for e in self.errors[:20]:
            print(f"CHECKER-ERROR property={self.prop} {e}")
        wall = time.time() - self.t0
        nb = len(self.bounded_results)
        ev = sum(b["evaluations"] for b in self.bounded_results)
        print(f"{self.prop} [{self.tier}] obligations={nob} discharged={ndis} bounded_contracts={nb} "
              f"bounded_evaluations={ev} known_findings={len(printed)} violations={len(violations)} "
              f"undecided={len(self.undecided)} errors={len(self.errors)} wall={wall:.1f}s")
        if violations:
            return 1
        if self.errors:
            return 3
        if self.undecided:
            # an undecided obligation (unsupported construct after a refactor, solver budget) is not a violation:
            # the property held on everything that was explored (the bounded tier of the same carriers still ran).
            # VERIF_STRICT=1 turns this into exit 2 (used while building, to notice lost proofs).
            print(f"OK-WITH-UNDECIDED property={self.prop} undecided={len(self.undecided)} (listed above and in evidence)")
            return 2 if os.environ.get("VERIF_STRICT") == "1" else 0
        print(f"OK property={self.prop}")
        return 0

    def _write_evidence(self, nviol, known_hits):
        os.makedirs(EVID, exist_ok=True)
        nob = len(self.obligations)
        ndis = sum(1 for o in self.obligations if o.status == "discharged")
        by_backend = {}
        by_kind = {}
        solver_s = 0.0
        for o in self.obligations:
            if o.status == "discharged":
                by_backend[o.backend] = by_backend.get(o.backend, 0) + 1
            by_kind[o.kind] = by_kind.get(o.kind, 0) + 1
            solver_s += o.seconds
        ev = sum(b["evaluations"] for b in self.bounded_results)
        dn = sum(b["distinct_nontrivial"] for b in self.bounded_results)
        samples = []
        for o in self.obligations[:3]:
            samples.append({"obligation": o.name, "kind": o.kind, "status": o.status, "backend": o.backend})
        for b in self.bounded_results[:4]:
            for s in b["samples"][:1]:
                samples.append({"bounded_contract": b["contract"], "case": s})
        cov = {
            "obligations": nob, "discharged": ndis,
            "obligations_by_kind": by_kind, "discharged_by_backend": by_backend, "solver_s": round(solver_s, 2),
            "functions_under_contract": self.functions,
            "bounded": self.bounded_results,
            "evaluations": ev + nob, "distinct_nontrivial": dn + ndis,
            "rule": "proof tier: one obligation per (function, contract clause, configuration, path) generated from the "
                    "current source, distinct by name; bounded tier: cases enumerated deterministically per contract, "
                    "a case is non-trivial when the contract's precondition holds and it exercises the operation "
                    "(per-contract rule in coverage.bounded[].rule); distinct by hash of the case",
            "samples": samples or [{"note": "no cases"}],
            "undecided": self.undecided[:50], "checker_errors": self.errors[:20],
            "known_findings_reported": sorted({h["id"] for h, _ in known_hits}),
            "known_finding_keys": {i: sorted({f.key for h, f in known_hits if h["id"] == i})[:60]
                                   for i in sorted({h["id"] for h, _ in known_hits})},
            "encoding_cross_checks_vs_cpython": self.cross_checks,
            "must_fail_mutants": self.mutants,
            "checker_cmd": f"./check {self.prop} --tier {self.tier}",
            "trusted_base": self.trusted,
            "explanation": self.explanation or "see DESIGN.md",
            "notes": self.notes,
            "obligation_list": [o.to_json() for o in self.obligations][:400],
        }
        doc = {"property_id": self.prop, "tier": self.tier, "seed": int(self.seed), "level": self.level,
               "coverage": cov, "assumptions": self.assumptions, "wall_s": round(time.time() - self.t0, 2),
               "violations": nviol}
        # a partial run (--only proof / --only bounded, used while building) or a run against a scratch copy of the
        # repository is not evidence for the property: it goes to .work/, never over the evidence file
        partial = bool(getattr(self, "only", None)) or os.environ.get("VERIF_REPO", "/repo") != "/repo"
        dest = os.path.join(ROOT, ".work", "partial_evidence") if partial else EVID
        os.makedirs(dest, exist_ok=True)
        with open(os.path.join(dest, f"{self.prop}.json"), "w") as f:
            json.dump(doc, f, indent=1, default=str)


def _jsonable(x):
    try:
        json.dumps(x)
        return x
    except Exception:
        pass
    if isinstance(x, dict):
        return {str(k): _jsonable(v) for k, v in x.items()}
    if isinstance(x, (list, tuple, set, frozenset)):
        return [_jsonable(v) for v in x]
    return repr(x)


def _instantiate(assertions, bound, extent_vars):
    """replace every top-level universally quantified assertion by its instances over 0..bound for each bound
    variable and cap the given extent variables: a quantifier-free query whose model (if any) is a candidate
    counterexample (DESIGN 3.4: quantified VCs that stop verifying come back unknown, not sat)"""
    import itertools

    import z3
    out = []
    for a in assertions:
        if z3.is_quantifier(a) and a.is_forall() and all(a.var_sort(i_) == z3.IntSort() for i_ in range(a.num_vars())):
            n = a.num_vars()
            for vals in itertools.product(range(bound + 1), repeat=n):
                # de Bruijn: variable 0 is the *last* bound variable
                out.append(z3.substitute_vars(a.body(), *[z3.IntVal(v) for v in reversed(vals)]))
        else:
            out.append(a)
    for v in extent_vars:
        out.append(v <= bound)
    return out


def smt_thunk(pc, goal, timeout=30, logic="auto", defs=(), strings=False, instantiate=None):
    """VC  (and pc defs) -> goal.  The SMT-LIB text is built *now* (z3's Python API is not thread-safe);
    the returned thunk only runs solver processes.  ``instantiate=(bound, extent_vars)``: when every solver
    answers unknown on a quantified VC, retry with the axioms instantiated over small extents to obtain a
    candidate counterexample."""
    import z3

    from . import smt
    assertions = list(pc) + list(defs) + [z3.Not(goal)]
    lg = smt.guess_logic(assertions) if logic == "auto" else logic
    text = smt.to_smt2(assertions, lg)
    text2 = None
    if instantiate is not None and any(z3.is_quantifier(a) for a in assertions):
        inst = _instantiate(assertions, instantiate[0], instantiate[1])
        text2 = smt.to_smt2(inst, None)

    def thunk():
        status, backend, secs, model, raw = smt.portfolio(text, timeout, strings=strings)
        if status not in ("sat", "unsat") and text2 is not None:
            st2, be2, secs2, model2, raw2 = smt.portfolio(text2, timeout, strings=strings)
            if st2 == "sat":
                return "refuted", be2, secs + secs2, model2, raw + " || finite instantiation of the axioms (extents <= %d): %s" % (instantiate[0], raw2)
            raw = raw + " || finite instantiation: " + raw2
        verdict = {"unsat": "proved", "sat": "refuted"}.get(status, "unknown")
        return verdict, backend, secs, model, raw
    try:
        thunk.goal_is_false = bool(z3.is_false(z3.simplify(goal)))
    except Exception:
        thunk.goal_is_false = False
    return thunk


def cover_thunk(pc, timeout=20, logic="auto", strings=False):
    """reachability: pc must be satisfiable, otherwise a precondition is vacuous"""
    from . import smt
    assertions = list(pc)
    lg = smt.guess_logic(assertions) if logic == "auto" else logic
    text = smt.to_smt2(assertions, lg)

    def thunk():
        status, backend, secs, model, raw = smt.portfolio(text, timeout, strings=strings)
        if status == "sat":
            return "proved", backend, secs, model, raw
        if status == "unsat":
            return "error", backend, secs, None, "cover unsatisfiable: vacuous precondition / dead configuration " + raw
        return "unknown", backend, secs, None, raw
    return thunk


def replay_file(path):
    with open(path) as f:
        doc = json.load(f)
    rp = doc.get("replay")
    print(json.dumps({k: doc[k] for k in ("property", "source", "key", "status") if k in doc}, indent=1))
    if not rp or "module" not in rp:
        print("no executable replay recorded (obligation-level failure); message:")
        print(doc.get("message"))
        return 1
    sys.path.insert(0, ROOT)
    mod = importlib.import_module(rp["module"])
    bc = mod.BOUNDED[rp["contract"]]
    case = rp["case"]
    if bc.get("decode"):
        case = bc["decode"](case)
    res = bc["contract"](case)
    print("replay result:", res)
    return 1 if res and res[0] == "fail" else 0
