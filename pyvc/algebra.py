"""Polynomial identity checking for verification conditions that are equalities of rational functions.

``t1 == t2`` for all reals (where the denominators do not vanish) is decided by bringing ``t1 - t2`` over a common
denominator and expanding the numerator: it is the zero polynomial iff the identity holds.  This is a decision procedure
for this class of VCs (no search, no timeout-dependent verdict); nonlinear real SMT needed minutes on the same goals.
Uninterpreted applications (LOG(term)) are kept as opaque function applications: two applications are equal when their
arguments are identical after the same normalisation.
"""
from __future__ import annotations

import z3


def to_sympy(t, cache=None):
    import sympy
    cache = {} if cache is None else cache
    key = t.get_id()
    if key in cache:
        return cache[key]
    if z3.is_rational_value(t):
        r = sympy.Rational(t.numerator_as_long(), t.denominator_as_long())
    elif z3.is_int_value(t):
        r = sympy.Integer(t.as_long())
    elif z3.is_const(t) and t.decl().kind() == z3.Z3_OP_UNINTERPRETED:
        r = sympy.Symbol(t.decl().name(), real=True)
    else:
        k = t.decl().kind()
        ch = [to_sympy(c, cache) for c in t.children()]
        if k == z3.Z3_OP_ADD:
            r = sympy.Add(*ch)
        elif k == z3.Z3_OP_SUB:
            r = ch[0] - sympy.Add(*ch[1:])
        elif k == z3.Z3_OP_MUL:
            r = sympy.Mul(*ch)
        elif k == z3.Z3_OP_DIV:
            r = ch[0] / ch[1]
        elif k == z3.Z3_OP_UMINUS:
            r = -ch[0]
        elif k == z3.Z3_OP_TO_REAL:
            r = ch[0]
        elif k == z3.Z3_OP_UNINTERPRETED:
            r = sympy.Function(t.decl().name())(*[sympy.cancel(c) for c in ch])
        else:
            raise ValueError(f"not a rational-function term: {t.decl().name()}")
    cache[key] = r
    return r


def identity_thunk(lhs, rhs, what="", budget=90):
    """obligation thunk: lhs == rhs as rational functions (z3 real terms).  The check runs *now*, in the calling thread
    (neither z3's Python API nor sympy's caches are thread-safe; obligations are discharged from a thread pool): the thunk
    only hands the stored verdict over."""
    import signal
    import time

    import sympy
    t0 = time.time()

    class _TimeUp(Exception):
        pass

    def _alarm(signum, frame):
        raise _TimeUp()
    old_handler = None
    try:
        # a non-identity can expand into a very large polynomial: bound the work (the verdict is then "unknown")
        try:
            old_handler = signal.signal(signal.SIGALRM, _alarm)
            signal.setitimer(signal.ITIMER_REAL, budget)
        except ValueError:
            old_handler = None                     # not in the main thread: no budget
        d = to_sympy(lhs) - to_sympy(rhs)
        # a cheap screen first: an identity must hold at a random rational point (uninterpreted applications replaced by
        # numbers, equal applications by equal numbers)
        import random
        rnd = random.Random(7)
        point = {x: sympy.Rational(rnd.randint(1, 97), rnd.randint(1, 13)) for x in sorted(d.free_symbols, key=str)}
        probe = d.subs(point)
        funcs = sorted(probe.atoms(sympy.Function), key=str)
        screen = probe.subs({f: sympy.Rational(rnd.randint(1, 50), 7) for f in funcs}) if funcs else probe
        if sympy.nsimplify(screen) != 0:
            zero = False
        else:
            num, _den = sympy.fraction(sympy.together(d))
            zero = sympy.expand(num) == 0
        if zero:
            res = ("proved", f"sympy {sympy.__version__} (numerator of lhs - rhs expands to the zero polynomial)", time.time() - t0, None, what)
        else:
            res = ("refuted", f"sympy {sympy.__version__}", time.time() - t0, {}, f"{what}: lhs - rhs is not identically zero")
    except _TimeUp:
        res = ("unknown", "sympy", time.time() - t0, None, f"{what}: no verdict within {budget} s")
    except Exception as e:
        res = ("unknown", "sympy", time.time() - t0, None, f"{type(e).__name__}: {e}")
    finally:
        if old_handler is not None:
            signal.setitimer(signal.ITIMER_REAL, 0)
            signal.signal(signal.SIGALRM, old_handler)

    def thunk():
        return res
    return thunk


def nonneg_thunk(t, what="", budget=60, samples=40):
    """obligation thunk: the rational function ``t`` is >= 0 wherever all its symbols are positive.

    Certificate (sufficient): over a common denominator, every coefficient of the numerator has one sign and every
    coefficient of the denominator has one sign (denominator not the zero polynomial) and the signs agree.  Without a
    certificate the term is sampled at positive rational points: a negative value refutes (with the point as the
    counterexample), otherwise the verdict is unknown."""
    import random
    import signal
    import time

    import sympy
    t0 = time.time()

    class _TimeUp(Exception):
        pass

    def _alarm(signum, frame):
        raise _TimeUp()
    old_handler = None
    try:
        try:
            old_handler = signal.signal(signal.SIGALRM, _alarm)
            signal.setitimer(signal.ITIMER_REAL, budget)
        except ValueError:
            old_handler = None
        e = to_sympy(t)
        # applications of uninterpreted functions (assumed positive by the caller) become fresh positive symbols: the
        # certificate then holds for every positive value they may take
        funcs = sorted(e.atoms(sympy.Function), key=str)
        if funcs:
            e = e.xreplace({f: sympy.Symbol(f"uf_{k}", positive=True) for k, f in enumerate(funcs)})
        syms = sorted(e.free_symbols, key=str)
        num, den = sympy.fraction(sympy.together(e))
        res = None
        if syms:
            pn, pd = sympy.Poly(sympy.expand(num), *syms), sympy.Poly(sympy.expand(den), *syms)
            cn, cd = pn.coeffs(), pd.coeffs()
        else:
            cn, cd = [sympy.nsimplify(num)], [sympy.nsimplify(den)]
        sn = {sympy.sign(c) for c in cn if c != 0}
        sd = {sympy.sign(c) for c in cd if c != 0}
        if len(sd) == 1 and len(sn) <= 1 and (not sn or sn == sd):
            res = ("proved", f"sympy {sympy.__version__} (sign certificate: {len(cn)} numerator and {len(cd)} denominator coefficients of one sign)",
                   time.time() - t0, None, what)
        else:
            rnd = random.Random(11)
            for _ in range(samples):
                point = {x: sympy.Rational(rnd.randint(1, 400), rnd.randint(1, 40)) for x in syms}
                try:
                    v = e.subs(point)
                except ZeroDivisionError:
                    continue
                if v.is_number and v.is_finite and v < 0:
                    res = ("refuted", f"sympy {sympy.__version__}", time.time() - t0, {str(k): str(val) for k, val in point.items()},
                           f"{what}: negative ({float(v):.6g}) at a positive point")
                    break
            if res is None:
                res = ("unknown", "sympy", time.time() - t0, None, f"{what}: no sign certificate, no negative sample")
    except _TimeUp:
        res = ("unknown", "sympy", time.time() - t0, None, f"{what}: no verdict within {budget} s")
    except Exception as e_:
        res = ("unknown", "sympy", time.time() - t0, None, f"{type(e_).__name__}: {e_}")
    finally:
        if old_handler is not None:
            signal.setitimer(signal.ITIMER_REAL, 0)
            signal.signal(signal.SIGALRM, old_handler)

    def thunk():
        return res
    return thunk
