"""Loop contracts (inductive invariants) and symbolic arrays for pyvc.

A ``for v in range(lo, hi)`` loop (or ``for a, v in enumerate(range(...))``) whose bound is symbolic needs an
invariant from the sidecar contract, keyed by *(function name, loop ordinal in source order)*.  The hook
generates the three classical VCs:

* ``inv.establish`` -- the invariant holds on entry (iteration index = lo);
* ``inv.preserve``  -- havoc everything the loop modifies, assume the invariant at an arbitrary index i with
  lo <= i < hi, execute the *real* body once, the invariant must hold at i+1 (the path then ends);
* use -- havoc, assume the invariant at hi (and i >= hi), continue after the loop.

Arrays are z3 arrays (nested for several dimensions) with symbolic extents.  Invariants are *pointwise*: they
talk about one generic cell whose indices are fixed symbolic constants of the whole VC (implicitly universally
quantified), so every VC stays quantifier-free.
"""
from __future__ import annotations

import ast

import z3

from .symex import Hooks, PathAbort, Raise, Unsupported, _Break, _Continue, fresh_int, is_sym


class ArrV:
    """n-dimensional symbolic array: ``term`` is a (nested) z3 array, ``shape`` a tuple of Int terms.
    ``fn`` (optional) is applied to every element that is read (e.g. an uninterpreted LOG)."""

    def __init__(self, term, shape, elem_sort=None, fn=None, name=None):
        self.term, self.shape, self.fn, self.name = term, tuple(shape), fn, name
        self.elem_sort = elem_sort

    @staticmethod
    def fresh(name, shape, elem=z3.RealSort()):
        srt = elem
        for _ in shape:
            srt = z3.ArraySort(z3.IntSort(), srt)
        return ArrV(z3.Const(name, srt), shape, elem, name=name)

    def havoc(self, tag):
        return ArrV(z3.FreshConst(self.term.sort(), f"{self.name or 'arr'}_{tag}"), self.shape, self.elem_sort, self.fn,
                    self.name)

    def read(self, eng, idx):
        idx = idx if isinstance(idx, tuple) else (idx,)
        if len(idx) > len(self.shape):
            raise Raise("IndexError")
        t = self.term
        for k, i in enumerate(idx):
            i = i if is_sym(i) else z3.IntVal(i)
            # in-bounds is a side obligation of every array access (numba does not check bounds)
            eng.require("noexcept:index-in-bounds", z3.And(0 <= i, i < self.shape[k]))
            t = z3.Select(t, i)
        if len(idx) == len(self.shape):
            return self.fn(t) if self.fn is not None else t
        return ArrV(t, self.shape[len(idx):], self.elem_sort, self.fn, self.name)

    def write(self, eng, idx, val):
        idx = idx if isinstance(idx, tuple) else (idx,)
        if len(idx) != len(self.shape):
            raise Unsupported("partial array assignment")
        idx = [i if is_sym(i) else z3.IntVal(i) for i in idx]
        for k, i in enumerate(idx):
            eng.require("noexcept:index-in-bounds", z3.And(0 <= i, i < self.shape[k]))
        if not is_sym(val):
            val = z3.RealVal(val) if self.elem_sort == z3.RealSort() else z3.IntVal(val)
        if self.elem_sort == z3.RealSort() and z3.is_int(val):
            val = z3.ToReal(val)
        self.term = self._store(self.term, idx, val)

    def _store(self, t, idx, val):
        if len(idx) == 1:
            return z3.Store(t, idx[0], val)
        return z3.Store(t, idx[0], self._store(z3.Select(t, idx[0]), idx[1:], val))

    def at(self, *idx):
        t = self.term
        for i in idx:
            t = z3.Select(t, i if is_sym(i) else z3.IntVal(i))
        return self.fn(t) if self.fn is not None else t


class SymSeq:
    """a Python list of symbolic length: ``arr`` maps positions to elements, ``length`` is an Int term"""

    def __init__(self, arr, length, name=None):
        self.arr, self.length, self.name = arr, length, name

    @staticmethod
    def fresh(name, elem_sort):
        return SymSeq(z3.FreshConst(z3.ArraySort(z3.IntSort(), elem_sort), name), z3.FreshConst(z3.IntSort(), name + "_len"), name)

    def at(self, i):
        return z3.Select(self.arr, i if is_sym(i) else z3.IntVal(i))


class SymMap:
    """a dict with symbolic content: ``arr`` maps keys to Int values, ``absent`` marks missing keys"""
    ABSENT = -1

    def __init__(self, arr, name=None):
        self.arr, self.name = arr, name

    def has(self, k):
        return z3.Select(self.arr, k) != SymMap.ABSENT

    def get(self, k):
        return z3.Select(self.arr, k)


def seq_len(x):
    return x.length if isinstance(x, SymSeq) else (x.shape[0] if isinstance(x, ArrV) else len(x))


def loop_nodes(fn_node):
    """For/While nodes of a function in source order (the loop ordinal used by contracts)"""
    return sorted((n for n in ast.walk(fn_node) if isinstance(n, (ast.For, ast.While))), key=lambda n: (n.lineno, n.col_offset))


class LoopHooks(Hooks):
    """mixin: ``self.loop_specs[(function name, ordinal)] = dict(invariant=callable(env, i) -> Bool,
    modifies=[names])``; ``self.current_function`` must name the FunctionDef under execution (set by the
    contract driver), ``self.fn_nodes[name]`` its AST."""

    loop_specs = {}
    fn_nodes = {}

    def loop(self, eng, node, env):
        fname = eng.state.get("current_function")
        ordinal = loop_nodes(self.fn_nodes[fname]).index(node)
        spec = self.loop_specs.get((fname, ordinal))
        if spec is None:
            raise Unsupported(f"loop #{ordinal} of {fname} has no invariant")
        if not isinstance(node, ast.For):
            raise Unsupported("while loop")
        it = eng.eval(node.iter, env)
        from .symex import SymRange
        enum = False
        if isinstance(it, tuple) and it and it[0] == "enumerate":
            enum, it = True, it[1]
        elems = None
        if isinstance(it, SymSeq):
            elems, it = it, SymRange(0, it.length, 1)       # iterate over positions, the target gets the element
        if not isinstance(it, SymRange):
            raise Unsupported("annotated loop must iterate over range(...) or a symbolic sequence")
        step = it.c
        if is_sym(step) and not z3.is_int_value(step):
            pass
        lo, hi = it.a, it.b
        inv = spec["invariant"]
        label = f"{fname}#loop{ordinal}"

        def bind(j):
            """loop targets for iteration number j (0-based): value = lo + j*step"""
            val = lo + j * step
            if elems is not None:
                val = elems.at(val)
            if enum:
                eng.assign(node.target, (j, val), env)
            else:
                eng.assign(node.target, val, env)

        from .dsl import Defs
        from speclib.slices import len_range
        Defs.push()
        count = len_range(lo, hi, step)
        defs, nz = Defs.pop()
        for c in nz:
            eng.require(f"{label}/range-step-nonzero", c)
        for c in defs:
            eng.assume(c)
        if "ghost_init" in spec:
            spec["ghost_init"](env)                 # ghost variables of the contract (never read by the code)
        # establish
        eng.require(f"inv.establish:{label}", inv(env, 0 if not is_sym(lo) else z3.IntVal(0)))
        # havoc
        for nme in spec["modifies"]:
            v = env[nme]
            if nme in spec.get("havoc", {}):
                env[nme] = spec["havoc"][nme](v)
            elif isinstance(v, ArrV):
                # arrays are mutated in place: havoc the *object* so that aliases (the caller's reference) see it
                v.term = z3.FreshConst(v.term.sort(), f"{v.name or 'arr'}_h{ordinal}")
            elif is_sym(v) or isinstance(v, (int, float)):
                srt = v.sort() if is_sym(v) else (z3.RealSort() if isinstance(v, float) else z3.IntSort())
                env[nme] = z3.FreshConst(srt, f"{nme}_h{ordinal}")
            else:
                raise Unsupported(f"cannot havoc {nme}")
        for key, fn_ in spec.get("havoc_state", {}).items():      # ghost / model state kept in eng.state
            eng.state[key] = fn_(eng.state.get(key))
        j = fresh_int(f"it{ordinal}_")
        if eng.branch(z3.Bool(f"preserve!{label}!{id(node) % 997}")):
            # preserve: arbitrary iteration j
            eng.assume(z3.And(0 <= j, j < count))
            eng.assume(inv(env, j))
            bind(j)
            try:
                eng.block(node.body, env)
            except _Continue:
                pass
            except _Break:
                raise Unsupported("break in annotated loop")
            if "ghost_update" in spec:
                spec["ghost_update"](env, j)        # the contract's witness for the ghost state after this iteration
            eng.require(f"inv.preserve:{label}", inv(env, j + 1))
            eng.state["preserve_env"] = dict(env)      # state after one generic iteration, for the contract to inspect
            eng.state["preserve_iter"] = j
            raise PathAbort()
        # use: after the loop
        eng.assume(inv(env, count))
        if spec.get("bind_last"):
            # the code reads the loop variable after the loop: it keeps the value of the last iteration, and is
            # unbound (UnboundLocalError) when there was none
            if eng.branch(count <= 0):
                raise Raise("UnboundLocalError")
            bind(count - 1)
        eng.block(node.orelse, env)
