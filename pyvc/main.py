from __future__ import annotations

import argparse
import importlib
import os
import sys
import traceback
import warnings


def main(argv=None):
    argv = list(sys.argv[1:] if argv is None else argv)
    if argv and argv[0] == "replay":
        from .harness import replay_file
        return replay_file(argv[1])
    ap = argparse.ArgumentParser()
    ap.add_argument("prop")
    ap.add_argument("--tier", default=os.environ.get("VERIF_TIER", "quick"), choices=["quick", "thorough"])
    ap.add_argument("--only", default=None, help="comma separated sub-parts (debugging)")
    a = ap.parse_args(argv)
    seed = int(os.environ.get("VERIF_SEED", "0") or 0)
    warnings.filterwarnings("ignore")
    from .harness import Check
    chk = Check(a.prop, a.tier, seed)
    chk.only = set(a.only.split(",")) if a.only else None
    try:
        mod = importlib.import_module(f"contracts.{a.prop}")
        mod.run(chk)
    except Exception as e:
        chk.error(f"check crashed: {type(e).__name__}: {e} :: {traceback.format_exc(limit=8)}")
    return chk.finish()


if __name__ == "__main__":
    sys.exit(main())
