"""Independent spec for C12 (translation / complement / IUPAC ambiguity), plain Python, no cogent3 import.

* NCBI genetic codes: the standard code (transl_table=1) written out in TCAG order, every other table as the
  list of codon reassignments NCBI documents for it ("differences from the standard code").  Typed from the
  NCBI "The Genetic Codes" page, not copied from cogent3.
* IUPAC nucleotide / amino-acid ambiguity sets, complement = symbol of the complemented base set.
* translate_spec: the lifted codon-by-codon translation; frame_spec: the six frames, minus strand defined as the
  translation of the reverse complement read from ITS 5' end.
"""
from __future__ import annotations

import itertools

BASES = "TCAG"
CODONS = ["".join(c) for c in itertools.product(BASES, repeat=3)]
STANDARD = ("FFLLSSSS" "YY**CC*W"      # T..
            "LLLLPPPP" "HHQQRRRR"      # C..
            "IIIMTTTT" "NNKKSSRR"      # A..
            "VVVVAAAA" "DDEEGGGG")     # G..
assert len(STANDARD) == 64

# reassignments relative to the standard code (DNA spelling)
NCBI_DIFFS = {
    1: {},
    2: {"AGA": "*", "AGG": "*", "ATA": "M", "TGA": "W"},
    3: {"ATA": "M", "CTT": "T", "CTC": "T", "CTA": "T", "CTG": "T", "TGA": "W"},
    4: {"TGA": "W"},
    5: {"AGA": "S", "AGG": "S", "ATA": "M", "TGA": "W"},
    6: {"TAA": "Q", "TAG": "Q"},
    9: {"AAA": "N", "AGA": "S", "AGG": "S", "TGA": "W"},
    10: {"TGA": "C"},
    11: {},
    12: {"CTG": "S"},
    13: {"AGA": "G", "AGG": "G", "ATA": "M", "TGA": "W"},
    14: {"AAA": "N", "AGA": "S", "AGG": "S", "TAA": "Y", "TGA": "W"},
    15: {"TAG": "Q"},
    16: {"TAG": "L"},
    21: {"TGA": "W", "ATA": "M", "AGA": "S", "AGG": "S", "AAA": "N"},
    22: {"TCA": "*", "TAG": "L"},
    23: {"TTA": "*"},
    24: {"AGA": "S", "AGG": "K", "TGA": "W"},
    25: {"TGA": "G"},
    26: {"CTG": "A"},
    27: {"TAG": "Q", "TAA": "Q", "TGA": "W"},
    28: {"TAA": "Q", "TAG": "Q", "TGA": "W"},
    29: {"TAA": "Y", "TAG": "Y"},
    30: {"TAA": "E", "TAG": "E"},
    31: {"TGA": "W", "TAG": "E", "TAA": "E"},
    32: {"TAG": "W"},
    33: {"TAA": "Y", "TGA": "W", "AGA": "S", "AGG": "K"},
}
CODE_IDS = sorted(NCBI_DIFFS)


def code_table(gid):
    """codon (DNA spelling) -> amino acid, for NCBI table ``gid``"""
    t = dict(zip(CODONS, STANDARD))
    t.update(NCBI_DIFFS[gid])
    return t


TABLES = {gid: code_table(gid) for gid in CODE_IDS}
STOPS = {gid: sorted(c for c, a in TABLES[gid].items() if a == "*") for gid in CODE_IDS}

# ---------------------------------------------------------------------------------------------- IUPAC
NUC_SETS = {"A": "A", "C": "C", "G": "G", "T": "T",
            "R": "AG", "Y": "CT", "M": "AC", "K": "GT", "S": "CG", "W": "AT",
            "B": "CGT", "D": "AGT", "H": "ACT", "V": "ACG", "N": "ACGT",
            "-": "-", "?": "ACGT-"}
BASE_COMP = {"A": "T", "C": "G", "G": "C", "T": "A", "-": "-"}
AA = "ACDEFGHIKLMNPQRSTVWY" + "U"     # 20 standard amino acids + selenocysteine


def symbol_sets(mt):
    """symbol -> frozenset of canonical characters (gap counts as a character of '-' and '?')"""
    if mt in ("dna", "rna"):
        d = {k: frozenset(v) for k, v in NUC_SETS.items()}
        if mt == "rna":
            d = {k.replace("T", "U"): frozenset(c.replace("T", "U") for c in v) for k, v in d.items()}
        return d
    canon = AA + ("*" if mt == "protein_with_stop" else "")
    d = {c: frozenset(c) for c in canon}
    d.update({"B": frozenset("DN"), "Z": frozenset("EQ"), "X": frozenset(canon),
              "-": frozenset("-"), "?": frozenset(canon + "-")})
    return d


def complement_symbol(sym, mt):
    """the symbol whose base set is the complement of the base set of ``sym``"""
    sets = symbol_sets(mt)
    bc = BASE_COMP if mt == "dna" else {k.replace("T", "U"): v.replace("T", "U") for k, v in BASE_COMP.items()}
    want = frozenset(bc[b] for b in sets[sym])
    hits = [s for s, v in sets.items() if v == want]
    assert len(hits) == 1, (sym, hits)
    return hits[0]


def comp_spec(s, mt):
    return "".join(complement_symbol(c, mt) for c in s)


def rc_spec(s, mt="dna"):
    return comp_spec(s, mt)[::-1]


# ---------------------------------------------------------------------------------------------- translation
def codon_aa(codon, gid):
    """one codon -> one symbol; '---' -> '-'; None when the codon mixes gaps and bases (behaviour left open)"""
    codon = codon.replace("U", "T")
    if codon == "---":
        return "-"
    if "-" in codon:
        return None
    return TABLES[gid][codon]


def translate_spec(s, gid, start=0):
    """codon i of the frame is s[start+3i : start+3i+3] for every complete codon; list of symbols (None = open)"""
    s = s[start:] if start else s
    return [codon_aa(s[i:i + 3], gid) for i in range(0, len(s) - len(s) % 3, 3)]


def translate_str(s, gid, start=0):
    t = translate_spec(s, gid, start)
    assert None not in t
    return "".join(t)


def six_frames(s, gid, mt="dna"):
    """[('+',0),('+',1),('+',2),('-',0),('-',1),('-',2)] -> translation; minus = frames of rc(s)"""
    r = rc_spec(s, mt)
    return [translate_str(s, gid, f) for f in range(3)] + [translate_str(r, gid, f) for f in range(3)]
