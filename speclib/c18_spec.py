"""Independent spec for C18 (pairwise aligners): the score of an alignment path under the aligner's own model and
the best score over *all* paths by plain enumeration.  Pure Python (math only), no cogent3 import.

The model of ``classic_align_pairwise(s1, s2, Sd, d, e, local)`` is a pair HMM with three emitting states
  M (a column pairing one letter of s1 with one of s2), X (letter of s1 over a gap), Y (gap over a letter of s2)
* transition weights exp(0) to M, exp(-d) from M to a gap state, exp(-e) from a gap state to itself, 0 between
  X and Y, each row normalised to sum 1   (``indel_model.classic_gap_scores``)
* the chain starts in its stationary distribution and stops for free
* an M column over letters (a, b) emits the odds ratio exp(Sd[a, b]) / (1/n) (n letters, uniform background),
  a gap column emits odds ratio 1.
score(path) = log of the product.  A *global* path consumes both sequences entirely; a *local* path is a path
over a pair of contiguous substrings that begins and ends with an M column.
"""
from __future__ import annotations

import math

NEG = float("-inf")


def log_model(d, e):
    """(logT, logbegin): logT[p][q] for p, q in 'XYM'; begin = stationary distribution (closed form)."""
    zx = 1.0 + math.exp(-e)
    zm = 1.0 + 2.0 * math.exp(-d)
    a = math.exp(-e) / zx            # X->X
    b = math.exp(-d) / zm            # M->X
    logT = {
        "X": {"X": -e - math.log(zx), "Y": NEG, "M": -math.log(zx)},
        "Y": {"X": NEG, "Y": -e - math.log(zx), "M": -math.log(zx)},
        "M": {"X": -d - math.log(zm), "Y": -d - math.log(zm), "M": -math.log(zm)},
    }
    # stationary: pX = pY, pX (1 - a) = b pM, pM + 2 pX = 1
    den = (1.0 - a) + 2.0 * b
    begin = {"M": math.log((1.0 - a) / den), "X": math.log(b / den), "Y": math.log(b / den)}
    return logT, begin


def columns(r1, r2, gap="-"):
    """state string of a pair of gapped rows; None if rows are ragged or contain an all-gap column"""
    if len(r1) != len(r2):
        return None
    out = []
    for a, b in zip(r1, r2):
        if a == gap and b == gap:
            return None
        out.append("X" if b == gap else ("Y" if a == gap else "M"))
    return "".join(out)


def path_score(r1, r2, S, d, e, nletters, local=False):
    """log score of the alignment given as two gapped rows (global: begin .. free end; local: must start and end
    with M, begins with the stationary weight of M).  -inf for a path the model forbids."""
    st = columns(r1, r2)
    if st is None or not st:
        return NEG
    logT, begin = log_model(d, e)
    if local and (st[0] != "M" or st[-1] != "M"):
        return NEG
    sc = begin[st[0]]
    ln = math.log(nletters)
    prev = None
    for k, s in enumerate(st):
        if prev is not None:
            sc += logT[prev][s]
        if s == "M":
            sc += S[(r1[k], r2[k])] + ln
        prev = s
        if sc == NEG:
            return NEG
    return sc


def best_global(x, y, S, d, e, nletters):
    """max score over ALL global alignments of x and y (depth-first enumeration, no memo, no pruning)
    -> (best score, number of paths with finite score, number of optimal paths within 1e-9)"""
    logT, begin = log_model(d, e)
    ln = math.log(nletters)
    m, n = len(x), len(y)
    best = [NEG, 0, 0]

    def rec(i, j, prev, acc):
        if i == m and j == n:
            best[1] += 1
            if acc > best[0] + 1e-9:
                best[0], best[2] = acc, 1
            elif abs(acc - best[0]) <= 1e-9:
                best[2] += 1
            return
        for s in "MXY":
            if s == "M":
                if i == m or j == n:
                    continue
                em = S[(x[i], y[j])] + ln
                ni, nj = i + 1, j + 1
            elif s == "X":
                if i == m:
                    continue
                em, ni, nj = 0.0, i + 1, j
            else:
                if j == n:
                    continue
                em, ni, nj = 0.0, i, j + 1
            t = begin[s] if prev is None else logT[prev][s]
            if t == NEG:
                continue
            rec(ni, nj, s, acc + t + em)
    if m == 0 and n == 0:
        return NEG, 0, 0
    rec(0, 0, None, 0.0)
    return tuple(best)


def best_local(x, y, S, d, e, nletters):
    """max score over ALL local alignments: every start cell, every path from it that begins with M, evaluated at
    every M column (a local path ends with M).  Plain enumeration."""
    logT, begin = log_model(d, e)
    ln = math.log(nletters)
    m, n = len(x), len(y)
    best = [NEG, 0, 0]

    def note(acc):
        best[1] += 1
        if acc > best[0] + 1e-9:
            best[0], best[2] = acc, 1
        elif abs(acc - best[0]) <= 1e-9:
            best[2] += 1

    def rec(i, j, prev, acc):
        # (i, j) letters consumed so far, prev = last state
        for s in "MXY":
            if s == "M":
                if i == m or j == n:
                    continue
                t = logT[prev][s]
                a2 = acc + t + S[(x[i], y[j])] + ln
                note(a2)
                rec(i + 1, j + 1, "M", a2)
            elif s == "X":
                if i == m:
                    continue
                t = logT[prev][s]
                if t == NEG:
                    continue
                rec(i + 1, j, "X", acc + t)
            else:
                if j == n:
                    continue
                t = logT[prev][s]
                if t == NEG:
                    continue
                rec(i, j + 1, "Y", acc + t)
    for i in range(m):
        for j in range(n):
            a0 = begin["M"] + S[(x[i], y[j])] + ln
            note(a0)
            rec(i + 1, j + 1, "M", a0)
    return tuple(best)


def best_global_dp(x, y, S, d, e, nletters):
    """the same maximum by a three-state recurrence (used only beyond the brute-force frontier; it is compared with
    best_global on every enumerated case by bounded/C18.py's self-check case)"""
    logT, begin = log_model(d, e)
    ln = math.log(nletters)
    m, n = len(x), len(y)
    V = [[{"M": NEG, "X": NEG, "Y": NEG} for _ in range(n + 1)] for _ in range(m + 1)]
    for i in range(m + 1):
        for j in range(n + 1):
            if i == 0 and j == 0:
                continue
            for s, (di, dj) in (("M", (1, 1)), ("X", (1, 0)), ("Y", (0, 1))):
                pi, pj = i - di, j - dj
                if pi < 0 or pj < 0:
                    continue
                em = S[(x[pi], y[pj])] + ln if s == "M" else 0.0
                if pi == 0 and pj == 0:
                    V[i][j][s] = begin[s] + em
                else:
                    V[i][j][s] = max(V[pi][pj][p] + logT[p][s] for p in "MXY") + em
    return max(V[m][n].values())


def project(rows, a, b, gap="-"):
    """the two rows a, b of a multiple alignment (dict name -> gapped string) minus the columns where both are gaps"""
    ra, rb = rows[a], rows[b]
    cols = [(p, q) for p, q in zip(ra, rb) if not (p == gap and q == gap)]
    return "".join(p for p, _ in cols), "".join(q for _, q in cols)
