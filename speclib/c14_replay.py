"""native replay of C14 proof-tier counterexamples on a real define_app app (no __future__ annotations here:\ndefine_app rejects string type hints)"""


def replay_native(m):
    """build a real app whose main() behaves as scripted, call it on the scripted value, evaluate the clause"""
    info, clause = m["info"], m["clause"]
    if "skip" not in info:
        return {"failed": False, "description": "no native replay for helper obligations: " + info["text"][:300]}
    from cogent3 import make_aligned_seqs, make_table
    from cogent3.app.composable import NotCompleted, define_app
    from cogent3.app.typing import AlignedSeqsType
    calls = []
    calls_up = []
    aln = make_aligned_seqs({"a": "ACGT", "b": "ACGA"}, moltype="dna")
    script = info["main"]

    @define_app(skip_not_completed=info["skip"])
    class scripted:
        def main(self, val: AlignedSeqsType) -> AlignedSeqsType:
            calls.append(val)
            if script == "None":
                return None
            if script == "NotCompleted":
                return NotCompleted("ERROR", self, "scripted", source=val)
            if script and script.startswith("raise "):
                raise {"ValueError": ValueError, "Exception": Exception, "KeyError": KeyError,
                       "ZeroDivisionError": ZeroDivisionError, "KeyboardInterrupt": KeyboardInterrupt}[script.split()[1]]("scripted")
            return val

    @define_app(skip_not_completed=info.get("up_skip", True))
    class upstream:
        def main(self, val: AlignedSeqsType) -> AlignedSeqsType:
            calls_up.append(val)
            if not info.get("up_skip", True) and info["input_out"] == "data":
                return aln    # an app that handles not-completed values itself may turn one into data
            if info["input_out"] == "NotCompleted":
                return NotCompleted("ERROR", self, "scripted upstream", source=val)
            return val
    app = upstream() + scripted() if info["has_input"] else scripted()
    nc_in = NotCompleted("ERROR", "caller", "scripted input", source="x")
    val = {"None": None, "NotCompleted": nc_in, "data(valid type)": aln,
           "data(wrong type)": make_table(header=["a"], data=[[1]]), "list[valid]": [aln], "empty list": []}.get(info["val"], aln)
    try:
        r = app(val)
        outcome = "return"
    except KeyboardInterrupt:
        r, outcome = None, "raise KeyboardInterrupt"
    except Exception as e:
        r, outcome = None, f"raise {type(e).__name__}"
    isnc = isinstance(r, NotCompleted)
    head = clause.split(":")[1].strip()
    if clause.startswith("noexcept"):
        failed = outcome.startswith("raise") and outcome != "raise KeyboardInterrupt"
    elif "never None" in head:
        failed = outcome == "return" and r is None
    elif "None input" in head:
        failed = not (isnc and r.type == "ERROR" and not calls)
    elif "passed through by identity" in head:
        failed = not (r is nc_in and not calls)
    elif "not called on a NotCompleted" in head:
        failed = bool(calls)
    elif "returning None" in head:
        failed = not (isnc and r.type == "BUG")
    elif "Exception in main" in head:
        failed = not (isnc and r.type == "ERROR")
    elif "returned unchanged" in head:
        failed = r is not val
    elif "wrong type" in head:
        failed = not (isnc and not calls)
    elif "at most once" in head:
        failed = len(calls) > 1
    else:
        return {"failed": False, "description": "clause has no native evaluator"}
    return {"failed": failed, "witness": {k: info.get(k) for k in ("skip", "has_input", "val", "main", "input_out", "up_skip")},
            "description": f"real app (skip_not_completed={info['skip']}, upstream={info['has_input']} with skip_not_completed={info.get('up_skip')}, main scripted to "
                           f"{script}) called on {info['val']}: {outcome} {type(r).__name__}"
                           f"{'(' + r.type + ')' if isnc else ''}, main() calls={len(calls)}"}


