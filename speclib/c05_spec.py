"""Independent spec for C05 (substitution processes are valid, calibrated Markov processes).

Plain numpy formulas, no cogent3 import:

* spec_Q        -- rate matrix of a predicate model written from the textbook definitions: exchangeability of a
                   single-position change = product of the parameters whose (self-written) predicate holds,
                   times the motif-probability weight of the model family (none / target word / target word
                   conditional on its context / target monomer), diagonal = -row sum, scaled so that
                   -sum_i pi_i Q_ii = 1.
* spec_expm     -- P(t) = exp(Qt) of a *rate matrix* by uniformisation + squaring: only sums and products of
                   non-negative numbers (no cancellation), rows renormalised after every squaring, so the result
                   is a stochastic matrix accurate to a few ulps whatever the stiffness of Q.
* word_probs_from_monomers, context weights, the standard genetic code in TCAG order.
"""
from __future__ import annotations

import itertools
import math
import re

import numpy

BASES = "TCAG"
STANDARD = ("FFLLSSSS" "YY**CC*W"
            "LLLLPPPP" "HHQQRRRR"
            "IIIMTTTT" "NNKKSSRR"
            "VVVVAAAA" "DDEEGGGG")
CODON_AA = {"".join(c): a for c, a in zip(itertools.product(BASES, repeat=3), STANDARD)}
SENSE_CODONS = [c for c in CODON_AA if CODON_AA[c] != "*"]
PURINES, PYRIMIDINES = {"A", "G"}, {"C", "T"}


def is_transition(a, b):
    return a != b and ({a, b} <= PURINES or {a, b} <= PYRIMIDINES)


def name_holds(name, a, b, x=None, y=None):
    """does the rate parameter called `name` apply to the nucleotide change a -> b (inside word x -> y)?"""
    name = name.strip()
    if name.startswith("(") and name.endswith(")"):
        return any(name_holds(p, a, b, x, y) for p in name[1:-1].split("|"))
    if name == "kappa":
        return is_transition(a, b)
    if name == "kappa_y":
        return {a, b} == {"C", "T"}
    if name == "kappa_r":
        return {a, b} == {"A", "G"}
    if name == "omega":
        return CODON_AA[x] != CODON_AA[y]
    m = re.fullmatch(r"([ACGT])/([ACGT])", name)
    if m:
        return {a, b} == {m.group(1), m.group(2)}
    m = re.fullmatch(r"([ACGT])>([ACGT])", name)
    if m:
        return (a, b) == (m.group(1), m.group(2))
    raise KeyError(name)


def name_known(name):
    try:
        name_holds(name, "A", "G", "AAA", "AAG")
        return True
    except KeyError:
        return False


def single_diff(x, y):
    """position of the only difference between equal-length words, else None"""
    d = [i for i in range(len(x)) if x[i] != y[i]]
    return d[0] if len(d) == 1 else None


def word_probs_from_monomers(states, mono):
    """mono: {nucleotide: prob}; probability of a word = product of its monomer probs, renormalised over states"""
    w = numpy.array([math.prod(mono[c] for c in s) for s in states], float)
    return w / w.sum()


def word_probs_from_position_monomers(states, monos):
    w = numpy.array([math.prod(monos[i][c] for i, c in enumerate(s)) for s in states], float)
    return w / w.sum()


def spec_Q(states, params, weight, pi):
    """states: list of words; params: {name: value}; weight in
         'none'        Q_ij = R_ij                                 (non-stationary models; pi = word probs)
         'tuple'       Q_ij = R_ij * pi_j                          (pi = word probs)
         'conditional' Q_ij = R_ij * pi_j / sum(pi_k : k agrees with j outside the changed position)
         'monomer'     Q_ij = R_ij * mono[new nucleotide]          (pi = {nucleotide: prob})
         'monomers'    Q_ij = R_ij * monos[position][new nucleotide]   (pi = [ {nucleotide: prob} per position ])
       returns (Q calibrated to -sum_i w_i Q_ii = 1, w) with w the word (state) probabilities"""
    n = len(states)
    if weight == "monomer":
        w = word_probs_from_monomers(states, pi)
    elif weight == "monomers":
        w = word_probs_from_position_monomers(states, pi)
    else:
        w = numpy.array(pi, float)
    idx = {s: i for i, s in enumerate(states)}
    Q = numpy.zeros((n, n))
    for i, x in enumerate(states):
        for j, y in enumerate(states):
            if i == j:
                continue
            p = single_diff(x, y)
            if p is None:
                continue
            a, b = x[p], y[p]
            r = 1.0
            for name, val in params.items():
                if name_holds(name, a, b, x, y):
                    r *= val
            if weight == "tuple":
                r *= w[j]
            elif weight == "conditional":
                ctx = sum(w[idx[k]] for k in (y[:p] + c + y[p + 1:] for c in BASES) if k in idx)
                r = r * w[j] / ctx if ctx > 0 else 0.0
            elif weight == "monomer":
                r *= pi[b]
            elif weight == "monomers":
                r *= pi[p][b]
            Q[i, j] = r
    Q -= numpy.diag(Q.sum(axis=1))
    scale = -(w * numpy.diag(Q)).sum()
    return Q / scale, w


def spec_general_stationary(states, params, pi):
    """GeneralStationary as its docstring defines it: one free parameter ``x>y`` for every instantaneous change except
    the last (lowest) one in each column; exactly one further cell is the reference (1.0); the last cell of each column
    is whatever makes pi stationary:  sum_i pi_i R_ij pi_j = pi_j sum_k R_jk pi_k  for every j.
    Solved here as one linear system (the code fills the cells one after the other).
    -> None when the parameter names do not fit that description, else (Q calibrated, w, smallest dependent cell)"""
    n = len(states)
    w = numpy.array(pi, float)
    idx = {s: i for i, s in enumerate(states)}
    inst = [[i != j and single_diff(states[i], states[j]) is not None for j in range(n)] for i in range(n)]
    R = numpy.zeros((n, n))
    named = set()
    for name, val in params.items():
        if ">" not in name:
            return None
        x, y = name.split(">")
        if x not in idx or y not in idx or not inst[idx[x]][idx[y]]:
            return None
        R[idx[x], idx[y]] = val
        named.add((idx[x], idx[y]))
    dep = []
    for j in range(n):
        rows = [i for i in range(n) if inst[i][j]]
        if rows and rows[-1] > j:
            dep.append((rows[-1], j))
    if set(dep) & named:
        return None
    ref = [(i, j) for i in range(n) for j in range(n) if inst[i][j] and (i, j) not in named and (i, j) not in dep]
    if len(ref) != 1:
        return None
    R[ref[0]] = 1.0
    # unknown x_c = R[dep_c]; equation j:  sum_i pi_i R_ij - sum_k pi_k R_jk = 0
    A = numpy.zeros((n, len(dep)))
    b = numpy.zeros(n)
    for j in range(n):
        b[j] = -(w @ R[:, j] - R[j] @ w)
    for c, (i, j) in enumerate(dep):
        A[j, c] += w[i]          # column j gains pi_i x_c
        A[i, c] -= w[j]          # row i gains pi_j x_c
    x, *_ = numpy.linalg.lstsq(A, b, rcond=None)
    if abs(A @ x - b).max() > 1e-10 * max(1.0, abs(b).max()):
        return None
    for c, cell in enumerate(dep):
        R[cell] = x[c]
    Q = R * w
    numpy.fill_diagonal(Q, 0.0)
    Q -= numpy.diag(Q.sum(axis=1))
    return Q / -(w * numpy.diag(Q)).sum(), w, float(x.min()) if len(dep) else 1.0


def spec_Q_from_exchangeabilities(S, pi):
    """empirical models: Q_ij = S_ij pi_j, calibrated"""
    w = numpy.array(pi, float)
    Q = numpy.array(S, float) * w
    numpy.fill_diagonal(Q, 0.0)
    Q -= numpy.diag(Q.sum(axis=1))
    return Q / -(w * numpy.diag(Q)).sum(), w


def spec_expm(Q, t):
    """exp(Q t) for a rate matrix Q (off-diagonals >= 0, zero row sums), t >= 0; see module docstring"""
    A = numpy.array(Q, float) * float(t)
    n = A.shape[0]
    off = A - numpy.diag(numpy.diag(A))
    rates = off.sum(axis=1)            # exit rates recomputed from the off-diagonals: exact zero row sums
    mu = float(rates.max()) if n else 0.0
    if mu <= 0.0:
        return numpy.identity(n)
    j = max(0, int(math.ceil(math.log2(mu))) + 1)     # mu / 2^j <= 1/2
    m = mu / 2.0 ** j
    B = off / mu + numpy.diag(1.0 - rates / mu)         # stochastic, non-negative
    term = numpy.identity(n)
    P = numpy.identity(n) * math.exp(-m)
    coef = math.exp(-m)
    for k in range(1, 40):
        term = term @ B
        coef *= m / k
        P += coef * term
        if coef < 1e-40:
            break
    P /= P.sum(axis=1)[:, None]
    for _ in range(j):
        P = P @ P
        P /= P.sum(axis=1)[:, None]
    return P
