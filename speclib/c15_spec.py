"""Independent spec for C15 (distance estimators and distance-based trees).  No cogent3 import.

Part 1 -- the published closed-form pairwise estimators, evaluated on the 'divergence' count matrix N of a pair of
aligned strings (N[x][y] = number of columns showing canonical state x in the first and y in the second sequence;
a column in which either sequence shows anything else -- gap, N, R, ?, ... -- is skipped, which is the documented
treatment).  All decisions (is the formula defined?) are taken in exact rational arithmetic, only the final
logarithm is a float.

  p-distance   p = D / n                      (n = sum N, D = n - trace N)
  hamming      D
  JC69         d = -3/4 ln(1 - 4p/3)                                    defined iff p < 3/4
  TN93         Tamura & Nei 1993 eq. 7, pi = mean of the two sequences' base frequencies over the counted columns,
               P1 = freq(A<->G), P2 = freq(C<->T), Q = freq(transversions):
               d = -2 piA piG/piR ln(1 - piR P1/(2 piA piG) - Q/(2 piR))
                   -2 piC piT/piY ln(1 - piY P2/(2 piC piT) - Q/(2 piY))
                   -2 (piR piY - piA piG piY/piR - piC piT piR/piY) ln(1 - Q/(2 piR piY))
               defined iff piA piG > 0, piC piT > 0 and the three arguments are > 0
  paralinear   Lake 1994: J = N/n, fx/fy its row/column sums, r states:
               d = -1/r ln( det J / sqrt(prod fx prod fy) )              defined iff det J > 0
  LogDet       Lockhart et al. 1994: d = -1/r ln det J - ln r;  with the Tamura-Kumar 2002 adjustment
               d = -(1 - sum pi_i^2)/(r-1) ln( det J / sqrt(prod fx prod fy) ), pi = (fx+fy)/2

cogent3 documents one deviation for paralinear/LogDet: diagonal cells of N that are 0 are set to 0.5 before
normalising.  `alt` below is the same published formula on that padded matrix; it only exists when some diagonal
cell is 0, and the contract accepts it next to the unpadded value.

Part 2 -- trees as nested lists [name|None, length|None, [children]]: shape enumeration, additive / ultrametric
distance matrices, weighted split sets (unrooted) and weighted clade sets (rooted).
"""
from __future__ import annotations

import collections
import functools
import itertools
import math
from fractions import Fraction as Fr

STATES = {"dna": "ACGT", "rna": "ACGU", "protein": "ACDEFGHIKLMNPQRSTVWY"}


# ------------------------------------------------------------------------------------------------ estimators
def count_matrix(s1, s2, mt):
    states = STATES[mt]
    pos = {c: i for i, c in enumerate(states)}
    r = len(states)
    N = [[0] * r for _ in range(r)]
    for a, b in zip(s1, s2):
        if a in pos and b in pos:
            N[pos[a]][pos[b]] += 1
    return N


def det_int(M):
    """determinant of a square integer matrix, fraction-free (Bareiss) elimination: exact, integers only"""
    A = [list(row) for row in M]
    n = len(A)
    sign, prev = 1, 1
    for c in range(n - 1):
        piv = next((r for r in range(c, n) if A[r][c] != 0), None)
        if piv is None:
            return 0
        if piv != c:
            A[c], A[piv] = A[piv], A[c]
            sign = -sign
        for r in range(c + 1, n):
            for k in range(c + 1, n):
                A[r][k] = (A[r][k] * A[c][c] - A[r][c] * A[c][k]) // prev
        prev = A[c][c]
    return sign * A[n - 1][n - 1]


def _ln(x):
    """natural log of a positive Fraction"""
    return math.log(x.numerator) - math.log(x.denominator)


def _logdet_family(N2, kind):
    """value (or None when undefined) of paralinear / logdet / logdet_notk; N2 = 2 x the count matrix, integers (so that a
    padded 0.5 is the integer 1).  J = N2 / sum(N2), det J = det(N2) / sum(N2)^r."""
    r = len(N2)
    tot = sum(sum(row) for row in N2)
    fx = [Fr(sum(row), tot) for row in N2]
    fy = [Fr(sum(N2[i][j] for i in range(r)), tot) for j in range(r)]
    dJ = Fr(det_int(N2), tot ** r)
    if dJ <= 0:
        return None
    if kind == "logdet_notk":
        return -_ln(dJ) / r - math.log(r)
    prod = Fr(1)
    for v in fx + fy:
        prod *= v
    if prod <= 0:
        return None
    core = _ln(dJ) - 0.5 * _ln(prod)          # ln( det J / sqrt(prod fx prod fy) )
    if kind == "paralinear":
        return -core / r
    if kind == "logdet":
        pi2 = sum(((fx[i] + fy[i]) / 2) ** 2 for i in range(r))
        return -float((1 - pi2) / (r - 1)) * core
    raise ValueError(kind)


def estimator_spec(calc, s1, s2, mt):
    """dict(total, diffs, exact, alt, zero_diag, why): exact = published formula or None when undefined"""
    N = count_matrix(s1, s2, mt)
    r = len(N)
    n = sum(sum(row) for row in N)
    D = n - sum(N[i][i] for i in range(r))
    out = {"total": n, "diffs": D, "exact": None, "alt": None, "zero_diag": False, "why": "", "code": ""}
    if n == 0:
        out["why"], out["code"] = "no column with two canonical states", "no-columns"
        return out
    p = Fr(D, n)
    if calc == "pdist":
        out["exact"] = float(p)
    elif calc == "hamming":
        out["exact"] = float(D)
    elif calc == "jc69":
        if p < Fr(3, 4):
            out["exact"] = -0.75 * _ln(1 - Fr(4, 3) * p) if p else 0.0
        else:
            out["why"], out["code"] = f"saturated p={p}", ("p=3/4" if p == Fr(3, 4) else "p>3/4")
    elif calc == "tn93":
        if r != 4:
            raise ValueError("tn93 needs 4 states")
        A, C, G, T = 0, 1, 2, 3
        pi = [Fr(sum(N[i]) + sum(N[k][i] for k in range(4)), 2 * n) for i in range(4)]
        piR, piY = pi[A] + pi[G], pi[C] + pi[T]
        P1 = Fr(N[A][G] + N[G][A], n)
        P2 = Fr(N[C][T] + N[T][C], n)
        Q = p - P1 - P2
        if pi[A] * pi[G] == 0 or pi[C] * pi[T] == 0:
            out["why"], out["code"] = "a base is absent from both sequences (0/0 in the formula)", "absent-base"
        else:
            k1 = 2 * pi[A] * pi[G] / piR
            k2 = 2 * pi[C] * pi[T] / piY
            k3 = 2 * (piR * piY - pi[A] * pi[G] * piY / piR - pi[C] * pi[T] * piR / piY)
            a1 = 1 - P1 / k1 - Q / (2 * piR)
            a2 = 1 - P2 / k2 - Q / (2 * piY)
            a3 = 1 - Q / (2 * piR * piY)
            if a1 > 0 and a2 > 0 and a3 > 0:
                out["exact"] = -float(k1) * _ln(a1) - float(k2) * _ln(a2) - float(k3) * _ln(a3)
            else:
                z = min(a1, a2, a3) == 0
                out["why"] = f"logarithm arguments {a1}, {a2}, {a3}"
                out["code"] = "log-argument-exactly-0" if z else "log-argument-negative"
    elif calc in ("paralinear", "logdet", "logdet_notk"):
        N2 = [[2 * x for x in row] for row in N]
        out["exact"] = _logdet_family(N2, calc)
        status = lambda M, v: "" if v is not None else ("det-zero" if det_int(M) == 0 else "det-negative")
        out["code"] = status(N2, out["exact"])
        out["why"] = {"": "", "det-zero": "det J = 0", "det-negative": "det J < 0"}[out["code"]]
        out["zero_diag"] = any(N[i][i] == 0 for i in range(r))
        if out["zero_diag"]:
            Np = [[(1 if (i == j and N[i][j] == 0) else 2 * N[i][j]) for j in range(r)] for i in range(r)]
            out["alt"] = _logdet_family(Np, calc)
            out["code"] = status(Np, out["alt"])          # the code of the documented (padded) computation
            if out["code"]:
                out["why"] += f"; padded: {'det J = 0' if out['code'] == 'det-zero' else 'det J < 0'}"
    else:
        raise ValueError(calc)
    return out


def admissible(sp):
    """(list of admissible finite values, is 'undefined' (NaN / ArithmeticError) admissible?) for one pair"""
    if sp["total"] == 0:
        return [0.0], True                     # the statement leaves a pair without any usable column open
    if sp["diffs"] == 0:
        return [0.0], sp["exact"] is None      # identical on every usable column: 0, or undefined where 0/0
    vals = [v for v in (sp["exact"], sp["alt"]) if v is not None]
    nan_ok = sp["exact"] is None or (sp["zero_diag"] and sp["alt"] is None)
    return vals, nan_ok


def close(a, b, rel=1e-9, abs_=1e-11):
    return abs(a - b) <= abs_ + rel * max(abs(a), abs(b))


# ------------------------------------------------------------------------------------------------ tree shapes
def _partitions(n, maxpart=None):
    maxpart = n if maxpart is None else maxpart
    if n == 0:
        yield ()
        return
    for k in range(min(n, maxpart), 0, -1):
        for rest in _partitions(n - k, k):
            yield (k,) + rest


@functools.lru_cache(maxsize=None)
def rooted_shapes(n):
    """all rooted tree shapes with n leaves in which every internal node has >= 2 children; leaf = ()"""
    if n == 1:
        return ((),)
    out = []
    for part in _partitions(n):
        if len(part) < 2:
            continue
        groups = sorted(collections.Counter(part).items())
        choices = [list(itertools.combinations_with_replacement(rooted_shapes(sz), k)) for sz, k in groups]
        for combo in itertools.product(*choices):
            kids = tuple(sorted((c for grp in combo for c in grp), key=repr))
            out.append(kids)
    return tuple(out)


def _canon_from(adj, node, parent):
    return tuple(sorted((_canon_from(adj, c, node) for c in adj[node] if c != parent), key=repr))


def unrooted_canon(shape):
    """canonical form of the unrooted tree underlying a rooted shape (root of degree 2 suppressed)"""
    adj = collections.defaultdict(list)
    counter = itertools.count()

    def build(s):
        me = next(counter)
        for c in s:
            k = build(c)
            adj[me].append(k)
            adj[k].append(me)
        return me
    root = build(shape)
    if len(adj[root]) == 2:
        a, b = adj[root]
        adj[a].remove(root); adj[b].remove(root)
        adj[a].append(b); adj[b].append(a)
        del adj[root]
    internal = [v for v in adj if len(adj[v]) > 1]
    if not internal:
        return ("pair",)
    return min((_canon_from(adj, v, None) for v in internal), key=repr)


@functools.lru_cache(maxsize=None)
def unrooted_shapes(n):
    """one rooted representative (root degree >= 3) of every unrooted tree shape with n >= 3 leaves and no degree-2
    vertex"""
    seen, out = set(), []
    for s in rooted_shapes(n):
        if len(s) < 3:
            continue
        c = unrooted_canon(s)
        if c not in seen:
            seen.add(c)
            out.append(s)
    return tuple(out)


def is_binary(shape, rooted):
    def ok(s, top):
        if not s:
            return True
        want = 2 if (rooted or not top) else 3
        return len(s) == want and all(ok(c, False) for c in s)
    return ok(shape, True)


def n_edges(shape):
    return sum(1 + n_edges(c) for c in shape)


def n_internal(shape):
    return 0 if not shape else 1 + sum(n_internal(c) for c in shape)


def label(shape, names, lengths):
    """nested-list tree from a shape: leaves take `names` and edges take `lengths`, both in depth-first order"""
    names, lengths = iter(names), iter(lengths)

    def go(s, top):
        ln = None if top else next(lengths)
        if not s:
            return [next(names), ln, []]
        return [None, ln, [go(c, False) for c in s]]
    return go(shape, True)


def label_ultrametric(shape, names, deltas):
    """ultrametric nested-list tree: tips at height 0, an internal node sits `delta` above its highest child
    (deltas in depth-first pre-order over the internal nodes); also returns the heights used"""
    names, deltas = iter(names), iter(deltas)

    def go(s):
        if not s:
            return [next(names), None, []], 0.0
        dl = next(deltas)
        kids = [go(c) for c in s]
        h = max(k[1] for k in kids) + dl
        for node, hk in kids:
            node[1] = h - hk
        return [None, None, [k[0] for k in kids]], h
    return go(shape)[0]


# ------------------------------------------------------------------------------------------------ tree views
def tips_of(tree):
    if not tree[2]:
        return [tree[0]]
    return [t for c in tree[2] for t in tips_of(c)]


def root_paths(tree):
    """tip name -> list of (edge id, length) from the root down to the tip"""
    out = {}
    counter = itertools.count()

    def go(node, path):
        if not node[2]:
            out[node[0]] = path
            return
        for c in node[2]:
            go(c, path + [(next(counter), c[1] or 0.0)])
    go(tree, [])
    return out


def additive_distances(tree):
    """{(a, b): path length} for every ordered pair of distinct tips; d(a,b) and d(b,a) are the same float"""
    paths = root_paths(tree)
    names = list(paths)
    d = {}
    for i, a in enumerate(names):
        ea = dict(paths[a])
        for b in names[i + 1:]:
            eb = dict(paths[b])
            v = math.fsum([l for e, l in paths[a] if e not in eb] + [l for e, l in paths[b] if e not in ea])
            d[(a, b)] = d[(b, a)] = v
    return d


def ultrametric_distances(tree):
    """{(a, b): 2 * height of the last common ancestor}; exact ties (no path summation)"""
    d = {}

    def go(node):
        if not node[2]:
            return [node[0]], 0.0
        kids = [go(c) for c in node[2]]
        h = max(hk + (c[1] or 0.0) for (tk, hk), c in zip(kids, node[2]))
        for i in range(len(kids)):
            for j in range(i + 1, len(kids)):
                for a in kids[i][0]:
                    for b in kids[j][0]:
                        d[(a, b)] = d[(b, a)] = 2.0 * h
        return [t for tk, hk in kids for t in tk], h
    go(tree)
    return d


def weighted_clades(tree, tol):
    """rooted view: {frozenset of tips below an edge: summed length of the edges with that tip set}; edges above
    two or more tips whose length is <= tol are contracted (a zero-length internal edge is a polytomy)"""
    out = collections.defaultdict(float)

    def go(node, top):
        below = frozenset([node[0]]) if not node[2] else frozenset().union(*[go(c, False) for c in node[2]])
        if not top:
            out[below] += node[1] if node[1] is not None else float("nan")
        return below
    allt = go(tree, True)
    return {k: v for k, v in out.items() if len(k) == 1 or not (v <= tol)}, allt


def weighted_splits(tree, tol):
    """unrooted view: {bipartition: summed length of the edges inducing it}; zero-length internal edges contracted"""
    clades, allt = weighted_clades(tree, -1.0)
    out = collections.defaultdict(float)
    for below, ln in clades.items():
        other = allt - below
        if not other:
            continue                            # an edge above all the tips separates nothing
        out[frozenset([below, other])] += ln
    return {k: v for k, v in out.items() if min(len(s) for s in k) == 1 or not (v <= tol)}, allt


def show_split(k):
    parts = sorted(("".join(sorted(s)) if all(len(x) == 1 for x in s) else ",".join(sorted(s))) for s in k)
    return "|".join(parts)
