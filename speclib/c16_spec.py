"""speclib.c16_spec -- plain-data helpers for property C16 (no cogent3 import).

* ``lnl_from_rules``: the log-likelihood that a list of *reported* parameter rules (the dicts returned by
  ``LikelihoodFunction.get_param_rules()``: par_name, edge/edges, init/value) denotes, computed by the
  first-principles sum-product oracle of ``speclib.c02_spec`` (own rate matrix, ``scipy.linalg.expm``).  C16 uses it
  to tie a reported lnL to the reported parameter values: the value an optimiser "returns" is the likelihood of the
  parameter values it leaves behind, and the likelihood a richer model must reproduce is the one the nested
  model's fitted parameter values denote.
* ``rule_table`` / ``bounds_violations``: canonical plain view of a rule list and the bound check
  lower <= value <= upper on it.
"""
from __future__ import annotations

import math

from speclib import c02_spec as S

GTR_P = ["A/C", "A/G", "A/T", "C/G", "C/T"]
GN_P = ["A>C", "A>T", "A>G", "C>A", "C>T", "C>G", "T>A", "T>C", "G>A", "G>C", "G>T"]
SSGN_P = ["(A>G | T>C)", "(A>T | T>A)", "(C>G | G>C)", "(C>T | G>A)", "(G>T | C>A)"]
# name -> (family, weighting, pi kind, rate parameter names)   -- published definitions, see c02_spec docstring
MODELS = {
    "JC69": ("nuc", "tuple", "equal", []),
    "F81": ("nuc", "tuple", "state", []),
    "K80": ("nuc", "tuple", "equal", ["kappa"]),
    "HKY85": ("nuc", "tuple", "state", ["kappa"]),
    "TN93": ("nuc", "tuple", "state", ["kappa_y", "kappa_r"]),
    "GTR": ("nuc", "tuple", "state", GTR_P),
    "GN": ("nuc", None, "state", GN_P),
    "ssGN": ("nuc", None, "state", SSGN_P),
    "MG94HKY": ("codon", "monomer", "nuc", ["kappa", "omega"]),
    "MG94GTR": ("codon", "monomer", "nuc", GTR_P + ["omega"]),
    "CNFHKY": ("codon", "conditional", "state", ["kappa", "omega"]),
    "CNFGTR": ("codon", "conditional", "state", GTR_P + ["omega"]),
    "GY94": ("codon", "tuple", "state", ["kappa", "omega"]),
    "Y98": ("codon", "tuple", "state", ["kappa", "omega"]),
}


def rule_value(rule):
    return rule["init"] if "init" in rule else rule.get("value")


def rule_edges(rule, all_edges):
    if rule.get("edges"):
        return list(rule["edges"])
    if rule.get("edge"):
        return [rule["edge"]]
    return list(all_edges)


def rule_table(rules, all_edges):
    """{(par_name, edge): (value, lower, upper, is_constant)} with mprobs as {("mprobs", motif): ...}"""
    out = {}
    for r in rules:
        name = r["par_name"]
        const = bool(r.get("is_constant", False))
        v = rule_value(r)
        if name == "mprobs":
            for m, p in dict(v).items():
                out[("mprobs", str(m))] = (float(p), 0.0, 1.0, const)
            continue
        for e in rule_edges(r, all_edges):
            out[(name, e)] = (float(v), r.get("lower"), r.get("upper"), const)
    return out


def bounds_violations(table, slack=0.0):
    """entries of a rule_table whose free value lies outside its declared [lower, upper]"""
    bad = []
    for key, (v, lo, hi, const) in sorted(table.items()):
        if const:
            continue
        if not math.isfinite(v):
            bad.append((key, v, lo, hi))
        elif lo is not None and v < lo - slack * max(1.0, abs(lo)):
            bad.append((key, v, lo, hi))
        elif hi is not None and v > hi + slack * max(1.0, abs(hi)):
            bad.append((key, v, lo, hi))
    return bad


def lnl_from_rules(model, newick_with_names, seqs, rules):
    """lnL denoted by the reported rules under the published definition of ``model``.
    newick_with_names: topology with internal node names (lengths ignored); seqs: {tip: str}"""
    family, weighting, pikind, pnames = MODELS[model]
    tree = S.parse_newick(newick_with_names)
    edges = S.edge_names(tree)
    length = {}
    par = {}
    pi = None
    if pikind == "equal":
        st = S.states_of(family)
        pi = {s: 1.0 / len(st) for s in st}
    for r in rules:
        name = r["par_name"]
        v = rule_value(r)
        if name == "mprobs":
            if pikind != "equal":
                pi = {str(k): float(x) for k, x in dict(v).items()}
            continue
        for e in rule_edges(r, edges):
            if name == "length":
                length[e] = float(v)
            else:
                if name not in pnames:
                    raise KeyError(f"{model} has no parameter {name!r}")
                par[(name, e)] = float(v)
    if pi is None:
        raise KeyError("no motif probabilities reported")
    missing = [e for e in edges if e not in length]
    if missing:
        raise KeyError(f"no length reported for {missing}")
    cache = {}

    def q(edge):
        key = tuple(par.get((p, edge), 1.0) for p in pnames)
        if key not in cache:
            cache[key] = S.rate_matrix(family, weighting, pi, dict(zip(pnames, key)))
        return cache[key]

    root = q(edges[0])[1]
    site = S.site_likelihoods(tree, seqs, family, lambda e: q(e)[0], lambda e: length[e], root)
    return S.log_likelihood(site)


# ----------------------------------------------------------------------------------------------- nesting within bounds
def param_cells(name):
    """the directed nucleotide changes a rate parameter multiplies (published reading of its name)"""
    pred = S.rate_class(name)
    return frozenset((x, y) for x in S.NUCS for y in S.NUCS if x != y and pred(x, y, 0))


def projected_values(null_model, alt_model, null_rules, edges):
    """{(alt parameter, edge): the value it must take for the richer model's rate matrix on that edge to be the
    nested model's}.  Both rate matrices are  q(x->y) = w(y) * product of the parameters covering (x, y)  with w = pi_y
    (stationary families) or 1 (GN, ssGN) and the parameter-free cells as reference class, so the required value is the
    nested model's q/w on the parameter's cells relative to q/w on the richer model's reference cells.
    Nucleotide families only (returns {} otherwise)."""
    fam_n, w_null, pikind, names_null = MODELS[null_model]
    fam_a, w_alt, _, names_alt = MODELS[alt_model]
    if fam_n != "nuc" or fam_a != "nuc":
        return {}
    states = S.states_of("nuc")
    idx = {s: i for i, s in enumerate(states)}
    pi = {s: 0.25 for s in states}
    par = {}
    for r in null_rules:
        if r["par_name"] == "mprobs":
            if pikind != "equal":
                pi = {str(k): float(v) for k, v in dict(rule_value(r)).items()}
        elif r["par_name"] != "length":
            for e in rule_edges(r, edges):
                par[(r["par_name"], e)] = float(rule_value(r))
    cells = {p: param_cells(p) for p in names_alt}
    covered = frozenset().union(*cells.values()) if cells else frozenset()
    ref = sorted((x, y) for x in states for y in states if x != y and (x, y) not in covered)
    out = {}
    for e in edges:
        q, _ = S.rate_matrix("nuc", w_null, pi, {p: par.get((p, e), 1.0) for p in names_null})

        def r_(cell):
            x, y = cell
            return q[idx[x], idx[y]] / (pi[y] if w_alt == "tuple" else 1.0)

        base = r_(ref[0])
        for p in names_alt:
            out[(p, e)] = r_(sorted(cells[p])[0]) / base
    return out


def outside_bounds(projected, lower_upper):
    """projected values that the richer model's declared bounds exclude.  lower_upper: {(param, edge): (lo, hi)}"""
    bad = []
    for key, v in sorted(projected.items()):
        lo, hi = lower_upper.get(key, (None, None))
        if (lo is not None and v < lo) or (hi is not None and v > hi):
            bad.append((key, v, lo, hi))
    return bad
