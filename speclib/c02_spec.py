"""speclib.c02_spec -- first-principles Felsenstein sum-product oracle for property C02.

Nothing in here imports cogent3.  A tree is a newick string parsed by the little parser below, an
alignment is a dict name -> string, a model is a (family, weighting, parameter dict) description whose rate
matrix is written down from the published definition:

    q(i -> j) = [i, j differ at exactly one position]
                * product of the rate parameters whose substitution class contains the change
                * (omega if the encoded amino acid changes; codon families only)
                * w(i, j)
    w = 1                              non-stationary families (GN, ssGN, general predicates)
      = pi_j                           "tuple"  (F81/HKY85/TN93/GTR, GY94/Y98, empirical protein: S_ij pi_j)
      = pi^nuc(new nucleotide)         "monomer"      (MG94)
      = pi^nuc_p(new nucleotide)       "monomers"     (position-specific nucleotide probabilities, p the changed position)
      = pi_j / sum_{k ~ j} pi_k        "conditional"  (CNF; k ~ j: k equals j outside the changed position)
    Q = q with q_ii = -sum_j q_ij, divided by -sum_i pi_i q_ii (one expected substitution per unit length, the
        expectation taken over the root/word distribution pi)
    P(t) = expm(Q t);   L(column) = sum_x pi_x * prod_{children c of root} (P_c L_c)(x)
    L_tip(x) = [x compatible with the observed symbol];   lnL = sum over sites log L(site)

A parameter name is read as a substitution class: "A/C" undirected, "A>C" directed, "a | b" union, and the
classic aliases kappa / kappa_y / kappa_r / omega / CpG (a CG dinucleotide is created or destroyed);
"a & b" is the intersection.
"""
from __future__ import annotations

import itertools
import math

import numpy
from scipy.linalg import expm
from scipy.stats import gamma as _gamma

NUCS = "ACGT"
PURINES = "AG"
PYRIMIDINES = "CT"
DNA_SETS = {
    "A": "A", "C": "C", "G": "G", "T": "T", "R": "AG", "Y": "CT", "M": "AC", "K": "GT", "S": "CG", "W": "AT",
    "B": "CGT", "D": "AGT", "H": "ACT", "V": "ACG", "N": "ACGT", "-": "ACGT", "?": "ACGT",
}
AMINO = "ACDEFGHIKLMNPQRSTVWY"
AA_SETS = {a: a for a in AMINO}
AA_SETS.update({"B": "DN", "Z": "EQ", "X": AMINO, "-": AMINO, "?": AMINO})

# the standard genetic code, NCBI table 1, codons in TCAG order
_GC_BASES = "TCAG"
_GC_AAS = "FFLLSSSSYY**CC*WLLLLPPPPHHQQRRRRIIIMTTTTNNKKSSRRVVVVAAAADDEEGGGG"
GENETIC_CODE = {a + b + c: _GC_AAS[16 * i + 4 * j + k]
                for i, a in enumerate(_GC_BASES) for j, b in enumerate(_GC_BASES) for k, c in enumerate(_GC_BASES)}
SENSE_CODONS = sorted(c for c, a in GENETIC_CODE.items() if a != "*")
assert len(SENSE_CODONS) == 61 and GENETIC_CODE["ATG"] == "M" and GENETIC_CODE["TGG"] == "W"
assert sorted(c for c, a in GENETIC_CODE.items() if a == "*") == ["TAA", "TAG", "TGA"]
# NCBI table 2 (vertebrate mitochondrial): AGA, AGG stop; ATA Met; TGA Trp
_VERT_MITO = dict(GENETIC_CODE, AGA="*", AGG="*", ATA="M", TGA="W")
# NCBI table 4 (mold / protozoan mitochondrial): UGA is Trp; table 15 (Blepharisma nuclear): UAG is Gln.  Both leave 62
# sense codons -- the same number, another set
CODES = {1: GENETIC_CODE, 2: _VERT_MITO, 4: dict(GENETIC_CODE, TGA="W"), 15: dict(GENETIC_CODE, TAG="Q")}


# ----------------------------------------------------------------------------------------------- trees
def parse_newick(text):
    """-> nested dict {name, length, children}"""
    s = text.strip()
    assert s.endswith(";"), text
    s = s[:-1]
    pos = 0

    def node():
        nonlocal pos
        children = []
        if s[pos] == "(":
            pos += 1
            while True:
                children.append(node())
                if s[pos] == ",":
                    pos += 1
                    continue
                assert s[pos] == ")", (text, pos)
                pos += 1
                break
        start = pos
        while pos < len(s) and s[pos] not in ",():":
            pos += 1
        name = s[start:pos]
        length = None
        if pos < len(s) and s[pos] == ":":
            pos += 1
            start = pos
            while pos < len(s) and s[pos] not in ",()":
                pos += 1
            length = float(s[start:pos])
        return {"name": name, "length": length, "children": children}

    root = node()
    assert pos == len(s), (text, pos)
    if not root["name"]:
        root["name"] = "root"
    anon = 0
    for n in nodes(root):
        if not n["name"]:
            n["name"] = f"_anon{anon}"      # unnamed internal node: no rule can refer to it
            anon += 1
    return root


def nodes(tree):
    out = [tree]
    for c in tree["children"]:
        out.extend(nodes(c))
    return out


def edge_names(tree):
    """all edges = all nodes but the root"""
    return [n["name"] for n in nodes(tree)[1:]]


def tip_names(tree):
    return [n["name"] for n in nodes(tree) if not n["children"]]


def _tips_below(node):
    return set(tip_names(node))


def mrca(tree, a, b):
    best = None
    for n in nodes(tree):
        below = _tips_below(n)
        if a in below and b in below and (best is None or len(below) < len(_tips_below(best))):
            best = n
    return best


def scope_edges(tree, a, b, clade=True, stem=False):
    """edges named by (tip a, tip b): the edges below their last common ancestor (clade) and/or the edge
    leading to it (stem)"""
    anc = mrca(tree, a, b)
    out = []
    if stem:
        out.append(anc["name"])
    if clade:
        out.extend(n["name"] for n in nodes(anc)[1:])
    return out


def scope_edges_outgroup(tree, a, b, outgroup, clade=True, stem=False):
    """the tree read as unrooted: the clade of (a, b) is the smallest side of an edge that holds a and b but
    not the outgroup tip; that edge is the stem, the edges inside the side are the clade.
    -> (edge names, ambiguous) ; ambiguous when the edge is one of the two edges at a bifurcating root
    (they are one edge of the unrooted tree, the statement does not say which name stands for it)"""
    every = nodes(tree)
    alltips = set(tip_names(tree))
    best = None
    for n in every[1:]:
        below = _tips_below(n)
        for side, inside in ((below, True), (alltips - below, False)):
            if a in side and b in side and outgroup not in side and (best is None or len(side) < len(best[0])):
                best = (side, n, inside)
    side, n, inside = best
    if inside:
        clade_edges = [m["name"] for m in nodes(n)[1:]]
    else:
        gone = {m["name"] for m in nodes(n)}
        clade_edges = [m["name"] for m in every[1:] if m["name"] not in gone]
    ambiguous = len(tree["children"]) == 2 and n["name"] in [c["name"] for c in tree["children"]]
    out = ([n["name"]] if stem else []) + (clade_edges if clade else [])
    return out, ambiguous


# ----------------------------------------------------------------------------------------------- states
def _split(family):
    """'codon' | 'codon:2' -> (base family, genetic code table);  'dinuc:AA,AC,..' -> dinucleotide model over the
    listed sub-alphabet (the `motifs=` option)"""
    if family.startswith("codon"):
        return "codon", CODES[int(family.split(":")[1]) if ":" in family else 1]
    if family.startswith("dinuc"):
        return "dinuc", None
    return family, None


def states_of(family):
    if family.startswith("dinuc:"):
        return family.split(":")[1].split(",")
    family, code = _split(family)
    if family == "codon":
        return sorted(c for c, a in code.items() if a != "*")
    if family == "nuc":
        return list(NUCS)
    if family == "dinuc":
        return [a + b for a in NUCS for b in NUCS]
    if family == "protein":
        return list(AMINO)
    raise ValueError(family)


def word_length(family):
    return {"nuc": 1, "dinuc": 2, "codon": 3, "protein": 1}[_split(family)[0]]


def compatible(word, family):
    """the set of model states compatible with an observed word (IUPAC sets per position, a gap or ? is
    compatible with everything)"""
    table = AA_SETS if family == "protein" else DNA_SETS
    per_pos = [table[ch] for ch in word]
    allowed = set(states_of(family))
    return {"".join(p) for p in itertools.product(*per_pos)} & allowed


def tip_vectors(seq, family, states):
    """[sites, states] 0/1 array"""
    k = word_length(family)
    assert len(seq) % k == 0
    words = [seq[i:i + k] for i in range(0, len(seq), k)]
    cache = {}
    out = numpy.zeros((len(words), len(states)))
    for r, w in enumerate(words):
        if w not in cache:
            ok = compatible(w, family)
            cache[w] = numpy.array([1.0 if s in ok else 0.0 for s in states])
        out[r] = cache[w]
    return out


# ----------------------------------------------------------------------------------------------- rate classes
def _is_transition(x, y):
    return x != y and ((x in PURINES and y in PURINES) or (x in PYRIMIDINES and y in PYRIMIDINES))


def _on_changed_letter(pred):
    return lambda x, y, p: pred(x[p], y[p])


def _cpg(x, y, p):
    """the change creates or destroys a CG dinucleotide inside the word"""
    return any((x[o:o + 2] == "CG" or y[o:o + 2] == "CG") and p in (o, o + 1) for o in range(len(x) - 1))


def _cpg_one_window(x, y, p):
    """narrow reading of 'to or from CpG': exactly one CG window of the word pair covers the changed position
    (CCG <-> CGG destroys one CG and creates another: two windows, not counted)"""
    return sum((x[o:o + 2] == "CG" or y[o:o + 2] == "CG") and p in (o, o + 1) for o in range(len(x) - 1)) == 1


def rate_class(name):
    """parameter name -> predicate (from word x, to word y, changed position p), or the string 'omega'"""
    nm = name.strip()
    if nm == "omega":
        return "omega"
    if "&" in nm:
        parts = [rate_class(q) for q in nm.split("&")]
        return lambda x, y, p: all(q(x, y, p) for q in parts)
    if nm == "CpG":
        return _cpg
    if nm == "CpG-one-window":
        return _cpg_one_window
    if nm == "kappa":
        return _on_changed_letter(_is_transition)
    if nm == "kappa_y":
        return _on_changed_letter(lambda a, b: {a, b} == {"C", "T"})
    if nm == "kappa_r":
        return _on_changed_letter(lambda a, b: {a, b} == {"A", "G"})
    if nm.startswith("(") and nm.endswith(")"):
        nm = nm[1:-1]
    if "|" in nm:
        parts = [rate_class(q) for q in nm.split("|")]
        return lambda x, y, p: any(q(x, y, p) for q in parts)
    if ">" in nm:
        f, t = [q.strip() for q in nm.split(">")]
        assert len(f) == 1 and len(t) == 1, name
        return _on_changed_letter(lambda a, b: a in DNA_SETS[f] and b in DNA_SETS[t])
    if "/" in nm:
        f, t = [q.strip() for q in nm.split("/")]
        assert len(f) == 1 and len(t) == 1, name
        return _on_changed_letter(lambda a, b: (a in DNA_SETS[f] and b in DNA_SETS[t])
                                  or (b in DNA_SETS[f] and a in DNA_SETS[t]))
    raise ValueError(f"cannot read rate parameter name {name!r}")


def word_probs(family, pi_kind, pi):
    """the distribution over the model states.  pi_kind 'state': pi is a dict over the states;
    'monomer': pi is a dict over nucleotides, a word has the product of its letters' probabilities;
    'monomers': pi is a list (one dict over nucleotides per word position), product over positions.
    Products are renormalised over the states of the model (sense codons, `motifs=` subset)."""
    states = states_of(family)
    if pi_kind == "monomer":
        v = numpy.array([math.prod(pi[ch] for ch in s) for s in states])
        return v / v.sum()
    if pi_kind == "monomers":
        v = numpy.array([math.prod(pi[k][ch] for k, ch in enumerate(s)) for s in states])
        return v / v.sum()
    v = numpy.array([pi[s] for s in states], float)
    return v


def position_marginals(family, pi):
    """per-position nucleotide probabilities of a distribution over the model states"""
    states = states_of(family)
    out = []
    for k in range(word_length(family)):
        d = {n: sum(pi[s] for s in states if s[k] == n) for n in NUCS}
        tot = sum(d.values())
        out.append({n: v / tot for n, v in d.items()})
    return out


def rate_matrix(family, weighting, pi, params, exchange=None, pi_kind=None):
    """calibrated Q over states_of(family) (rows: from, columns: to) and the word/root distribution.
    weighting: None (non-stationary) | 'tuple' | 'monomer' | 'monomers' (position-specific monomer
    probabilities: w = pi[changed position][new nucleotide]) | 'conditional';
    pi_kind: how pi describes the word distribution (see word_probs); follows from the weighting unless given;
    params: {parameter name: value};  exchange: optional {(aa, aa): S} symmetric table (empirical protein)"""
    states = states_of(family)
    code = _split(family)[1]
    n = len(states)
    if pi_kind is None:
        pi_kind = weighting if weighting in ("monomer", "monomers") else "state"
    wp = word_probs(family, pi_kind, pi)
    idx = {s: i for i, s in enumerate(states)}
    classes = [(rate_class(nm), float(v)) for nm, v in params.items()]
    q = numpy.zeros((n, n))
    for i, x in enumerate(states):
        for j, y in enumerate(states):
            if i == j:
                continue
            diff = [p for p in range(len(x)) if x[p] != y[p]]
            if len(diff) != 1:
                continue
            p = diff[0]
            r = 1.0
            if exchange is not None:
                r *= exchange[(x, y)]
            for cls, val in classes:
                if cls == "omega":
                    if code[x] != code[y]:
                        r *= val
                elif family != "protein" and cls(x, y, p):
                    r *= val
            if weighting is None:
                w = 1.0
            elif weighting == "tuple":
                w = wp[j]
            elif weighting == "monomer":
                w = pi[y[p]]
            elif weighting == "monomers":
                w = pi[p][y[p]]
            elif weighting == "conditional":
                tot = sum(wp[idx[k]] for k in states if k[:p] == y[:p] and k[p + 1:] == y[p + 1:])
                w = wp[j] / tot
            else:
                raise ValueError(weighting)
            q[i, j] = r * w
    q -= numpy.diag(q.sum(axis=1))
    scale = -(wp * numpy.diag(q)).sum()
    return q / scale, wp


# ----------------------------------------------------------------------------------------------- pruning
def site_likelihoods(tree, seqs, family, q_for_edge, length_for_edge, root_probs, rate=1.0):
    """per-site likelihoods.  q_for_edge(name) -> calibrated Q; length_for_edge(name) -> t"""
    states = states_of(family)

    def partial(node):
        if not node["children"]:
            return tip_vectors(seqs[node["name"]], family, states)
        out = None
        for c in node["children"]:
            p = expm(q_for_edge(c["name"]) * (length_for_edge(c["name"]) * rate))
            v = partial(c) @ p.T            # v[s, x] = sum_y P[x, y] L_c[s, y]
            out = v if out is None else out * v
        return out

    return partial(tree) @ numpy.asarray(root_probs)


def mixture_site_likelihoods(per_bin, bin_probs):
    """sites are independent draws from the bins: L(site) = sum_b p_b L_b(site)"""
    return sum(p * l for p, l in zip(bin_probs, per_bin))


def log_likelihood(site_lh):
    with numpy.errstate(divide="ignore"):
        return float(numpy.log(site_lh).sum())


def gamma_median_rates(shape, bin_probs):
    """discrete gamma, median variant: the rate of a bin is the median of its slice of Gamma(shape, mean 1),
    rescaled so that the bin-probability weighted mean rate is exactly one"""
    w = numpy.asarray(bin_probs, float)
    w = w / w.sum()
    mids = numpy.cumsum(w) - w / 2
    med = _gamma.ppf(mids, shape, scale=1.0 / shape)
    return med / (med * w).sum()


def monotonic_rates(increments, bin_probs):
    """'free' ordered rates: cumulative sums of positive increments, weighted mean one"""
    v = numpy.cumsum(numpy.asarray(increments, float))
    return v / (v * numpy.asarray(bin_probs, float)).sum()


def all_columns(symbols, ntips):
    return ["".join(c) for c in itertools.product(symbols, repeat=ntips)]
