"""Spec functions for Python slice semantics (independent of cogent3), written with pyvc.dsl operators so
that one text is both a z3 term builder and a concrete function.  ``py_slice_indices`` is CPython's
PySlice_AdjustIndices; it is cross-checked against ``slice.indices`` on every C01 run."""
from pyvc.dsl import And, Implies, Not, Or, fdiv, iabs, imax, imin, ite


def py_slice_indices(start, stop, step, n):
    """(a, b) such that seq[start:stop:step] == [seq[i] for i in range(a, b, step)], len(seq) == n.
    start/stop may be Python None (static); step is a non-zero integer."""
    neg = step < 0
    if start is None:
        a = ite(neg, n - 1, 0)
    else:
        a = ite(start < 0,
                ite(start + n < 0, ite(neg, -1, 0), start + n),
                ite(start >= n, ite(neg, n - 1, n), start))
    if stop is None:
        b = ite(neg, -1, n)
    else:
        b = ite(stop < 0,
                ite(stop + n < 0, ite(neg, -1, 0), stop + n),
                ite(stop >= n, ite(neg, n - 1, n), stop))
    return a, b


def len_range(a, b, c):
    """len(range(a, b, c)), c != 0"""
    return ite(c > 0,
               ite(a < b, fdiv(b - a - 1, c) + 1, 0),
               ite(b < a, fdiv(a - b - 1, -c) + 1, 0))


# ---- the abstract view of a slice record (start, stop, step, seq_len): DESIGN.md C01
def inv(start, stop, step, L):
    fwd = And(step > 0, Or(And(start == 0, stop == 0, step == 1), And(0 <= start, start < stop, stop <= L)))
    rev = And(step < 0, -L - 1 <= stop, stop <= start, start <= -1, Or(stop == start, start >= -L))
    return And(L >= 0, Or(fwd, rev))


def view_len(start, stop, step):
    """number of displayed elements of a view satisfying inv (both coordinates of a reversed view are
    negative offsets from the end, so plain range semantics apply)"""
    return len_range(start, stop, step)


def first(start, step, L):
    """parent index of the first displayed element"""
    return ite(step > 0, start, L + start)
