"""cross-checks of spec functions against independent ground truth (run by the checks that use them)"""
import itertools


def check_py_slice(nmax=6):
    from speclib.slices import len_range, py_slice_indices
    n_cases = 0
    for n in range(nmax + 1):
        rng = [None] + list(range(-n - 2, n + 3))
        for a, b in itertools.product(rng, rng):
            for c in (1, 2, 3, -1, -2, -3):
                ea, eb, _ = slice(a, b, c).indices(n)
                ga, gb = py_slice_indices(a, b, c, n)
                assert (ga, gb) == (ea, eb), (a, b, c, n, (ga, gb), (ea, eb))
                assert len_range(ga, gb, c) == len(range(ea, eb, c)), (a, b, c, n)
                n_cases += 1
    return n_cases
