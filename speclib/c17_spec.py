"""Independent spec for C17 (annotation databases): the abstract record model, the linear scan that defines
"the matching records", and the text <-> record-list maps for GFF3 and GenBank feature tables.  Pure Python,
no cogent3 import.

A *record* is a dict
    {"seqid", "biotype", "name", "spans": [[s, e], ...] (0-based half-open, s <= e), "strand": "+"|"-"|"."|None,
     "attrs": str|None (what a user passes to add_feature), "quals": [[key, value], ...] (file records only),
     "on_aln": bool, "src": "user"|"file"}
An *item* is [kind, record] with kind in {"user", "gff", "gb"}: the way the record entered a database (added with
add_feature, read from GFF text, read from GenBank text).  The kind fixes what the attributes column holds.

Levels: 2 = the property demands the record is selected, 1 = the property statement leaves it open (degenerate
interval, default strand, case-folded attribute match), 0 = the property demands it is not selected.
"""
from __future__ import annotations

INF = 10 ** 9


# ------------------------------------------------------------------------------------------------ records
def R(seqid, biotype, name, spans, strand, src="user", attrs=None, quals=(), on_aln=False):
    return {"seqid": seqid, "biotype": biotype, "name": name, "spans": [list(s) for s in spans], "strand": strand,
            "attrs": attrs, "quals": [list(q) for q in quals], "on_aln": bool(on_aln), "src": src}


def extent(r):
    return min(min(s) for s in r["spans"]), max(max(s) for s in r["spans"])


def norm_spans(spans):
    return tuple(sorted((int(a), int(b)) for a, b in spans))


def gff_attr_text(r):
    """column 9 of the GFF line(s) written for a file record (also the attributes string used when such a record
    is added by hand)"""
    return "ID=" + r["name"] + "".join(f";{k}={v}" for k, v in r["quals"])


def file_ok(cls, r):
    """can the record be expressed in the flat-file format read by db class cls?"""
    if r["src"] != "file" or cls == "basic" or r["on_aln"]:
        return False
    if any(s == e for s, e in r["spans"]):
        return False                      # 1-based closed coordinates cannot express an empty span
    if cls == "gff":
        return r["strand"] in ("+", "-", ".")
    if cls == "gb":
        return r["strand"] in ("+", "-") and r["seqid"] == "s1"      # one LOCUS per file, named s1
    return False


def item_kind(cls, r):
    return cls if file_ok(cls, r) else "user"


def item_attr(item):
    """the abstract value of the attributes column"""
    kind, r = item
    if r["src"] == "gfftext":             # a record read off GFF rows by gff_spec_records
        return r["attrs"]
    if r["src"] == "gbtext":              # a record read off a GenBank feature table: qualifiers as written
        return ("quals",) + tuple(sorted((k, (v,)) for k, v in r["quals"]))
    if kind == "gff":
        return gff_attr_text(r)
    if kind == "gb":
        return ("quals",) + tuple(sorted([("gene", (r["name"],))] + [(k.lower(), (v,)) for k, v in r["quals"]]))
    return r["attrs"] if r["src"] == "user" else gff_attr_text(r)


def item_attr_texts(item):
    """the strings an attributes query is matched against"""
    a = item_attr(item)
    if a is None:
        return []
    if isinstance(a, tuple):
        return [v for _, vs in a[1:] for v in vs]
    return [a]


def proj_feature(item, strand="exact"):
    kind, r = item
    st = r["strand"] if strand == "exact" else strand
    return (r["seqid"], r["biotype"], r["name"], norm_spans(r["spans"]), st, bool(r["on_aln"]))


def proj_full(item, strand="exact"):
    kind, r = item
    st = r["strand"] if strand == "exact" else strand
    rs, re_ = extent(r)
    return (r["seqid"], r["biotype"], r["name"], norm_spans(r["spans"]), st, item_attr(item), bool(r["on_aln"]),
            rs, re_)


# ------------------------------------------------------------------------------------------------ the scan
def win_level(rs, re_, S, E, partial, alt=0):
    """does the record extent [rs, re_) match the window?  alt selects the reading of a one-sided window:
    0 = 'features containing that position' (the reading documented in the code), 1 = half-infinite window."""
    if S is None and E is None:
        return 2
    if S is None or E is None:
        x = S if S is not None else E
        if alt == 0:
            return 2 if rs <= x < re_ else 0
        lo, hi = (x, INF) if S is not None else (-INF, x)
    else:
        lo, hi = S, E
    if rs == re_:                         # empty record at position rs: inside iff lo <= rs < hi; rs == hi is open
        if lo <= rs < hi:
            return 2
        return 1 if lo <= rs == hi else 0
    if lo == hi:                          # empty window: nothing is inside it; whether something 'overlaps' is open
        return 1 if (partial and rs <= lo <= re_) else 0
    if partial:
        return 2 if (rs < hi and re_ > lo) else 0
    return 2 if (lo <= rs and re_ <= hi) else 0


def level(item, q, alt=0):
    """q = dict(seqid, biotype, name, strand, attributes, on_alignment, start, stop, allow_partial)"""
    kind, r = item
    lv = 2
    for k in ("seqid", "biotype", "name"):
        if q.get(k) is not None and r[k] != q[k]:
            return 0
    if q.get("strand") is not None and r["strand"] != q["strand"]:
        if r["strand"] is None and q["strand"] == "+":
            lv = 1                        # add_feature documents "defaults to '+'"; the statement leaves it open
        else:
            return 0
    if q.get("attributes") is not None:
        texts = item_attr_texts(item)
        if any(q["attributes"] in t for t in texts):
            pass
        elif any(q["attributes"].lower() in t.lower() for t in texts):
            lv = 1                        # case folding is left open
        else:
            return 0
    if q.get("on_alignment") is not None and bool(r["on_aln"]) != bool(q["on_alignment"]):
        return 0
    rs, re_ = extent(r)
    return min(lv, win_level(rs, re_, q.get("start"), q.get("stop"), bool(q.get("allow_partial")), alt))


def select(items, q, alt=0):
    must, may = [], []
    for it in items:
        lv = level(it, q, alt)
        if lv == 2:
            must.append(it)
        elif lv == 1:
            may.append(it)
    return must, may


def alternatives(q):
    one_sided = (q.get("start") is None) != (q.get("stop") is None)
    return (0, 1) if one_sided else (0,)


# ------------------------------------------------------------------------------------------------ multiset compare
def match(got, items, proj):
    """assign projected real records to spec items; returns (unassigned real tuples, unassigned items).
    A spec item whose strand is None also accepts '+' (documented default)."""
    got = list(got)
    left = []
    for it in items:
        p = proj(it)
        if p in got:
            got.remove(p)
        else:
            left.append(it)
    left2 = []
    for it in left:
        if it[1]["strand"] is None:
            p = proj(it, "+")
            if p in got:
                got.remove(p)
                continue
        left2.append(it)
    return got, left2


def compare(got, must, may, proj):
    """None if must <= got <= must + may as multisets, else (kind, missing items, extra tuples)"""
    rest, missing = match(got, must, proj)
    extra, _ = match(rest, may, proj)
    if missing and extra:
        return "missing+extra", missing, extra
    if missing:
        return "missing", missing, extra
    if extra:
        return "extra", missing, extra
    return None


def span_kind(spans):
    spans = list(spans)
    if all(a == b for a, b in spans):
        return "empty-span"
    return f"{len(spans)}-span"


# ------------------------------------------------------------------------------------------------ GFF3 text
def gff_text(rows, header=True):
    """rows = [[seqid, biotype, start1, end1, strand, id|None, extra attribute text], ...] (1-based closed)"""
    out = ["##gff-version 3"] if header else []
    for seqid, biotype, a, b, strand, ident, extra in rows:
        attr = ";".join(x for x in ([f"ID={ident}"] if ident is not None else []) + ([extra] if extra else []))
        out.append("\t".join([seqid, "src", biotype, str(a), str(b), ".", strand, ".", attr]))
    return "\n".join(out) + "\n"


def gff_rows_of(records):
    rows = []
    for r in records:
        extra = ";".join(f"{k}={v}" for k, v in r["quals"])
        for s, e in r["spans"]:
            rows.append([r["seqid"], r["biotype"], s + 1, e, r["strand"], r["name"], extra])
    return rows


def gff_spec_records(rows, seqids=None):
    """GFF3 semantics: rows sharing an ID are one (multi-span) feature; 1-based closed -> 0-based half-open.
    Rows without ID are separate features whose name is not determined (name None = any)."""
    if isinstance(seqids, str):
        seqids = [seqids]
    recs, by_id = [], {}
    for seqid, biotype, a, b, strand, ident, extra in rows:
        if seqids and seqid not in seqids:
            continue
        span = [a - 1, b]
        if ident is not None and ident in by_id:
            by_id[ident]["spans"].append(span)
            continue
        attr = ";".join(x for x in ([f"ID={ident}"] if ident is not None else []) + ([extra] if extra else []))
        rec = {"seqid": seqid, "biotype": biotype, "name": ident, "spans": [span], "strand": strand,
               "attrs": attr, "quals": [], "on_aln": False, "src": "gfftext"}
        recs.append(rec)
        if ident is not None:
            by_id[ident] = rec
    return recs


# ------------------------------------------------------------------------------------------------ GenBank text
def gb_location(spans, strand, form="std"):
    """GenBank location text of 0-based half-open spans (ascending).  forms: std (a..b, join, complement(join)),
    single (bare position for a 1-long span), fuzzy (<a..>b), inner (join(complement(..),..) in reverse order)"""
    def seg(s, e, first, last):
        if form == "single" and e == s + 1:
            return str(s + 1)
        if form == "fuzzy":
            return ("<" if first else "") + f"{s + 1}.." + (">" if last else "") + f"{e}"
        return f"{s + 1}..{e}"
    spans = sorted(tuple(s) for s in spans)
    segs = [seg(s, e, i == 0, i == len(spans) - 1) for i, (s, e) in enumerate(spans)]
    if strand == "-" and form == "inner":
        segs = [f"complement({x})" for x in reversed(segs)]
        return segs[0] if len(segs) == 1 else "join(" + ",".join(segs) + ")"
    txt = segs[0] if len(segs) == 1 else "join(" + ",".join(segs) + ")"
    return f"complement({txt})" if strand == "-" else txt


def gb_text(loci):
    """loci = [[locus name, length, [[key, location text, [[qualifier, value], ...]], ...]], ...]"""
    out = []
    for locus, length, feats in loci:
        out.append(f"LOCUS       {locus:<10}{length:>8} bp    DNA     linear   UNK 01-JAN-2000")
        out.append("DEFINITION  test record.")
        out.append("FEATURES             Location/Qualifiers")
        for key, loc, quals in feats:
            out.append(f"     {key:<16}{loc}")
            for k, v in quals:
                out.append(f'{" " * 21}/{k}="{v}"')
        out.append("ORIGIN")
        seq = ("acgt" * (length // 4 + 1))[:length]
        for i in range(0, length, 60):
            chunk = seq[i:i + 60]
            out.append(f"{i + 1:>9} " + " ".join(chunk[j:j + 10] for j in range(0, len(chunk), 10)))
        out.append("//")
    return "\n".join(out) + "\n"


def gb_feats_of(records, form="std"):
    feats = []
    for r in records:
        feats.append([r["biotype"], gb_location(r["spans"], r["strand"], form),      # qualifier keys are lower case
                      [["gene", r["name"]]] + [[k.lower(), v] for k, v in r["quals"]]])
    return feats
