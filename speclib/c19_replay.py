"""Native fault-injection harness for util.io.atomic_write: replays a sequence of external-call outcomes
(and an optional kill point) on the real code and the real file system, by monkeypatching inside this
process only.  Used (a) to replay counterexamples of the C19 proof tier and (b) by the bounded tier.

Two modes.  Default (proof-tier replay): the externals of the ghost-FS model (open_, file.write/close, Path.unlink/
rename/replace, shutil.rmtree, os.unlink).  ``Script(..., full=True)`` (bounded tier) additionally intercepts
mkdtemp, file.writelines, the ZipFile(...,"a"/"w") open / write / close of ``_close_rename_zip`` and the ``open_`` that
``app.data_store`` imported by name; file data is held back until close (like Python's own buffer), so that a kill
between write and close leaves what a SIGKILL leaves: an empty file.  A trace entry ("*", "fail") makes whatever
external comes at that position fail in its natural way."""
from __future__ import annotations

import contextlib
import io
import os
import pathlib
import shutil
import sys
import tempfile

OLD_TEXT = ">old\nAAAA\n"
NEW_TEXT = "NEWCONTENT\n"


class Kill(BaseException):
    """the process dies here: no further Python code of the writer runs"""


FAIL = ("OSError", "PermissionError", "fail")


class Script:
    def __init__(self, trace, kill_after=None, kill_before=None, full=False, by_name=None):
        self.trace = [t.split(":", 1) if isinstance(t, str) else list(t) for t in trace]
        self.pos = 0
        self.kill_after = kill_after      # number of completed externals after which the process is killed
        self.kill_before = kill_before    # index of the external before which the process is killed
        self.diverged = None
        self.log = []
        self.inside = 0   # >0 while the real implementation of an intercepted call runs (it may call others)
        self.full = full  # bounded-tier mode, see module docstring
        self.killed = False
        self.files = []   # open proxies: a kill abandons them without flushing
        self.failed = []  # names of the externals that were made to fail
        self.unintercepted = []  # (full mode, audit hook) file-system mutations outside every intercepted external
        # position-independent schedule: {"shutil.rmtree#2": "fail", "Path.replace#1": "kill"} = the 2nd rmtree call
        # fails, the process is killed just before the 1st replace call
        self.by_name = dict(by_name or {})
        self.counts = {}
        self.hit = []     # scheduled entries that were reached

    real_kill = False   # set by a sacrificial child process: die for real instead of emulating it

    def _die(self):
        if self.real_kill:
            import signal
            os.kill(os.getpid(), signal.SIGKILL)
        self.killed = True
        for f in self.files:
            f._abandon()
        raise Kill()

    def next(self, name):
        if self.killed:
            raise Kill()   # the process is dead: code that Python would still run (finally blocks) has no effect
        if self.kill_before is not None and self.pos == self.kill_before:
            self._die()
        if self.by_name:
            self.counts[name] = self.counts.get(name, 0) + 1
            lab = f"{name}#{self.counts[name]}"
            act = self.by_name.get(lab)
            if act is not None:
                self.hit.append(lab)
                if act == "kill":
                    self.log.append(f"{name}:killed-before")
                    self._die()
                self.pos += 1
                self.log.append(f"{name}:fail")
                self.failed.append(name)
                return "fail"
        if self.pos >= len(self.trace):
            self.log.append(f"{name}:ok(unscripted)")
            self.pos += 1
            return "ok"
        want, label = self.trace[self.pos]
        if want not in (name, "*"):
            self.diverged = f"external #{self.pos}: model expects {want}, real code calls {name}"
            label = "ok"
        self.pos += 1
        self.log.append(f"{name}:{label}")
        if label in FAIL or label.startswith("silently"):
            self.failed.append(name)
        return label

    def done(self):
        if self.kill_after is not None and self.pos == self.kill_after:
            self._die()


class FileProxy:
    def __init__(self, real, script):
        self._real, self._script, self._closed = real, script, False
        self._pending = []
        script.files.append(self)

    def _flush_pending(self):
        for chunk in self._pending:
            self._real.write(chunk)
        self._pending = []

    def _abandon(self):
        """the process died: buffered data is lost, the descriptor is closed by the kernel"""
        self._pending = []
        if isinstance(self._real, io.IOBase):
            with contextlib.suppress(BaseException):
                self._real.close()

    def write(self, text):
        label = self._script.next("file.write")
        if label in FAIL:
            self._flush_pending()
            self._real.write(text[: len(text) // 2])
            self._real.flush()
            raise OSError("injected: write failed")
        if self._script.full:
            self._pending.append(text)
            r = len(text)
        else:
            r = self._real.write(text)
        self._script.done()
        return r

    def writelines(self, lines):
        if not self._script.full:
            return self._real.writelines(lines)
        lines = list(lines)
        label = self._script.next("file.writelines")
        if label in FAIL:
            self._flush_pending()
            for ln in lines[: len(lines) // 2]:
                self._real.write(ln)
            self._real.flush()
            raise OSError("injected: writelines failed")
        self._real.writelines   # AttributeError here exactly when the real object has no writelines
        self._pending.extend(lines)
        self._script.done()

    def close(self):
        if self._closed:
            return
        label = self._script.next("file.close")
        if label in FAIL:
            raise OSError("injected: close failed")
        self._closed = True
        self._flush_pending()
        self._real.close()
        self._script.done()

    def __enter__(self):
        return self

    def __exit__(self, *exc):
        self.close()

    def __getattr__(self, k):
        return getattr(self._real, k)


class ZipProxy:
    """the archive that _close_rename_zip appends to (full mode): open / write / close are externals"""

    def __init__(self, real, script):
        self._real, self._script, self._closed = real, script, False
        script.files.append(self)

    def _abandon(self, flush=False):
        """the process died (flush=False: what sits in the user-space buffer is lost, what was flushed stays on disk)
        or writing the central directory failed (flush=True); the end record is never written"""
        self._closed = True
        fp = getattr(self._real, "fp", None)
        if fp is not None:
            raw = getattr(fp, "raw", None)
            if raw is not None and not flush:
                with contextlib.suppress(BaseException):
                    raw.close()
            with contextlib.suppress(BaseException):
                fp.close()
            self._real.fp = None   # ZipFile.close()/__del__ return at once when fp is None

    def write(self, filename, arcname=None, *a, **kw):
        label = self._script.next("ZipFile.write")
        if label in FAIL:
            raise OSError("injected: ZipFile.write failed")
        self._script.inside += 1
        try:
            self._real.write(filename, arcname, *a, **kw)
        finally:
            self._script.inside -= 1
        self._script.done()

    def close(self):
        if self._closed:
            return
        label = self._script.next("ZipFile.close")
        if label in FAIL:
            self._abandon(flush=True)
            raise OSError("injected: ZipFile.close failed")
        self._closed = True
        self._script.inside += 1
        try:
            self._real.close()
        finally:
            self._script.inside -= 1
        self._script.done()

    def __enter__(self):
        return self

    def __exit__(self, *exc):
        self.close()

    def __getattr__(self, k):
        return getattr(self._real, k)


# ---- audit hook (full mode): every file-system mutation must happen inside an intercepted external
_AUDIT = {"installed": False, "script": None, "root": None}
_MUTATORS = {"os.remove", "os.rename", "os.rmdir", "os.mkdir", "os.truncate", "os.link", "os.symlink",
             "shutil.rmtree", "shutil.move", "shutil.copyfile", "shutil.copytree", "tempfile.mkdtemp", "tempfile.mkstemp"}


def _audit(event, args):
    script = _AUDIT["script"]
    if script is None or script.inside:
        return
    if event == "open":
        path, mode, flags = (list(args) + [None, None])[:3]
        writing = (isinstance(mode, str) and any(c in mode for c in "wax+")) or \
            (mode is None and isinstance(flags, int) and flags & (os.O_WRONLY | os.O_RDWR | os.O_CREAT | os.O_TRUNC))
        if not writing:
            return
    elif event not in _MUTATORS:
        return
    root = _AUDIT["root"]
    where = [str(a) for a in args if isinstance(a, (str, bytes, os.PathLike))]
    if root and where and not any(w.startswith(root) for w in where):
        return
    script.unintercepted.append(event if not script.killed else event + "(after-kill)")


@contextlib.contextmanager
def audited(script, root):
    """records in script.unintercepted the mutations under ``root`` that no intercepted external accounts for"""
    if not _AUDIT["installed"]:
        sys.addaudithook(_audit)
        _AUDIT["installed"] = True
    _AUDIT["script"], _AUDIT["root"] = script, str(root)
    try:
        yield
    finally:
        _AUDIT["script"] = None


@contextlib.contextmanager
def patched(script):
    import cogent3.util.io as cio
    orig = dict(unlink=pathlib.Path.unlink, rename=pathlib.Path.rename, replace=pathlib.Path.replace,
                rmtree=shutil.rmtree, os_unlink=os.unlink, open_=cio.open_, mkdtemp=cio.mkdtemp, ZipFile=cio.ZipFile)
    dsm = None
    if script.full:
        import cogent3.app.data_store as dsm

    def real(fn, *a, **kw):
        script.inside += 1
        try:
            return fn(*a, **kw)
        finally:
            script.inside -= 1

    def unlink(self, missing_ok=False):
        if script.inside:
            return orig["unlink"](self, missing_ok=missing_ok)
        label = script.next("Path.unlink")
        if label in FAIL:
            raise PermissionError("injected")
        r = real(orig["unlink"], self, missing_ok=missing_ok)   # FileNotFoundError arises naturally
        script.done()
        return r

    def mk_move(which):
        def move(self, target):
            if script.inside:
                return orig[which](self, target)
            label = script.next(f"Path.{which}")
            if label in FAIL:
                raise OSError("injected")
            r = real(orig[which], self, target)
            script.done()
            return r
        return move

    def rmtree(path, ignore_errors=False, **kw):
        if script.inside:
            return orig["rmtree"](path, ignore_errors=ignore_errors, **kw)
        label = script.next("shutil.rmtree")
        if label == "fail":   # the natural failure: swallowed under ignore_errors, OSError otherwise
            label = "silently-failed" if ignore_errors else "OSError"
        if label == "OSError":
            raise OSError("injected")
        if label.startswith("silently"):
            return None
        r = real(orig["rmtree"], path, ignore_errors=ignore_errors, **kw)
        script.done()
        return r

    def os_unlink(path, *a, **kw):
        if script.inside:
            return orig["os_unlink"](path, *a, **kw)
        label = script.next("os.unlink")
        if label in FAIL:
            raise PermissionError("injected")
        r = real(orig["os_unlink"], path, *a, **kw)
        script.done()
        return r

    def open_(filename, mode="rt", **kw):
        if "w" not in mode or script.inside:
            return orig["open_"](filename, mode, **kw)
        label = script.next("open_")
        if label in FAIL:
            raise OSError("injected")
        f = FileProxy(real(orig["open_"], filename, mode, **kw), script)
        script.done()
        return f

    def mkdtemp(*a, **kw):
        if script.inside:
            return orig["mkdtemp"](*a, **kw)
        label = script.next("mkdtemp")
        if label in FAIL:
            raise OSError("injected")
        r = real(orig["mkdtemp"], *a, **kw)
        script.done()
        return r

    def zipfile_(file, mode="r", *a, **kw):
        if script.inside or mode == "r":
            return orig["ZipFile"](file, mode, *a, **kw)
        label = script.next("ZipFile.open")
        if label in FAIL:
            raise OSError("injected")
        z = ZipProxy(real(orig["ZipFile"], file, mode, *a, **kw), script)
        script.done()
        return z

    pathlib.Path.unlink, pathlib.Path.rename, pathlib.Path.replace = unlink, mk_move("rename"), mk_move("replace")
    shutil.rmtree, os.unlink, cio.open_ = rmtree, os_unlink, open_
    if script.full:
        cio.mkdtemp, cio.ZipFile = mkdtemp, zipfile_
        dsm_open, dsm.open_ = dsm.open_, open_
    try:
        yield
    finally:
        pathlib.Path.unlink, pathlib.Path.rename, pathlib.Path.replace = orig["unlink"], orig["rename"], orig["replace"]
        shutil.rmtree, os.unlink, cio.open_ = orig["rmtree"], orig["os_unlink"], orig["open_"]
        if script.full:
            cio.mkdtemp, cio.ZipFile = orig["mkdtemp"], orig["ZipFile"]
            dsm.open_ = dsm_open


def run_scenario(scen, dest, script):
    from cogent3.util.io import atomic_write
    if scen.startswith("with/"):
        with atomic_write(dest, mode="w") as f:
            if scen == "with/body-raises-before-write":
                raise ValueError("body failed")
            if scen == "with/body-raises-after-partial-write":
                f.write(NEW_TEXT)
                raise ValueError("body failed")
            f.write(NEW_TEXT)
    elif scen == "write+close":
        w = atomic_write(dest, mode="w")
        w.write(NEW_TEXT)
        w.close()
    elif scen == "save_to_filename":
        import cogent3.format.alignment as fa
        from cogent3.parse.record import FileFormatError
        fmt = [t[1] for t in script.trace if t[0] == "formatter"]
        orig = fa.write_alignment_to_file

        def stub(f, alignment, format, **kw):  # the formatter's trusted contract, scripted
            how = fmt[0] if fmt else "ok"
            if how == "raises-before-write":
                raise FileFormatError("injected")
            f.write(NEW_TEXT)
            if how == "raises-after-write":
                raise ValueError("injected")
            f.close()
        script.trace = [t for t in script.trace if t[0] != "formatter"]
        fa.write_alignment_to_file = stub
        try:
            fa.save_to_filename({"a": "ACGT"}, dest, "fasta")
        finally:
            fa.write_alignment_to_file = orig
    else:
        raise ValueError(scen)


def execute(scen, dest0, trace, kill_after=None, kill_before=None):
    """returns dict(outcome, dest, leftovers, diverged, log)"""
    work = tempfile.mkdtemp(prefix="c19_")
    try:
        dest = pathlib.Path(work) / "out.txt"
        if dest0 == "old":
            dest.write_text(OLD_TEXT)
        script = Script(trace, kill_after, kill_before)
        outcome = "return"
        with patched(script):
            try:
                run_scenario(scen, dest, script)
            except Kill:
                outcome = "killed"
            except BaseException as e:
                outcome = f"raise {type(e).__name__}"
        content = dest.read_text() if dest.exists() else None
        state = "absent" if content is None else "old" if content == OLD_TEXT else "new" if content == NEW_TEXT else "partial"
        leftovers = sorted(str(p.relative_to(work)) for p in pathlib.Path(work).rglob("*") if p != dest)
        return {"outcome": outcome, "dest": state, "leftovers": leftovers, "diverged": script.diverged, "log": script.log}
    finally:
        shutil.rmtree(work, ignore_errors=True)


def replay_trace(scen, dest0, trace, clause, point=None):
    """replay a proof-tier counterexample; ``point`` = number of completed externals at the crash point"""
    trace = [t for t in trace]
    if clause.startswith("crash@"):
        kind = clause.split("@", 1)[1].split(":", 1)[0]
        n_ext = len([t for t in trace if not t.startswith("formatter")]) if point is None else point
        kw = {"kill_after": n_ext} if kind == "after" else {"kill_before": n_ext}
        res = execute(scen, dest0, trace, **kw)
        failed = res["outcome"] == "killed" and res["dest"] not in (dest0, "new")
        desc = (f"{scen}, destination initially {dest0}; external outcomes {res['log']}; process killed {kind} external "
                f"#{n_ext}: destination is now {res['dest']!r}")
    else:
        res = execute(scen, dest0, trace)
        if clause.startswith("normal-exit"):
            failed = not (res["dest"] == "new" and not res["leftovers"])
        elif "dest unchanged" in clause:
            failed = res["outcome"].startswith("raise") and res["dest"] not in (dest0,) and res["dest"] != "new" or \
                (res["outcome"].startswith("raise") and res["dest"] == "partial")
            failed = res["dest"] not in (dest0, "new") or (res["dest"] == "new" and dest0 != "new" and "Path.rename:ok" not in res["log"] and "Path.replace:ok" not in res["log"])
        elif "no temporary files" in clause:
            failed = bool(res["leftovers"])
        else:
            failed = not res["outcome"].startswith("raise")
        desc = (f"{scen}, destination initially {dest0}; external outcomes {res['log']}: outcome {res['outcome']}, "
                f"destination {res['dest']!r}, leftovers {res['leftovers']}")
    if res["diverged"]:
        return {"failed": False, "description": "native run diverged from the model trace: " + res["diverged"]}
    return {"failed": failed, "description": desc, "witness": {"scenario": scen, "dest0": dest0, "trace": trace, **res}}
