"""Native fault-injection harness for util.io.atomic_write: replays a sequence of external-call outcomes
(and an optional kill point) on the real code and the real file system, by monkeypatching inside this
process only.  Used (a) to replay counterexamples of the C19 proof tier and (b) by the bounded tier."""
from __future__ import annotations

import contextlib
import os
import pathlib
import shutil
import tempfile

OLD_TEXT = ">old\nAAAA\n"
NEW_TEXT = "NEWCONTENT\n"


class Kill(BaseException):
    """the process dies here: no further Python code of the writer runs"""


class Script:
    def __init__(self, trace, kill_after=None, kill_before=None):
        self.trace = [t.split(":", 1) if isinstance(t, str) else list(t) for t in trace]
        self.pos = 0
        self.kill_after = kill_after      # number of completed externals after which the process is killed
        self.kill_before = kill_before    # index of the external before which the process is killed
        self.diverged = None
        self.log = []
        self.inside = 0   # >0 while the real implementation of an intercepted call runs (it may call others)

    def next(self, name):
        if getattr(self, "killed", False):
            raise Kill()   # the process is dead: code that Python would still run (finally blocks) has no effect
        if self.kill_before is not None and self.pos == self.kill_before:
            self.killed = True
            raise Kill()
        if self.pos >= len(self.trace):
            self.log.append(f"{name}:ok(unscripted)")
            self.pos += 1
            return "ok"
        want, label = self.trace[self.pos]
        if want != name:
            self.diverged = f"external #{self.pos}: model expects {want}, real code calls {name}"
            label = "ok"
        self.pos += 1
        self.log.append(f"{name}:{label}")
        return label

    def done(self):
        if self.kill_after is not None and self.pos == self.kill_after:
            self.killed = True
            raise Kill()


class FileProxy:
    def __init__(self, real, script):
        self._real, self._script, self._closed = real, script, False

    def write(self, text):
        label = self._script.next("file.write")
        if label == "OSError":
            self._real.write(text[: len(text) // 2])
            self._real.flush()
            raise OSError("injected: write failed")
        r = self._real.write(text)
        self._script.done()
        return r

    def close(self):
        if self._closed:
            return
        label = self._script.next("file.close")
        if label == "OSError":
            raise OSError("injected: close failed")
        self._closed = True
        self._real.close()
        self._script.done()

    def __getattr__(self, k):
        return getattr(self._real, k)


@contextlib.contextmanager
def patched(script):
    import cogent3.util.io as cio
    orig = dict(unlink=pathlib.Path.unlink, rename=pathlib.Path.rename, replace=pathlib.Path.replace,
                rmtree=shutil.rmtree, os_unlink=os.unlink, open_=cio.open_)

    def real(fn, *a, **kw):
        script.inside += 1
        try:
            return fn(*a, **kw)
        finally:
            script.inside -= 1

    def unlink(self, missing_ok=False):
        if script.inside:
            return orig["unlink"](self, missing_ok=missing_ok)
        label = script.next("Path.unlink")
        if label == "PermissionError":
            raise PermissionError("injected")
        r = real(orig["unlink"], self, missing_ok=missing_ok)   # FileNotFoundError arises naturally
        script.done()
        return r

    def mk_move(which):
        def move(self, target):
            if script.inside:
                return orig[which](self, target)
            label = script.next(f"Path.{which}")
            if label == "OSError":
                raise OSError("injected")
            r = real(orig[which], self, target)
            script.done()
            return r
        return move

    def rmtree(path, ignore_errors=False, **kw):
        if script.inside:
            return orig["rmtree"](path, ignore_errors=ignore_errors, **kw)
        label = script.next("shutil.rmtree")
        if label == "OSError":
            raise OSError("injected")
        if label.startswith("silently"):
            return None
        r = real(orig["rmtree"], path, ignore_errors=ignore_errors, **kw)
        script.done()
        return r

    def os_unlink(path, *a, **kw):
        if script.inside:
            return orig["os_unlink"](path, *a, **kw)
        label = script.next("os.unlink")
        if label == "PermissionError":
            raise PermissionError("injected")
        r = real(orig["os_unlink"], path, *a, **kw)
        script.done()
        return r

    def open_(filename, mode="rt", **kw):
        if "w" not in mode or script.inside:
            return orig["open_"](filename, mode, **kw)
        label = script.next("open_")
        if label == "OSError":
            raise OSError("injected")
        f = FileProxy(real(orig["open_"], filename, mode, **kw), script)
        script.done()
        return f

    pathlib.Path.unlink, pathlib.Path.rename, pathlib.Path.replace = unlink, mk_move("rename"), mk_move("replace")
    shutil.rmtree, os.unlink, cio.open_ = rmtree, os_unlink, open_
    try:
        yield
    finally:
        pathlib.Path.unlink, pathlib.Path.rename, pathlib.Path.replace = orig["unlink"], orig["rename"], orig["replace"]
        shutil.rmtree, os.unlink, cio.open_ = orig["rmtree"], orig["os_unlink"], orig["open_"]


def run_scenario(scen, dest, script):
    from cogent3.util.io import atomic_write
    if scen.startswith("with/"):
        with atomic_write(dest, mode="w") as f:
            if scen == "with/body-raises-before-write":
                raise ValueError("body failed")
            if scen == "with/body-raises-after-partial-write":
                f.write(NEW_TEXT)
                raise ValueError("body failed")
            f.write(NEW_TEXT)
    elif scen == "write+close":
        w = atomic_write(dest, mode="w")
        w.write(NEW_TEXT)
        w.close()
    elif scen == "save_to_filename":
        import cogent3.format.alignment as fa
        from cogent3.parse.record import FileFormatError
        fmt = [t[1] for t in script.trace if t[0] == "formatter"]
        orig = fa.write_alignment_to_file

        def stub(f, alignment, format, **kw):  # the formatter's trusted contract, scripted
            how = fmt[0] if fmt else "ok"
            if how == "raises-before-write":
                raise FileFormatError("injected")
            f.write(NEW_TEXT)
            if how == "raises-after-write":
                raise ValueError("injected")
            f.close()
        script.trace = [t for t in script.trace if t[0] != "formatter"]
        fa.write_alignment_to_file = stub
        try:
            fa.save_to_filename({"a": "ACGT"}, dest, "fasta")
        finally:
            fa.write_alignment_to_file = orig
    else:
        raise ValueError(scen)


def execute(scen, dest0, trace, kill_after=None, kill_before=None):
    """returns dict(outcome, dest, leftovers, diverged, log)"""
    work = tempfile.mkdtemp(prefix="c19_")
    try:
        dest = pathlib.Path(work) / "out.txt"
        if dest0 == "old":
            dest.write_text(OLD_TEXT)
        script = Script(trace, kill_after, kill_before)
        outcome = "return"
        with patched(script):
            try:
                run_scenario(scen, dest, script)
            except Kill:
                outcome = "killed"
            except BaseException as e:
                outcome = f"raise {type(e).__name__}"
        content = dest.read_text() if dest.exists() else None
        state = "absent" if content is None else "old" if content == OLD_TEXT else "new" if content == NEW_TEXT else "partial"
        leftovers = sorted(str(p.relative_to(work)) for p in pathlib.Path(work).rglob("*") if p != dest)
        return {"outcome": outcome, "dest": state, "leftovers": leftovers, "diverged": script.diverged, "log": script.log}
    finally:
        shutil.rmtree(work, ignore_errors=True)


def replay_trace(scen, dest0, trace, clause, point=None):
    """replay a proof-tier counterexample; ``point`` = number of completed externals at the crash point"""
    trace = [t for t in trace]
    if clause.startswith("crash@"):
        kind = clause.split("@", 1)[1].split(":", 1)[0]
        n_ext = len([t for t in trace if not t.startswith("formatter")]) if point is None else point
        kw = {"kill_after": n_ext} if kind == "after" else {"kill_before": n_ext}
        res = execute(scen, dest0, trace, **kw)
        failed = res["outcome"] == "killed" and res["dest"] not in (dest0, "new")
        desc = (f"{scen}, destination initially {dest0}; external outcomes {res['log']}; process killed {kind} external "
                f"#{n_ext}: destination is now {res['dest']!r}")
    else:
        res = execute(scen, dest0, trace)
        if clause.startswith("normal-exit"):
            failed = not (res["dest"] == "new" and not res["leftovers"])
        elif "dest unchanged" in clause:
            failed = res["outcome"].startswith("raise") and res["dest"] not in (dest0,) and res["dest"] != "new" or \
                (res["outcome"].startswith("raise") and res["dest"] == "partial")
            failed = res["dest"] not in (dest0, "new") or (res["dest"] == "new" and dest0 != "new" and "Path.rename:ok" not in res["log"] and "Path.replace:ok" not in res["log"])
        elif "no temporary files" in clause:
            failed = bool(res["leftovers"])
        else:
            failed = not res["outcome"].startswith("raise")
        desc = (f"{scen}, destination initially {dest0}; external outcomes {res['log']}: outcome {res['outcome']}, "
                f"destination {res['dest']!r}, leftovers {res['leftovers']}")
    if res["diverged"]:
        return {"failed": False, "description": "native run diverged from the model trace: " + res["diverged"]}
    return {"failed": failed, "description": desc, "witness": {"scenario": scen, "dest0": dest0, "trace": trace, **res}}
