"""C14 helpers that must stay import-light: they are unpickled by reference inside loky worker processes
(bounded/C14.py, contracts `par_primitives` and `apply_parallel`).  No cogent3 import here."""
import os
import time


def wait_turn(mark_dir, me, pred, timeout=2.0, gap=0.012):
    """Completion-order barrier between worker processes.  The caller finishes only after the task `pred` has
    published its marker file in `mark_dir` (or after `timeout` seconds, so that an order the pool cannot realise
    degrades to "some other order" instead of a dead-lock), then publishes its own marker."""
    if not mark_dir:
        return
    if pred is not None:
        p = os.path.join(mark_dir, f"done-{pred}")
        t0 = time.time()
        while not os.path.exists(p) and time.time() - t0 < timeout:
            time.sleep(0.002)
        time.sleep(gap)
    try:
        with open(os.path.join(mark_dir, f"done-{me}"), "w"):
            pass
    except OSError:
        pass


def task_value(x):
    """the function of the task argument that the pool has to deliver (explicit formula, used by the spec too)"""
    return [x, x * x + 1, "v%d" % x]


def barrier_task(arg):
    """arg = [position, x, predecessor position or None, marker directory or None, seconds to sleep]"""
    pos, x, pred, mark_dir, secs = arg
    if secs:
        time.sleep(secs)
    wait_turn(mark_dir, pos, pred)
    return task_value(x)


def feasible_orders(n, w):
    """all completion orders (permutations of range(n)) a FIFO pool of w workers can realise: the task finishing
    k-th (0-based) must have been started, i.e. its position is < k + w"""
    out = []

    def rec(prefix, left):
        if not left:
            out.append(list(prefix))
            return
        k = len(prefix)
        for t in left:
            if t < k + w:
                rec(prefix + [t], [u for u in left if u != t])
    rec([], list(range(n)))
    return out


def preds_of(order):
    """order (list of positions in completion order) -> {position: predecessor position or None}"""
    return {t: (order[k - 1] if k else None) for k, t in enumerate(order)}
