"""function-defined apps constructed with a *mutable* option that the function modifies: every record must still be
processed as if it were the only one (the construction-time options belong to the app, not to the previous record).
No ``from __future__ import annotations``: define_app needs real type hints."""
from cogent3.app.composable import NotCompleted, define_app


@define_app
def add_defaults(rec: dict, defaults: dict = None) -> dict:
    defaults.update(rec)          # modifies the option it was given
    return dict(defaults)


@define_app
def tally(val: int, seen: list = None) -> int:
    seen.append(val)
    return 10 * len(seen) + val   # alone: 10 + val


@define_app
def to_int(val: str) -> int:
    return int(val)


DEFAULTS = {"colour": "red", "size": 1}
# (records are truthy on purpose: as_completed / apply_to skip empty identifiers by design -- _proxy_input -- and the
# property speaks about sets of inputs handed to a loader, not about raw falsy values)
RECORDS = [{"size": 5}, {"name": "b"}, {"colour": "blue", "extra": [1]}, {"size": 2}]
INTS = [3, 5, 7, 3]


def make(kind, how):
    if kind == "dict":
        opt = dict(DEFAULTS)
        return (add_defaults(defaults=opt) if how == "keyword" else add_defaults(opt)), RECORDS, (lambda r: {**DEFAULTS, **r}), opt, dict(DEFAULTS)
    opt = []
    app = tally(seen=opt) if how == "keyword" else tally(opt)
    return app, INTS, (lambda v: 10 + v), opt, []


def run(kind, how, mode, order):
    """-> list of (record, got, want) for every record, the option object after the run, its value before"""
    app, recs, spec, opt, before = make(kind, how)
    recs = list(recs) if order == "given" else list(reversed(recs))
    if mode == "calls":
        got = [app(r) for r in recs]
    elif mode == "as_completed":
        got = list(app.as_completed(recs, parallel=False, show_progress=False))
        got = [g if isinstance(g, NotCompleted) else getattr(g, "source", g) if False else g for g in got]
    elif mode == "composed":
        if kind != "list":
            return None
        capp = to_int() + app
        got = [capp(str(r)) for r in recs]
    else:
        raise ValueError(mode)
    return [(r, g, spec(r)) for r, g in zip(recs, got)], opt, before
