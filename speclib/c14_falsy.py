"""composed apps whose intermediate values are falsy but valid (0, empty list, empty dict, empty string): the composition
must treat them as completed values.  No ``from __future__ import annotations``: define_app needs real type hints."""
from cogent3.app.composable import NotCompleted, define_app


@define_app
def to_int(val: str) -> int:
    return int(val)


@define_app
def minus(val: int, k: int = 3) -> int:
    return val - k


@define_app
def times_plus(val: int, m: int = 2, c: int = 10) -> int:
    return val * m + c


@define_app
def as_list(val: int) -> list:
    return [val] * max(val, 0)


@define_app
def list_len(val: list) -> int:
    return len(val)


@define_app
def as_dict(val: int) -> dict:
    return {i: i for i in range(max(val, 0))}


@define_app
def dict_len(val: dict) -> int:
    return len(val)


PIPES = {
    "int": (lambda: to_int() + minus(k=3) + times_plus(m=2, c=10), lambda s: (int(s) - 3) * 2 + 10),
    "list": (lambda: to_int() + as_list() + list_len() + times_plus(m=1, c=5), lambda s: max(int(s), 0) + 5),
    "dict": (lambda: to_int() + minus(k=2) + as_dict() + dict_len(), lambda s: max(int(s) - 2, 0)),
}


def run(pipe, text):
    make, spec = PIPES[pipe]
    app = make()
    try:
        got = app(text)
    except Exception as e:
        return ("raises", f"{type(e).__name__}: {e}")
    want = spec(text)
    if isinstance(got, NotCompleted):
        return ("not-completed", f"{got}"[:160], want)
    return ("value", got, want)
