"""Throw-away probe: exception-flow symbolic execution of util/io.py atomic_write.__exit__ with a ghost file system."""
import ast, itertools, sys
ABSENT, OLD, NEW = "absent", "old", "new"
class Raise(Exception):
    def __init__(self, kind): self.kind = kind
class Kill(Exception): pass
src = open(sys.argv[1] if len(sys.argv) > 1 else "/repo/src/cogent3/util/io.py").read()
mod = ast.parse(src)
cls = [n for n in mod.body if isinstance(n, ast.ClassDef) and n.name == "atomic_write"][0]
funcs = {f.name: f for f in cls.body if isinstance(f, ast.FunctionDef)}
EXC_PARENTS = {"FileNotFoundError": ["OSError", "Exception"], "OSError": ["Exception"], "PermissionError": ["OSError", "Exception"]}
def matches(kind, handler_type):
    return handler_type is None or kind == handler_type or handler_type in EXC_PARENTS.get(kind, [])
class Run:
    """one execution under a fixed choice vector; choices decide outcome of each external call and kill point"""
    def __init__(self, choices, dest_initial, exc_in_body):
        self.choices = list(choices); self.pos = 0; self.trace = []
        self.fs = {"dest": dest_initial, "tmp": NEW, "tmpdir": "dir"}   # tmp already holds the full new content (written in with-body), flushed by close()
        self.exc_in_body = exc_in_body
        self.obligations = []
        self.nchoices = []
    def choose(self, n, label):
        if self.pos < len(self.choices): c = self.choices[self.pos]
        else: c = 0; self.choices.append(0)
        self.nchoices.append(n); self.pos += 1
        self.trace.append((label, c)); return c
    def crashpoint(self, label):
        ok = self.fs["dest"] in (self.dest0, NEW)
        self.obligations.append((f"crash@{label}", ok, dict(self.fs)))
    # trusted external contracts -------------------------------------------------
    def ext(self, name, recv, args):
        self.crashpoint(f"before:{name}")
        if name == "close":        # self._file.close(): flush; may raise OSError
            if self.choose(2, "close") == 1: raise Raise("OSError")
        elif name == "unlink":
            if self.fs[recv] == ABSENT: 
                self.crashpoint(f"after:{name}"); raise Raise("FileNotFoundError")
            if self.choose(2, "unlink") == 1: raise Raise("PermissionError")
            self.fs[recv] = ABSENT
        elif name in ("rename", "replace"):
            if self.choose(2, name) == 1: raise Raise("OSError")
            self.fs[args[0]] = self.fs[recv]; self.fs[recv] = ABSENT
        elif name == "rmtree":
            c = self.choose(2, "rmtree")
            if c == 1: raise Raise("OSError")
            self.fs["tmp"] = ABSENT; self.fs["tmpdir"] = ABSENT
        else: raise NotImplementedError(name)
        self.crashpoint(f"after:{name}")
    # interpreter -------------------------------------------------------------------
    def call(self, fname, env):
        try: self.block(funcs[fname].body, env)
        except StopIteration: pass
    def block(self, stmts, env):
        for s in stmts: self.stmt(s, env)
    def stmt(self, s, env):
        if isinstance(s, ast.Expr):
            if isinstance(s.value, ast.Constant): return
            self.eval(s.value, env); return
        if isinstance(s, ast.Assign):
            v = self.eval(s.value, env)
            for t in s.targets:
                if isinstance(t, ast.Name): env[t.id] = v
                elif isinstance(t, ast.Attribute): env["self"][t.attr] = v
            return
        if isinstance(s, ast.If):
            self.block(s.body if self.eval(s.test, env) else s.orelse, env); return
        if isinstance(s, ast.Pass): return
        if isinstance(s, ast.Try):
            try:
                try:
                    self.block(s.body, env)
                except Raise as r:
                    for h in s.handlers:
                        ht = h.type.id if h.type is not None else None
                        if matches(r.kind, ht):
                            self.block(h.body, env); break
                    else: raise
            finally:
                # python semantics: finally runs even when propagating; an exception in finally replaces
                self.block(s.finalbody, env)
            return
        raise NotImplementedError(ast.dump(s)[:80])
    def eval(self, e, env):
        if isinstance(e, ast.Constant): return e.value
        if isinstance(e, ast.Name): return env[e.id]
        if isinstance(e, ast.Compare) and isinstance(e.ops[0], ast.Is):
            return self.eval(e.left, env) is self.eval(e.comparators[0], env)
        if isinstance(e, ast.Attribute):
            o = self.eval(e.value, env)
            if isinstance(o, dict): return o[e.attr]
            if e.attr == "parent" and o == "tmp": return "tmpdir"
            raise NotImplementedError(e.attr)
        if isinstance(e, ast.Call):
            f = e.func
            if isinstance(f, ast.Name) and f.id == "Path": return self.eval(e.args[0], env)
            if isinstance(f, ast.Attribute):
                if isinstance(f.value, ast.Name) and f.value.id == "shutil" and f.attr == "rmtree":
                    return self.ext("rmtree", self.eval(e.args[0], env), [])
                recv = self.eval(f.value, env)
                if f.attr == "_close_func": return self.call(recv["_close_func_name"] if False else env["self"]["_close_func_name"], {"self": env["self"], "src": self.eval(e.args[0], env)})
                if isinstance(recv, str) and recv == "FILE" and f.attr == "close": return self.ext("close", recv, [])
                if isinstance(recv, str): return self.ext(f.attr, recv, [self.eval(a, env) for a in e.args])
            raise NotImplementedError(ast.dump(e)[:80])
        raise NotImplementedError(ast.dump(e)[:80])
def explore(dest_initial, exc_in_body):
    results = []; work = [[]]
    while work:
        ch = work.pop()
        r = Run(ch, dest_initial, exc_in_body); r.dest0 = dest_initial
        selfobj = {"_file": "FILE", "_tmppath": "tmp", "_path": "dest", "_close_func_name": "_close_rename_standard", "succeeded": None}
        outcome = "normal"
        try:
            r.call("__exit__", {"self": selfobj, "exc_type": ("Exc" if exc_in_body else None), "exc_val": None, "exc_tb": None})
        except Raise as ex: outcome = f"raises {ex.kind}"
        results.append((r.trace, outcome, dict(r.fs), r.obligations, selfobj["succeeded"]))
        for i in range(len(ch), len(r.choices)):
            for alt in range(1, r.nchoices[i]):
                work.append(r.choices[:i] + [alt])
    return results
tot = fails = 0
for dest_initial in (OLD, ABSENT):
    for exc in (False, True):
        for trace, outcome, fs, obls, succ in explore(dest_initial, exc):
            # crash invariant
            for name, ok, snap in obls:
                tot += 1
                if not ok: fails += 1; print(f"FAIL crash-invariant  dest0={dest_initial} body_exc={exc} path={trace} at {name} fs={snap}")
            tot += 1
            if outcome == "normal" and not exc:
                ok = fs["dest"] == NEW and fs["tmp"] == ABSENT and fs["tmpdir"] == ABSENT
                if not ok: fails += 1; print(f"FAIL normal-exit post dest0={dest_initial} path={trace} fs={fs}")
            else:
                cleanup_failed = any(l == "rmtree" and c == 1 for l, c in trace)
                ok = fs["dest"] == dest_initial and (cleanup_failed or (fs["tmp"] == ABSENT and fs["tmpdir"] == ABSENT))
                if not ok: fails += 1; print(f"FAIL handled-failure post dest0={dest_initial} body_exc={exc} outcome={outcome} path={trace} fs={fs}")
print("obligations", tot, "failed", fails)
