import z3, time
# forward slice from forward view, slice_start>=0, 0<=slice_stop branch etc: check full function symbolically by hand
I = z3.Int
start, stop, step, L = I('start'), I('stop'), I('step'), I('L')
a, b, c = I('a'), I('b'), I('c')   # slice start/stop (not None), step>0
def fdiv(x, d, name, cons):
    q, r = I('q_'+name), I('r_'+name)
    cons += [x == q*d + r, z3.If(d>0, z3.And(0<=r, r<d), z3.And(d<r, r<=0))]
    return q
cons=[]
inv = z3.And(0<=start, start<stop, stop<=L, step>=1)   # nonempty forward view
n = I('n'); cons += [n>=1, (n-1)*step < stop-start, stop-start <= n*step]  # n = ceil((stop-start)/step)
cons += [c>=1, a != b]
# code
lenself = n
st = z3.If(a>=0, start + a*step, z3.If(start + lenself*step + a*step >= start, start + lenself*step + a*step, start))
sp = z3.If(b>stop, stop, z3.If(b>=0, start + b*step, start + lenself*step + b*step))
zero = z3.Or(st<0, sp<0, sp<st, st>L)
rs, re_, rstep = st, z3.If(stop<sp, stop, sp), step*c
# then constructor _input_vals_pos_step(L, rs, re_, rstep) with rs>=0, re_>=0
# simplified: start>0 and start>=L -> empty ; stop = min(L, stop) if stop>0 ; if start>=stop -> empty
empty2 = z3.Or(z3.And(rs>0, rs>=L), rs >= z3.If(re_>0, z3.If(L<re_, L, re_), re_))
fe = z3.If(re_>0, z3.If(L<re_, L, re_), re_)
res_empty = z3.Or(zero, empty2)
# spec: python indices
a1 = z3.If(a<0, z3.If(a+n<0, 0, a+n), z3.If(a>n, n, a))
b1 = z3.If(b<0, z3.If(b+n<0, 0, b+n), z3.If(b>n, n, b))
m = I('m')
spec_m = z3.If(b1<=a1, m==0, z3.And(m>=1, (m-1)*c < b1-a1, b1-a1 <= m*c))
cons.append(spec_m)
# result length
rn = I('rn')
res_len = z3.If(res_empty, rn==0, z3.And(rn>=1, (rn-1)*rstep < fe-rs, fe-rs <= rn*rstep))
cons.append(res_len)
goal = z3.And(rn==m, z3.Implies(m>0, rs == start + a1*step))
for tac in ['default','qfnia']:
    s = z3.Solver() if tac=='default' else z3.SolverFor('QF_NIA')
    s.set('timeout', 120000)
    s.add(inv, *cons, z3.Not(goal))
    t=time.time(); r=s.check(); print(tac, r, round(time.time()-t,2))
    if r==z3.sat: print(s.model())
