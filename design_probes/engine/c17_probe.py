import re, itertools, z3
from cogent3.core.annotation_db import _matching_conditions
S0, E0 = 1000003, 1000033
rs, re_, S, E = z3.Ints("rs re S E")
def parse(sql):
    # tiny parser: tokens ( ) AND OR comparisons
    toks = re.findall(r"\(|\)|AND|OR|<=|>=|<|>|=|\w+", sql)
    pos = 0
    def atom():
        nonlocal pos
        t = toks[pos]
        if t == "(":
            pos += 1; e = expr(); assert toks[pos] == ")"; pos += 1; return e
        l = term(); op = toks[pos]; pos += 1; r = term()
        return {"<=": l <= r, ">=": l >= r, "<": l < r, ">": l > r, "=": l == r}[op]
    def term():
        nonlocal pos
        t = toks[pos]; pos += 1
        if t == "start": return rs
        if t == "stop": return re_
        if t == str(S0): return S
        if t == str(E0): return E
        raise ValueError(t)
    def conj():
        nonlocal pos
        e = atom()
        while pos < len(toks) and toks[pos] == "AND":
            pos += 1; e = z3.And(e, atom())
        return e
    def expr():
        nonlocal pos
        e = conj()
        while pos < len(toks) and toks[pos] == "OR":
            pos += 1; e = z3.Or(e, conj())
        return e
    e = expr(); assert pos == len(toks), (toks, pos); return e
def prove(name, f, spec, hyps):
    s = z3.Solver(); s.add(*hyps, f != spec)
    r = s.check(); print(name, "->", "proved" if r == z3.unsat else (r, s.model()))
for has_s, has_e, partial in itertools.product([0,1],[0,1],[0,1]):
    cond = {}
    if has_s: cond["start"] = S0
    if has_e: cond["stop"] = E0
    sql, vals = _matching_conditions(dict(cond), allow_partial=bool(partial))
    print((has_s, has_e, partial), repr(sql), vals)
    if not sql: continue
    f = parse(sql)
    if has_s and has_e:
        spec = z3.And(rs < E, re_ > S) if partial else z3.And(S <= rs, re_ <= E)
        prove("  rs<re,S<E", f, spec, [rs < re_, S < E])
        prove("  rs<=re,S<E", f, spec, [rs <= re_, S < E])
        prove("  rs<=re,S<=E", f, spec, [rs <= re_, S <= E])
    elif has_s:
        prove("  start only", f, z3.And(rs <= S, S < re_), [])
    else:
        prove("  stop only", f, z3.And(rs <= E, E < re_), [])
