"""Throw-away feasibility prototype: AST -> z3 path-based symbolic executor for the
integer subset used by SliceRecordABC. NOT the framework."""
import ast, itertools, time, sys
import z3

class Raise(Exception):
    def __init__(self, kind): self.kind = kind
class Return(Exception):
    def __init__(self, val): self.val = val
class Unsupported(Exception): pass

class View:  # symbolic record
    def __init__(self, start, stop, step, offset, seq_len, tag="view"):
        self.start, self.stop, self.step, self.offset, self.seq_len = start, stop, step, offset, seq_len
        self.tag = tag
class Slice:
    def __init__(self, start, stop, step): self.start, self.stop, self.step = start, stop, step

_fresh = itertools.count()
def fresh(prefix): return z3.Int(f"{prefix}!{next(_fresh)}")

def is_linear(e):
    if z3.is_app(e):
        if e.decl().kind() == z3.Z3_OP_MUL:
            nonconst = [a for a in e.children() if not z3.is_int_value(a) and not z3.is_rational_value(a)]
            if len(nonconst) > 1: return False
        if e.decl().kind() in (z3.Z3_OP_IDIV, z3.Z3_OP_MOD, z3.Z3_OP_DIV):
            if not z3.is_int_value(e.children()[1]): return False
        return all(is_linear(c) for c in e.children())
    return True
def is_sym(v): return isinstance(v, z3.ExprRef)
def to_z3b(v):
    if isinstance(v, bool): return z3.BoolVal(v)
    if is_sym(v):
        if z3.is_bool(v): return v
        return v != 0
    if isinstance(v, int): return z3.BoolVal(v != 0)
    if v is None: return z3.BoolVal(False)
    if isinstance(v, View): raise Unsupported("truth of view outside handler")
    raise Unsupported(f"truth of {v!r}")

class Path:
    def __init__(self, pc=None): self.pc = list(pc or [])
    def copy(self): return Path(self.pc)

class Exec:
    def __init__(self, funcs, solver_timeout=20000):
        self.funcs = funcs  # name -> ast.FunctionDef
        self.paths_done = []
        self.timeout = solver_timeout
        self.nforks = 0
    # ---- branching: we run the whole function once per "decision vector" (replay-style forking)
    def run(self, fname, args, base_pc):
        """enumerate all feasible paths of funcs[fname](**args); yields (pc, outcome)"""
        results = []
        work = [[]]  # list of decision prefixes
        while work:
            prefix = work.pop()
            self.decisions = list(prefix); self.dpos = 0; self.run_id = object()
            self.path = Path(base_pc)
            self.new_branches = []
            try:
                out = ("return", self.call(fname, args))
            except Raise as r:
                out = ("raise", r.kind)
            results.append((self.path.pc, out))
            import sys, time as _t
            if len(results) % 50 == 0: print("path", len(results), "forks", self.nforks, "pending", len(work) + len(self.new_branches), "depth", len(self.decisions), out[0], round(_t.time() % 1000, 1), file=sys.stderr, flush=True)
            for nb in self.new_branches:
                work.append(nb)
        return results
    def feasible(self, extra):
        s = z3.SolverFor("QF_LIA"); s.set("timeout", 250)
        for c in self.path.pc + [extra]:
            if is_linear(c): s.add(c)
        return s.check() != z3.unsat
    def branch(self, cond):
        """decide symbolic condition; returns python bool, records in path"""
        if isinstance(cond, bool): return cond
        cond = z3.simplify(cond)
        if z3.is_true(cond): return True
        if z3.is_false(cond): return False
        if self.dpos < len(self.decisions):
            d = self.decisions[self.dpos]; self.dpos += 1
        else:
            ft = self.feasible(cond); ff = self.feasible(z3.Not(cond))
            if ft and ff:
                self.new_branches.append(self.decisions + [False])
                d = True
            elif ft: d = True
            elif ff: d = False
            else: d = True  # infeasible path anyway
            self.decisions.append(d); self.dpos += 1
            self.nforks += 1
        self.path.pc.append(cond if d else z3.Not(cond))
        return d
    # ---- python int semantics
    def floordiv(self, x, d):
        if not is_sym(d) and not is_sym(x): return x // d
        if not is_sym(d) and d > 0: return x / d if is_sym(x) else x // d
        q, r = fresh("q"), fresh("r")
        self.path.pc.append(x == q * d + r)
        self.path.pc.append(z3.If(d > 0, z3.And(0 <= r, r < d), z3.And(d < r, r <= 0)))
        # sign lemmas (implied; linear; make linear-relaxation pruning effective)
        self.path.pc.append(z3.Implies(z3.And(d > 0, x >= 0), q >= 0))
        self.path.pc.append(z3.Implies(z3.And(d > 0, x < 0), q < 0))
        self.path.pc.append(z3.Implies(z3.And(d < 0, x > 0), q < 0))
        self.path.pc.append(z3.Implies(z3.And(d < 0, x <= 0), q >= 0))
        return q
    def mod(self, x, d):
        q = self.floordiv(x, d)
        return x - q * d
    # ---- calls
    def call(self, fname, args):
        if fname == "__len__":
            v = args["self"]
            if getattr(v, "_len_cache_run", None) is self.run_id and hasattr(v, "_len_cache"):
                return v._len_cache
            r = self._call(fname, args); v._len_cache = r; v._len_cache_run = self.run_id
            return r
        return self._call(fname, args)
    def _call(self, fname, args):
        fn = self.funcs[fname]
        env = dict(args)
        # defaults
        a = fn.args
        names = [x.arg for x in a.args]
        defaults = a.defaults
        for n, dflt in zip(names[len(names)-len(defaults):], defaults):
            if n not in env: env[n] = self.eval(dflt, {})
        try:
            self.block(fn.body, env)
        except Return as r:
            return r.val
        return None
    def block(self, stmts, env):
        for s in stmts: self.stmt(s, env)
    def stmt(self, s, env):
        if isinstance(s, ast.Expr):
            if isinstance(s.value, ast.Constant): return  # docstring
            self.eval(s.value, env); return
        if isinstance(s, ast.Return):
            raise Return(self.eval(s.value, env) if s.value else None)
        if isinstance(s, ast.Assign):
            v = self.eval(s.value, env)
            for t in s.targets: self.assign(t, v, env)
            return
        if isinstance(s, ast.AugAssign):
            cur = self.eval(s.target, env); v = self.eval(s.value, env)
            self.assign(s.target, self.binop(s.op, cur, v), env); return
        if isinstance(s, ast.If):
            c = self.truth(self.eval(s.test, env))
            self.block(s.body if c else s.orelse, env); return
        if isinstance(s, ast.Raise):
            kind = s.exc.func.id if isinstance(s.exc, ast.Call) else getattr(s.exc, "id", "?")
            raise Raise(kind)
        if isinstance(s, ast.Assert):
            c = self.truth(self.eval(s.test, env))
            if not c: raise Raise("AssertionError")
            return
        raise Unsupported(ast.dump(s)[:80])
    def assign(self, t, v, env):
        if isinstance(t, ast.Name): env[t.id] = v
        elif isinstance(t, ast.Tuple):
            assert isinstance(v, tuple) and len(v) == len(t.elts)
            for tt, vv in zip(t.elts, v): self.assign(tt, vv, env)
        else: raise Unsupported("assign target")
    def truth(self, v):
        if isinstance(v, View):
            # bool(view) -> len(view) != 0
            n = self.call("__len__", {"self": v})
            return self.branch(n != 0)
        if v is None: return False
        if isinstance(v, bool): return v
        if isinstance(v, int): return v != 0
        return self.branch(to_z3b(v))
    def binop(self, op, l, r):
        if isinstance(op, ast.Add): return l + r
        if isinstance(op, ast.Sub): return l - r
        if isinstance(op, ast.Mult): return l * r
        if isinstance(op, ast.FloorDiv): return self.floordiv(l, r)
        if isinstance(op, ast.Mod): return self.mod(l, r)
        raise Unsupported("binop")
    def cmp(self, op, l, r):
        if isinstance(op, (ast.Is, ast.IsNot)):
            res = (l is r) if (l is None or r is None) else None
            if res is None: res = z3.Bool(f"ident!{next(_fresh)}")  # identity of two non-None values: unconstrained
            if is_sym(res): return res if isinstance(op, ast.Is) else z3.Not(res)
            return res if isinstance(op, ast.Is) else not res
        if l is None or r is None:
            if isinstance(op, ast.Eq): return l is r
            if isinstance(op, ast.NotEq): return l is not r
            raise Raise("TypeError")
        if isinstance(op, ast.Lt): return l < r
        if isinstance(op, ast.LtE): return l <= r
        if isinstance(op, ast.Gt): return l > r
        if isinstance(op, ast.GtE): return l >= r
        if isinstance(op, ast.Eq): return l == r
        if isinstance(op, ast.NotEq): return l != r
        raise Unsupported("cmp")
    def eval(self, e, env):
        if isinstance(e, ast.Constant): return e.value
        if isinstance(e, ast.Name):
            if e.id in env: return env[e.id]
            raise Unsupported(f"name {e.id}")
        if isinstance(e, ast.Tuple): return tuple(self.eval(x, env) for x in e.elts)
        if isinstance(e, ast.UnaryOp):
            v = self.eval(e.operand, env)
            if isinstance(e.op, ast.USub): return -v
            if isinstance(e.op, ast.Not):
                return not self.truth(v)
            raise Unsupported("unary")
        if isinstance(e, ast.BinOp):
            return self.binop(e.op, self.eval(e.left, env), self.eval(e.right, env))
        if isinstance(e, ast.BoolOp):
            # short circuit with forking
            if isinstance(e.op, ast.And):
                v = True
                for x in e.values:
                    v = self.eval(x, env)
                    if not self.truth(v): return False
                return True
            else:
                for x in e.values:
                    v = self.eval(x, env)
                    if self.truth(v): return True
                return False
        if isinstance(e, ast.Compare):
            left = self.eval(e.left, env)
            for op, rt in zip(e.ops, e.comparators):
                right = self.eval(rt, env)
                c = self.cmp(op, left, right)
                if not self.truth(c): return False
                left = right
            return True
        if isinstance(e, ast.IfExp):
            return self.eval(e.body if self.truth(self.eval(e.test, env)) else e.orelse, env)
        if isinstance(e, ast.NamedExpr):
            v = self.eval(e.value, env); env[e.target.id] = v; return v
        if isinstance(e, ast.Attribute):
            obj = self.eval(e.value, env)
            return self.getattr(obj, e.attr)
        if isinstance(e, ast.Call): return self.evalcall(e, env)
        raise Unsupported(ast.dump(e)[:80])
    def getattr(self, obj, attr):
        if isinstance(obj, Slice): return getattr(obj, attr)
        if isinstance(obj, View):
            if attr in ("start", "stop", "step", "seq_len"): return getattr(obj, attr)
            if attr in ("offset", "_offset"): return obj.offset
            if attr == "is_reversed": return self.call("is_reversed", {"self": obj})
            if attr in ("parent_start", "parent_stop"): return self.call(attr, {"self": obj})
            if attr == "_zero_slice": return self.construct(obj, start=None, stop=None, step=None, zero=True)
            if attr == "__class__": return ("ctor", obj)
        raise Unsupported(f"attr {attr}")
    def pymax(self, a, b):
        if not is_sym(a) and not is_sym(b): return max(a, b)
        return z3.If(a >= b, a, b)
    def pymin(self, a, b):
        if not is_sym(a) and not is_sym(b): return min(a, b)
        return z3.If(a <= b, a, b)
    def evalcall(self, e, env):
        f = e.func
        args = [self.eval(a, env) for a in e.args]
        kw = {k.arg: self.eval(k.value, env) for k in e.keywords if k.arg is not None}
        if isinstance(f, ast.Name):
            n = f.id
            if n == "abs":
                (v,) = args
                if not is_sym(v): return abs(v)
                return z3.If(v >= 0, v, -v)
            if n == "max":
                r = args[0]
                for a in args[1:]: r = self.pymax(r, a)
                return r
            if n == "min":
                r = args[0]
                for a in args[1:]: r = self.pymin(r, a)
                return r
            if n == "len":
                (v,) = args
                if isinstance(v, View): return self.call("__len__", {"self": v})
            if n == "_is_int":
                (v,) = args
                return not isinstance(v, Slice)
            if n == "IndexError" or n == "ValueError": return ("exc", n)
            if n in self.funcs:
                fn = self.funcs[n]; names = [x.arg for x in fn.args.args]
                return self.call(n, dict(zip(names, args)) | kw)
            raise Unsupported(f"call {n}")
        if isinstance(f, ast.Attribute):
            obj = self.eval(f.value, env)
            if isinstance(obj, View):
                m = f.attr
                if m == "_get_init_kwargs": return {}
                if m == "__class__":
                    return self.construct(obj, **{k: v for k, v in kw.items() if k in ("start", "stop", "step")})
                if m == "copy": return self.construct(obj, start=obj.start, stop=obj.stop, step=obj.step)
                if m in self.funcs:
                    fn = self.funcs[m]; names = [x.arg for x in fn.args.args][1:]
                    return self.call(m, {"self": obj} | dict(zip(names, args)) | kw)
            if isinstance(obj, tuple) and obj and obj[0] == "ctor":
                return self.construct(obj[1], **{k: v for k, v in kw.items() if k in ("start", "stop", "step")})
            raise Unsupported(f"method {f.attr}")
        raise Unsupported("call form")
    def construct(self, proto, start=None, stop=None, step=None, zero=False):
        """model of SeqView.__init__: real code: step==0 -> ValueError; step None->1; dispatch to _input_vals_*"""
        seq_len = 0 if zero else proto.seq_len   # _zero_slice is cls(seq="")
        if step is not None and self.truth(self.cmp(ast.Eq(), step, 0)): raise Raise("ValueError")
        step = 1 if step is None else step
        f = "_input_vals_pos_step" if self.truth(step > 0) else "_input_vals_neg_step"
        s, e, st = self.call(f, {"seqlen": seq_len, "start": start, "stop": stop, "step": step})
        return View(s, e, st, 0 if zero else proto.offset, seq_len)

def load(path, clsname):
    src = open(path).read()
    mod = ast.parse(src)
    funcs = {}
    for node in mod.body:
        if isinstance(node, ast.FunctionDef) and node.name.startswith("_input_vals"):
            funcs[node.name] = node
        if isinstance(node, ast.ClassDef) and node.name == clsname:
            for x in node.body:
                if isinstance(x, ast.FunctionDef):
                    if any(isinstance(d, ast.Attribute) and d.attr == "setter" for d in x.decorator_list): continue
                    funcs[x.name] = x
    return funcs
