import z3, time
R = z3.RealSort(); I = z3.IntSort()
res = z3.Array("res", I, z3.ArraySort(I, R))     # res[p][m]
L = z3.Function("L", I, I, I, R)                 # L(child, col, motif)
Ix = z3.Function("Ix", I, I, I)                  # index[child][p]
P = z3.Function("P", I, I, I, R)                 # spec product over first k children
k, j, t, H, W = z3.Ints("k j t H W")
p, m = z3.Ints("p m")
def cell(a, p, m): return z3.Select(z3.Select(a, p), m)
ax = z3.ForAll([k, p, m], z3.Implies(k >= 1, P(k + 1, p, m) == P(k, p, m) * L(k, Ix(k, p), m)), patterns=[P(k + 1, p, m)])
def inv(a, j, t):
    return z3.ForAll([p, m], z3.Implies(z3.And(0 <= p, p < H, 0 <= m, m < W),
        cell(a, p, m) == z3.If(z3.Or(p < j, z3.And(p == j, m < t)), P(k + 1, p, m), P(k, p, m))))
# inner loop body at (j,t): result[j,t] *= plhs[child_col, t]
new = z3.Store(res, j, z3.Store(z3.Select(res, j), t, cell(res, j, t) * L(k, Ix(k, j), t)))
s = z3.Solver(); s.set("timeout", 60000)
s.add(ax, k >= 1, 0 <= j, j < H, 0 <= t, t < W, inv(res, j, t), z3.Not(inv(new, j, t + 1)))
t0 = time.time(); print("preserve inner:", s.check(), round(time.time() - t0, 2))
# exit of inner loop -> middle invariant at j+1: inv(res, j, W) == inv(res, j+1, 0)
s = z3.Solver(); s.set("timeout", 60000)
s.add(ax, k >= 1, 0 <= j, j < H, W >= 0, inv(res, j, W), z3.Not(inv(res, j + 1, 0)))
t0 = time.time(); print("inner exit -> middle:", s.check(), round(time.time() - t0, 2))
# mutant: uses Ix(k, t) instead of Ix(k, j) -> should be sat/unknown
newm = z3.Store(res, j, z3.Store(z3.Select(res, j), t, cell(res, j, t) * L(k, Ix(k, t), t)))
s = z3.Solver(); s.set("timeout", 20000)
s.add(ax, k >= 1, 0 <= j, j < H, 0 <= t, t < W, inv(res, j, t), z3.Not(inv(newm, j, t + 1)))
t0 = time.time(); r = s.check(); print("mutant:", r, round(time.time() - t0, 2))
