import sys, time, itertools, ast
import z3
from symex_lin import *

path = sys.argv[1] if len(sys.argv) > 1 else "/repo/src/cogent3/core/sequence.py"
funcs = load(path, "SliceRecordABC")

def ceil_len_constraints(n, span, stride):
    """n == ceil(span/stride) for span>=0... spec-level: n>=0, (n-1)*stride < span <= n*stride (stride>0)"""
    return z3.And(n >= 0, z3.If(span <= 0, n == 0, z3.And((n - 1) * stride < span, span <= n * stride)))

def inv_and_den(v, L, n):
    """returns (Inv, first, stride, lenconstraint)"""
    fwd = z3.And(v.step > 0, z3.Or(z3.And(v.start == 0, v.stop == 0, v.step == 1), z3.And(0 <= v.start, v.start < v.stop, v.stop <= L)))
    rev = z3.And(v.step < 0, -L - 1 <= v.stop, v.stop <= v.start, v.start <= -1, z3.Implies(v.stop < v.start, v.start >= -L))
    inv = z3.And(L >= 0, v.seq_len == L, z3.Or(fwd, rev))
    first = z3.If(v.step > 0, v.start, L + v.start)
    lenc = z3.If(v.step > 0, ceil_len_constraints(n, v.stop - v.start, v.step), ceil_len_constraints(n, v.start - v.stop, -v.step))
    return inv, first, lenc

def py_indices(a, b, c, n):
    """CPython PySlice_AdjustIndices; a,b None or z3 ints, c z3 int (nonzero)"""
    neg = c < 0
    if a is None: a1 = z3.If(neg, n - 1, 0)
    else:
        a_ = z3.If(a < 0, a + n, a)
        a1 = z3.If(a < 0, z3.If(a_ < 0, z3.If(neg, -1, 0), a_), z3.If(a >= n, z3.If(neg, n - 1, n), a))
    if b is None: b1 = z3.If(neg, -1, n)
    else:
        b_ = z3.If(b < 0, b + n, b)
        b1 = z3.If(b < 0, z3.If(b_ < 0, z3.If(neg, -1, 0), b_), z3.If(b >= n, z3.If(neg, n - 1, n), b))
    return a1, b1

import multiprocessing as mp
def run_config(cfg):
    nonecombo, direction, csign = cfg
    tot_paths = tot_obl = 0; failures = []
    if True:
        L, off = z3.Int("L"), z3.Int("off")
        v = View(z3.Int("vstart"), z3.Int("vstop"), z3.Int("vstep"), off, L)
        n = z3.Int("n")
        inv, first, lenc = inv_and_den(v, L, n)
        a = None if nonecombo[0] else z3.Int("a")
        b = None if nonecombo[1] else z3.Int("b")
        c = None if nonecombo[2] else z3.Int("c")
        base = [inv, lenc, off >= 0]
        if direction == "fwd": base.append(z3.And(v.step > 0, v.start < v.stop))
        elif direction == "rev": base.append(z3.And(v.step < 0, v.stop < v.start))
        elif direction == "emptyf": base.append(z3.And(v.step > 0, v.start == v.stop))
        else: base.append(z3.And(v.step < 0, v.start == v.stop))
        if c is not None: base.append(c > 0 if csign > 0 else c < 0)
        elif csign < 0: return cfg, 0, 0, [], 0.0
        ex = Exec(funcs)
        t0 = time.time()
        res = ex.run("__getitem__", {"self": v, "segment": Slice(a, b, c)}, base)
        cc = z3.IntVal(1) if c is None else c
        a1, b1 = py_indices(a, b, cc, n)
        m = z3.Int("m")
        mspec = z3.If(cc > 0, ceil_len_constraints(m, b1 - a1, cc), ceil_len_constraints(m, a1 - b1, -cc))
        for pc, (kind, val) in res:
            tot_paths += 1
            s = z3.SolverFor("QF_NIA"); s.set("timeout", 30000)
            s.add(*pc)
            if s.check() == z3.unsat: continue  # infeasible path
            if kind == "raise":
                goal = z3.BoolVal(False)   # no exception allowed for c != 0
                rn = None
            else:
                r = val
                rn = z3.Int("rn")
                rinv, rfirst, rlenc = inv_and_den(r, r.seq_len if not is_sym(r.seq_len) else r.seq_len, rn)
                # result view may be a zero slice with seq_len 0; Inv relative to its own seq_len
                Lr = r.seq_len
                rinv2, rfirst2, rlenc2 = inv_and_den(r, Lr if is_sym(Lr) else z3.IntVal(Lr), rn)
                s.add(rlenc2)
                goal = z3.And(rinv2, rn == m, z3.Implies(m > 0, z3.And(rfirst2 == first + a1 * v.step, r.step == v.step * cc, r.seq_len == L, r.offset == off)))
            s.add(mspec)
            s.add(z3.Not(goal))
            tot_obl += 1
            t1 = time.time()
            rr = s.check()
            dt = time.time() - t1
            if rr != z3.unsat:
                import os
                fn = f"/root/scratch/proto/q_{os.getpid()}_{tot_obl}.smt2"
                open(fn, "w").write("(set-logic QF_NIA)\n" + s.to_smt2())
                failures.append((nonecombo, kind, rr, dt, s.model() if rr == z3.sat else None))
    return cfg, tot_paths, tot_obl, [(str(f[0]), f[1], str(f[2]), f[3], str(f[4])) for f in failures], time.time() - t0

if __name__ == "__main__":
    t00 = time.time()
    cfgs = [(nc, d, cs) for nc in itertools.product([False, True], repeat=3) for d in ("fwd", "rev", "emptyf", "emptyr") for cs in (1, -1)]
    tp = to = 0; fails = []
    with mp.Pool(16) as pool:
        for cfg, p, o, f, dt in pool.imap_unordered(run_config, cfgs):
            print(cfg, "paths", p, "obl", o, "fail", len(f), "t=%.1f" % dt, flush=True)
            tp += p; to += o; fails += f
    print("TOTAL paths", tp, "obligations", to, "failures", len(fails), "wall %.1f" % (time.time() - t00))
    for f in fails[:10]: print(f)
