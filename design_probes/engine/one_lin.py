import time
from drive_lin import run_config
t=time.time()
cfg, p, o, f, dt = run_config(((False, False, False), 'rev', -1))
print(cfg, "paths", p, "obl", o, "fail(in-process)", len(f), round(time.time()-t,1))
