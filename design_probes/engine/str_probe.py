import z3, time
r, u = z3.Strings('r u')
mid = z3.Concat(z3.StringVal("not_completed/"), r, z3.StringVal(".json"))
s = z3.Solver(); s.set('timeout', 30000)
s.add(z3.Length(r)>0, z3.Length(u)>0, z3.Not(z3.Contains(r, z3.StringVal("/"))), z3.Not(z3.Contains(u, z3.StringVal("/"))))
s.add(z3.SuffixOf(z3.Concat(u, z3.StringVal(".json")), mid), r != u)
t=time.time(); print(s.check(), round(time.time()-t,2)); print(s.model())
# fixed predicate: Path(m.unique_id).name == u + ".json"  -> r == u : prove
s2 = z3.Solver(); s2.set('timeout',30000)
s2.add(z3.Concat(r, z3.StringVal(".json")) == z3.Concat(u, z3.StringVal(".json")), r != u)
t=time.time(); print(s2.check(), round(time.time()-t,2))
