import itertools, collections, traceback
import numpy
from cogent3 import make_seq
from cogent3.core.location import IndelMap
bad = collections.defaultdict(list); n = 0
def mk(g):
    s = make_seq(g.replace("x","A"), moltype="dna")
    m, ungapped = s.parse_out_gaps()
    return m, ungapped
def gapped_of(m, seqstr):
    out = []
    for sp in m.spans:
        if sp.lost: out.append("-"*sp.length)
        else: out.append(seqstr[sp.start:sp.end])
    return "".join(out)
for L in range(0, 8):
    for g in map("".join, itertools.product("x-", repeat=L)):
        try:
            m, u = mk(g)
        except Exception as e:
            bad["parse:"+type(e).__name__].append(g); continue
        su = "".join(chr(97+i) for i in range(len(u)))
        gs = gapped_of(m, su)   # gapped string with distinct letters
        n += 1
        if len(m) != L or len(gs) != L: bad["len"].append((g, len(m)))
        # index conversions
        seqidx = [None if c == "-" else su.index(c) for c in gs]
        for i, c in enumerate(gs):
            try:
                si = m.get_seq_index(i)
                exp = su.index(c) if c != "-" else sum(1 for z in gs[:i] if z != "-")
                if si != exp: bad["get_seq_index"].append((g, i, si, exp))
            except Exception as e: bad["get_seq_index:"+type(e).__name__].append((g,i))
        for k in range(len(su)):
            try:
                ai = m.get_align_index(k)
                if ai != gs.index(su[k]): bad["get_align_index"].append((g, k, ai))
            except Exception as e: bad["get_align_index:"+type(e).__name__].append((g,k))
        for a in range(0, L+1):
            for b in range(a, L+1):
                try:
                    sub = m[a:b]
                    sa, sb = m.get_seq_index(a), m.get_seq_index(b) if b < L else len(su)
                    exp = gs[a:b]
                    subseq = "".join(c for c in exp if c != "-")
                    got = gapped_of(sub, subseq)
                    if got != exp or len(sub) != len(exp) or sub.parent_length != len(subseq):
                        bad["slice"].append((g, a, b, got, exp, sub.parent_length))
                except Exception as e:
                    bad["slice:"+type(e).__name__].append((g, a, b))
        # nucleic_reversed
        try:
            r = m.nucleic_reversed()
            got = gapped_of(r, su[::-1]); 
            if got != gs[::-1]: bad["nucleic_reversed"].append((g, got, gs[::-1]))
        except Exception as e: bad["nucrev:"+type(e).__name__].append(g)
print("maps", n, {k: len(v) for k, v in bad.items()})
for k, v in bad.items(): print(k, v[:4])
