import itertools, collections
from cogent3.core import genetic_code as old, new_genetic_code as new
bad = collections.defaultdict(list)
bases = "TCAG"
olds = {gc.ID: gc for gc in old.GeneticCodes.values()} if hasattr(old, "GeneticCodes") else {}
print("old ids", sorted(set(k for k in olds if isinstance(k,int))))
news = {}
for row in new.code_mapping:
    news[row[1]] = new.get_code(row[1])
print("new ids", sorted(news))
comp = str.maketrans("ACGT", "TGCA")
for gid, n in news.items():
    table = [r for r in new.code_mapping if r[1] == gid][0][0]
    o = old.get_code(gid)
    for i, c in enumerate(map("".join, itertools.product(bases, repeat=3))):
        aa = table[i]
        if n[c] != aa: bad["new.getitem"].append((gid, c))
        if o[c] != aa: bad["old.getitem"].append((gid, c, o[c], aa))
        if n.translate(c) != aa: bad["new.translate"].append((gid, c))
        if o.translate(c) != aa: bad["old.translate"].append((gid, c))
        rc = c.translate(comp)[::-1]
        if n.translate(rc, rc=True) != aa: bad["new.translate.rc"].append((gid, c, n.translate(rc, rc=True), aa))
    # sequences any length mod 3, frames
    for L in range(0, 8):
        for s in map("".join, itertools.product("ACGT", repeat=L)) if L <= 5 else ["ACGTACGT"[:L], "TTGACTAG"[:L]]:
            for start in range(3):
                exp = "".join(table[16*bases.index(s[i])+4*bases.index(s[i+1])+bases.index(s[i+2])] for i in range(start, len(s)-2, 3))
                try:
                    got = n.translate(s, start)
                    if got != exp: bad["new.frames"].append((gid, s, start, got, exp))
                except Exception as e: bad["new.frames:"+type(e).__name__].append((gid, s, start))
                rcs = s.translate(comp)[::-1]
                exp_m = "".join(table[16*bases.index(rcs[i])+4*bases.index(rcs[i+1])+bases.index(rcs[i+2])] for i in range(start, len(rcs)-2, 3))
                try:
                    gotm = n.translate(s, start, rc=True)
                    if gotm != exp_m: bad["new.frames.rc"].append((gid, s, start, gotm, exp_m))
                except Exception as e: bad["new.frames.rc:"+type(e).__name__].append((gid, s, start))
        if gid != 1: break
print({k: len(v) for k, v in bad.items()})
for k, v in bad.items(): print(k, v[:5])
