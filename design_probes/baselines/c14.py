import time, pathlib, shutil, collections
from cogent3 import get_app, open_data_store, make_unaligned_seqs
from cogent3.app.composable import define_app, NotCompleted
from cogent3.app.typing import SeqsCollectionType, UnalignedSeqsType
from cogent3.util import parallel as PAR
def slow(x):
    time.sleep(0.3 if x % 2 == 0 else 0.0); return x * x
if __name__ == "__main__":
    t0 = time.time()
    print("serial", list(PAR.as_completed(slow, [1, 2, 3, 4], max_workers=1)) if False else "")
    try:
        r = list(PAR.as_completed(slow, [1, 2, 3, 4, 5], max_workers=3))
        print("parallel results (completion order):", r, round(time.time() - t0, 2))
    except Exception as e:
        print("parallel failed", type(e).__name__, e)
    # app-level
    w = pathlib.Path("/root/scratch/base/w14"); shutil.rmtree(w, ignore_errors=True); (w / "in").mkdir(parents=True)
    for i in range(5):
        (w / "in" / f"s{i}.fasta").write_text(f">a\n{'ACGT' * (i + 1)}\n>b\n{'ACGA' * (i + 1)}\n")
    dstore = open_data_store(w / "in", suffix="fasta", mode="r")
    loader = get_app("load_unaligned", format="fasta", moltype="dna")
    @define_app
    def maybe_fail(seqs: UnalignedSeqsType) -> UnalignedSeqsType:
        n = len(seqs.get_seq("a"))
        if n == 8: raise ValueError("boom")
        if n == 12: return None
        time.sleep(0.3 if n == 4 else 0)
        return seqs
    for par in (False, True):
        out = open_data_store(w / f"out{par}", suffix="fasta", mode="w")
        writer = get_app("write_seqs", data_store=out, format="fasta")
        app = loader + maybe_fail() + writer
        res = app.apply_to(dstore, parallel=par, par_kw=dict(max_workers=3) if par else None, show_progress=False, logger=False)
        print("parallel" if par else "serial", sorted(m.unique_id for m in res.completed), sorted(m.unique_id for m in res.not_completed))
    shutil.rmtree(w, ignore_errors=True)
