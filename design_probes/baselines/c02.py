import itertools, numpy, scipy.linalg, math
from cogent3 import make_tree, make_aligned_seqs, get_model
numpy.set_printoptions(precision=5, suppress=True)
def oracle(tree, aln, alphabet, pi, Qfun, lengths, ambig):
    # Felsenstein pruning, independent; tree: cogent3 tree used only for topology/names
    states = list(alphabet); n = len(states)
    seqs = aln.to_dict(); L = len(next(iter(seqs.values())))
    total = 0.0
    def partial(node, col):
        if not node.children:
            ch = seqs[node.name][col]
            v = numpy.zeros(n)
            for s in ambig.get(ch, states if ch in "-?N" else [ch]): v[states.index(s)] = 1.0
            return v
        out = numpy.ones(n)
        for c in node.children:
            P = scipy.linalg.expm(Qfun(c.name) * lengths[c.name])
            out *= P @ partial(c, col)
        return out
    for col in range(L):
        total += math.log(float(pi @ partial(tree, col)))
    return total
ambig = {"R": "AG", "Y": "CT", "N": "ACGT"}
def hky_Q(states, pi, kappa):
    n = len(states); Q = numpy.zeros((n, n))
    ts = {("A","G"),("G","A"),("C","T"),("T","C")}
    for i, a in enumerate(states):
        for j, b in enumerate(states):
            if i != j: Q[i, j] = pi[j] * (kappa if (a, b) in ts else 1.0)
    Q -= numpy.diag(Q.sum(axis=1)); Q /= -(pi * numpy.diag(Q)).sum(); return Q
res = []
for nw in ["(a:0.1,b:0.2,(c:0.3,d:0.05):0.4);", "((a:0.1,b:0.2):0.3,(c:0.3,d:0.05):0.4);", "(a:0.1,b:0.2,c:0.3,d:0.5);"]:
    tree = make_tree(nw)
    aln = make_aligned_seqs({"a": "ACGTRA-N", "b": "ACGTAAYC", "c": "ATGTGACC", "d": "CCGTAAGC"}, moltype="dna")
    sm = get_model("HKY85")
    lf = sm.make_likelihood_function(tree)
    lf.set_alignment(aln)
    lf.set_param_rule("kappa", init=3.7)
    pi_d = {"A": 0.1, "C": 0.2, "G": 0.3, "T": 0.4}
    lf.set_motif_probs(pi_d)
    for e in tree.get_edge_vector(include_root=False): lf.set_param_rule("length", edge=e.name, init=e.length)
    states = list(lf.get_motif_probs().keys()) if hasattr(lf.get_motif_probs(), "keys") else list("TCAG")
    mp = lf.get_motif_probs(); states = list(mp.keys()); pi = numpy.array([mp[s] for s in states])
    lengths = {e.name: e.length for e in tree.get_edge_vector(include_root=False)}
    Q = hky_Q(states, pi, 3.7)
    o = oracle(tree, aln, states, pi, lambda name: Q, lengths, ambig)
    res.append((nw, lf.lnL, o, abs(lf.lnL - o)))
    Qc = lf.get_rate_matrix_for_edge("a", calibrated=True)
    print("Q diff", numpy.abs(numpy.array(Qc.array if hasattr(Qc, 'array') else Qc) - Q).max(), states)
for r in res: print(r)
