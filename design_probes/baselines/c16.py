import collections, numpy, warnings
warnings.filterwarnings("ignore")
from cogent3 import make_tree, make_aligned_seqs, get_model
seqs = {"a": "ACGTRATNACGAACGTTGCAACGT", "b": "ACGTAAYCACGTACGATGCAATGT", "c": "ATGTGACCTCGAACGTTGAAACGA", "d": "CCGTAAGCACTATCGTTGCTACGT"}
aln = make_aligned_seqs(seqs, moltype="dna")
nw = "((a:0.1,b:0.2):0.3,(c:0.3,d:0.05):0.4);"
chain = ["F81", "HKY85", "TN93", "GTR", "GN"]
def fit(model, init_from=None, **kw):
    lf = get_model(model).make_likelihood_function(make_tree(nw))
    lf.set_alignment(aln)
    if init_from is not None:
        lf.initialise_from_nested(init_from)
        print(f"  init {model} from {init_from.name if hasattr(init_from,'name') else ''}: lnL={lf.lnL:.10f} nested={init_from.lnL:.10f} diff={lf.lnL-init_from.lnL:.2e}")
    before = lf.lnL
    lf.optimise(show_progress=False, **kw)
    after = lf.lnL
    print(f"  optimise {model} {kw}: before={before:.8f} after={after:.8f} {'OK' if after >= before - 1e-9 else 'DECREASED'}")
    return lf
prev = None
for m in chain:
    print(m)
    lf = fit(m, prev, max_evaluations=60, limit_action="ignore")
    prev = lf
print("K80->HKY85")
k80 = fit("K80", None, max_evaluations=40, limit_action="ignore")
fit("HKY85", k80, max_evaluations=5, limit_action="ignore")
print("global")
fit("HKY85", None, local=False, max_evaluations=30, limit_action="ignore")
