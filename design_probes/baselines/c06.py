import itertools, collections, pathlib, shutil
from cogent3 import make_aligned_seqs, make_unaligned_seqs, load_aligned_seqs, load_unaligned_seqs
bad = collections.defaultdict(list); n = 0
work = pathlib.Path("/root/scratch/base/w06"); shutil.rmtree(work, ignore_errors=True); work.mkdir()
names_sets = [["a", "b"], ["seq 1", "seq 2"], ["a|b", "c>d"], ["nine_char", "ten__chars"], ["eleven_char", "eleven_chas"], ["a b c", "x"], ["s1", "s1x"]]
lens = [1, 2, 59, 60, 61, 120, 121]
for fmt, names, L in itertools.product(["fasta", "phylip", "paml", "gde"], names_sets, lens):
    for cmp_ in ("", ".gz"):
        seqs = {nm: ("ACGT" * 40)[i:i + L] if L > 1 else "ACGT"[i] for i, nm in enumerate(names)}
        aln = make_aligned_seqs(seqs, moltype="dna")
        p = work / f"x.{fmt}{cmp_}"
        n += 1
        try:
            aln.write(str(p))
        except Exception as e:
            bad[("write_exc", fmt, type(e).__name__)].append((names, L, str(e)[:60])); continue
        try:
            back = load_aligned_seqs(str(p), moltype="dna")
        except Exception as e:
            bad[("load_exc", fmt, type(e).__name__)].append((names, L, str(e)[:60])); continue
        got = back.to_dict()
        if list(got.values()) != list(seqs.values()): bad[("seqs", fmt)].append((names, L, list(got.items())[:1]))
        elif list(got) != names: bad[("names", fmt)].append((names, list(got)))
shutil.rmtree(work, ignore_errors=True)
print("cases", n, {str(k): len(v) for k, v in bad.items()})
for k, v in bad.items(): print(k, v[:3])
