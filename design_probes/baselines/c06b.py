import itertools, collections, pathlib, shutil
from cogent3.util.io import iter_splitlines
from cogent3.parse.fasta import MinimalFastaParser, iter_fasta_records
bad = collections.defaultdict(list); n = 0
w = pathlib.Path("/root/scratch/base/w06b"); shutil.rmtree(w, ignore_errors=True); w.mkdir()
texts = ["", "a", "a\n", "a\nb", "a\n\nb\n", "ab\ncd\nef", "a\r\nb\r\n", "\n", "\n\n", "abc\n\n\nd\n", ">s1\nAC\nGT\n>s2 desc\nA\n", "x\ry\n"]
for t in texts:
    p = w / "f.txt"; p.write_bytes(t.encode())
    exp = t.splitlines()
    for cs in list(range(1, len(t) + 3)):
        n += 1
        try: got = list(iter_splitlines(p, chunk_size=cs))
        except Exception as e: bad[("exc", type(e).__name__)].append((t, cs, str(e)[:50])); continue
        if got != exp: bad["splitlines"].append((t, cs, got, exp))
fas = [">s1\nACGT\n>s2\nAC\nGT\n", ">s1 desc more\nAC-T\n\n>s2|x\nNN\n", ">a\nA\n>b\n\n>c\nC\n", ">only\n", ">s1\nAC GT\n>s2\nac\n"]
for t in fas:
    p = w / "f.fa"; p.write_text(t)
    try: a = [(str(l), str(s)) for l, s in MinimalFastaParser(str(p))]
    except Exception as e: a = ("exc", type(e).__name__, str(e)[:40])
    try: b = [(str(l), str(s)) for l, s in MinimalFastaParser(t.splitlines())]
    except Exception as e: b = ("exc", type(e).__name__, str(e)[:40])
    try: c = [(str(l), bytes(s).decode() if not isinstance(s, str) else s) for l, s in iter_fasta_records(p)]
    except Exception as e: c = ("exc", type(e).__name__, str(e)[:40])
    if not (a == b == c): bad["parsers"].append((t, a, b, c))
shutil.rmtree(w, ignore_errors=True)
print("cases", n, {str(k): len(v) for k, v in bad.items()})
for k, v in bad.items(): print(k, v[:4])
