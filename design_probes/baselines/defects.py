import cogent3
from cogent3 import make_seq, make_tree
s = make_seq("AACCGGTT"[:7]+"A", name="s", moltype="dna")
s = make_seq("AAGCT", name="s", moltype="dna")
r = s.rc()
print("rc", str(r), "to_rna", str(r.to_rna()), "expected", str(r).replace("T","U"))
r2 = s[::-1]
print("rev", str(r2), "to_moltype rna", str(r2.to_moltype("rna")))
# strided view export
v = s[::2]
print("strided", str(v), "copy", str(v.copy()), "json", str(cogent3.util.deserialise.deserialise_object(v.to_rich_dict())))
v = s[::-2]
print("rev strided", str(v), "copy", str(v.copy()), "json", str(cogent3.util.deserialise.deserialise_object(v.to_rich_dict())))
# tree
t = make_tree("((a:1,b:2):3,(c:4,d:5):6);")
d0 = t.get_distances()
u = t.unrooted()
d1 = u.get_distances()
print("unrooted diffs", {k:(d0[k],d1[k]) for k in d0 if abs(d0[k]-d1[k])>1e-9})
t2 = make_tree("((a:1,b:2):3,(c:4,d:5):6);")
nw = t2.get_newick(with_distances=True)
m = t2.root_at_midpoint()
print("midpoint mutates:", nw != t2.get_newick(with_distances=True), nw, t2.get_newick(with_distances=True))
