from sv_brute import check
from cogent3.core.new_sequence import SeqView as NewSV
from cogent3.core import new_moltype, new_alignment as na
alpha = new_moltype.ASCII.most_degen_alphabet() if hasattr(new_moltype,'ASCII') else None
print(alpha)
check(lambda s: NewSV(seq=s, alphabet=alpha), "new", N=4)
def mk(s):
    sd = na.SeqsData(data={"a": s}, alphabet=alpha)
    return sd.get_seq_view("a")
check(mk, "seqdataview", N=4)
