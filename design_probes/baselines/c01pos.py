import collections
from cogent3.core.sequence import SeqView
bad = collections.defaultdict(list); n = 0
for L in range(1, 8):
    s = "".join(chr(97 + i) for i in range(L))
    for off in (0, 3):
        for a in [None] + list(range(-L - 1, L + 2)):
            for b in [None] + list(range(-L - 1, L + 2)):
                for c in (None, 1, 2, 3, -1, -2, -3):
                    v = SeqView(seq=s, start=a, stop=b, step=c, offset=off)
                    idx = list(range(L))[a:b:c]
                    if not idx: continue
                    n += 1
                    ps, pe = v.parent_start, v.parent_stop
                    if not (ps - off <= min(idx) and max(idx) < pe - off): bad["parent_bounds"].append((L, a, b, c, ps, pe, idx))
                    if ps - off != min(idx) or pe - off != max(idx) + 1: bad["parent_tight"].append((L, off, a, b, c, ps, pe, idx))
                    for i, pi in enumerate(idx):
                        try:
                            ap = v.absolute_position(i)
                        except Exception as e:
                            bad["abs_exc:" + type(e).__name__].append((L, a, b, c, i)); continue
                        # for reversed views, absolute_position returns offset+L+seq_index+1 => plus-strand coordinate +1?
                        if ap != off + pi: bad["abs" + ("_rev" if v.is_reversed else "_fwd")].append((L, off, a, b, c, i, ap, off + pi))
                        try:
                            rp = v.relative_position(ap)
                            if rp != i: bad["roundtrip" + ("_rev" if v.is_reversed else "_fwd")].append((L, off, a, b, c, i, ap, rp))
                        except Exception as e:
                            bad["rel_exc:" + type(e).__name__].append((L, a, b, c, i))
print("views", n, {k: len(v) for k, v in bad.items()})
for k, v in bad.items(): print(k, v[:3])
