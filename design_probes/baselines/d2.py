import pathlib, os, tempfile
from cogent3 import make_seq, make_aligned_seqs
from cogent3.format.alignment import save_to_filename
d = pathlib.Path("/root/scratch/d2/work"); d.mkdir(exist_ok=True)
p = d/"existing.fasta"
p.write_text(">old\nAAAA\n")
aln = make_aligned_seqs({"a":"ACGT","b":"ACGA"}, moltype="dna")
try:
    aln.write(str(p), format="bogus")
except Exception as e:
    print("write raised", type(e).__name__, e)
print("after failed aln.write: exists=", p.exists(), "listing", sorted(x.name for x in d.iterdir()))
p.write_text(">old\nAAAA\n")
try:
    save_to_filename(aln.to_dict(), str(p), "bogus")
except Exception as e:
    print("save raised", type(e).__name__)
print("after failed save_to_filename: exists=", p.exists(), "listing", sorted(x.name for x in d.iterdir()))
# kill between unlink and rename
p.write_text(">old\nAAAA\n")
class Kill(BaseException): pass
orig = pathlib.Path.rename
def boom(self, target): raise Kill()
pathlib.Path.rename = boom
try:
    aln.write(str(p))
except Kill:
    print("killed at rename")
finally:
    pathlib.Path.rename = orig
print("after kill: exists=", p.exists(), "listing", sorted(x.name for x in d.iterdir()))
# C01
s = make_seq("AAGCTR", name="s", moltype="dna")
r = s.rc()
print("rc", str(r), "resolved", r.resolved_ambiguities(), "expected", make_seq(str(r), moltype="dna").resolved_ambiguities())
print("replace", str(r.replace("A","G")), "expected", str(r).replace("A","G"))
import cogent3.evolve.models as m
print([n for n in dir(m) if "available" in n or "models" in n.lower()][:10])
