import itertools, collections
from cogent3 import make_seq
bad = collections.defaultdict(list); n = 0
parent = "ACGGTTACGA"
comp = str.maketrans("ACGT", "TGCA")
def feats_expected(spans, strand, lo, hi):
    # residues of feature restricted to [lo,hi) parent coords, read on feature strand
    pos = [i for s, e in spans for i in range(s, e) if lo <= i < hi]
    txt = "".join(parent[i] for i in pos)
    return txt.translate(comp)[::-1] if strand == "-" else txt
for new_type in (False, True):
  for spans in ([(2, 5)], [(1, 3), (6, 8)], [(0, 2)], [(8, 10)]):
    for strand in "+-":
        for a in range(0, 10):
            for b in range(a + 1, 11):
                for order in ("slice", "slice_rc", "rc_slice"):
                    s = make_seq(parent, name="s", moltype="dna", new_type=new_type)
                    s.annotation_db.add_feature(seqid="s", biotype="gene", name="g", spans=spans, strand=strand)
                    L = len(parent)
                    if order == "slice": v = s[a:b]; lo, hi = a, b
                    elif order == "slice_rc": v = s[a:b].rc(); lo, hi = a, b
                    else: v = s.rc()[a:b]; lo, hi = L - b, L - a
                    n += 1
                    overlap = any(max(sp[0], lo) < min(sp[1], hi) for sp in spans)
                    inside = all(lo <= sp[0] and sp[1] <= hi for sp in spans)
                    for partial in (True, False):
                        try:
                            fs = list(v.get_features(allow_partial=partial))
                        except Exception as e:
                            bad[("exc", new_type, order, partial, type(e).__name__)].append((spans, strand, a, b, str(e)[:60])); continue
                        want = overlap if partial else inside
                        if bool(fs) != want:
                            bad[("membership", new_type, order, partial)].append((spans, strand, a, b, len(fs), want)); continue
                        if fs:
                            try:
                                got = str(fs[0].get_slice())
                            except Exception as e:
                                bad[("slice_exc", new_type, order, partial, type(e).__name__)].append((spans, strand, a, b, str(e)[:60])); continue
                            exp = feats_expected(spans, strand, lo, hi)
                            if got != exp: bad[("residues", new_type, order, partial)].append((spans, strand, a, b, got, exp))
print("cases", n, {str(k): len(v) for k, v in bad.items()})
for k, v in bad.items(): print(k, v[:2])
