import itertools, collections, pathlib, pickle, copy
from cogent3.core.annotation_db import BasicAnnotationDb, GffAnnotationDb, load_annotations
bad = collections.defaultdict(list); n = 0
recs = [dict(seqid="s1", biotype="gene", name="g1", spans=[(2, 5)], strand="+"),
        dict(seqid="s1", biotype="gene", name="g2", spans=[(1, 3), (6, 8)], strand="-"),
        dict(seqid="s1", biotype="exon", name="g1", spans=[(5, 5)], strand="+"),
        dict(seqid="s2", biotype="gene", name="g3", spans=[(0, 10)], strand="+"),
        dict(seqid="s1", biotype="cds", name="c", spans=[(8, 10)], strand="-")]
db = BasicAnnotationDb()
for r in recs: db.add_feature(**r)
def ext(r): return min(min(s) for s in r["spans"]), max(max(s) for s in r["spans"])
def scan(seqid=None, biotype=None, name=None, strand=None, start=None, stop=None, allow_partial=False):
    out = []
    for r in recs:
        if seqid is not None and r["seqid"] != seqid: continue
        if biotype is not None and r["biotype"] != biotype: continue
        if name is not None and r["name"] != name: continue
        if strand is not None and r["strand"] != strand: continue
        rs, re_ = ext(r)
        if start is not None and stop is not None:
            ok = ((start <= rs and re_ <= stop) or (rs < stop and re_ > start)) if allow_partial else (start <= rs and re_ <= stop)
        elif start is not None: ok = rs <= start < re_
        elif stop is not None: ok = rs <= stop < re_
        else: ok = True
        if ok: out.append((r["seqid"], r["biotype"], r["name"], tuple(map(tuple, r["spans"])), r["strand"]))
    return sorted(out)
for seqid, biotype, name, strand in itertools.product([None, "s1", "s2"], [None, "gene", "exon"], [None, "g1"], [None, "+", "-"]):
    for S, E in [(None, None)] + [(a, b) for a in range(0, 11) for b in range(a + 1, 12)] + [(3, None), (None, 7)]:
        for partial in (False, True):
            kw = dict(seqid=seqid, biotype=biotype, name=name, strand=strand, start=S, stop=E, allow_partial=partial)
            n += 1
            try:
                got = sorted((r["seqid"], r["biotype"], r["name"], tuple(map(tuple, r["spans"])), r["strand"]) for r in db.get_features_matching(**{k: v for k, v in kw.items()}))
            except Exception as e:
                bad[("exc", type(e).__name__)].append((kw, str(e)[:60])); continue
            exp = scan(**kw)
            if got != exp: bad["mismatch"].append((kw, got, exp))
# persistence
for how in ("pickle", "deepcopy", "rich"):
    d2 = pickle.loads(pickle.dumps(db)) if how == "pickle" else copy.deepcopy(db) if how == "deepcopy" else type(db).from_dict(db.to_rich_dict())
    a = sorted(str(sorted(r.items(), key=str)) for r in db.get_records_matching()); b = sorted(str(sorted(r.items(), key=str)) for r in d2.get_records_matching())
    if a != b: bad[("persist", how)].append((len(a), len(b)))
# gff coordinates
gff = "##gff-version 3\ns1\tsrc\tgene\t3\t7\t.\t+\t.\tID=gA\ns1\tsrc\texon\t1\t1\t.\t-\t.\tID=eB;Parent=gA\n"
p = pathlib.Path("/root/scratch/base/t.gff"); p.write_text(gff)
g = load_annotations(path=p)
print("gff spans:", [(r["name"], r["spans"], r["strand"]) for r in g.get_features_matching()])
p.unlink()
print("queries", n, {str(k): len(v) for k, v in bad.items()})
for k, v in bad.items(): print(k, v[:3])
