import random, math, numpy, scipy.linalg, collections, warnings
warnings.filterwarnings("ignore")
from cogent3 import make_tree, make_aligned_seqs, get_model
bad = collections.defaultdict(list); n = 0
nw = "((a:0.1,b:0.2):0.3,(c:0.3,d:0.05):0.4);"
alns = [make_aligned_seqs({"a": "ACGTRA-NACGA", "b": "ACGTAAYCACGT", "c": "ATGTGACCTCGA", "d": "CCGTAAGCACTA"}, moltype="dna"),
        make_aligned_seqs({"a": "TTGTAACGAC", "b": "TCGTAACGAT", "c": "ATGTGACGTC", "d": "CCGTAAGGAC"}, moltype="dna")]
ambig = {"R": "AG", "Y": "CT", "N": "ACGT", "-": "ACGT"}
ts = {("A","G"),("G","A"),("C","T"),("T","C")}
def hky_Q(states, pi, kappa):
    n_ = len(states); Q = numpy.zeros((n_, n_))
    for i, a in enumerate(states):
        for j, b in enumerate(states):
            if i != j: Q[i, j] = pi[j] * (kappa if (a, b) in ts else 1.0)
    Q -= numpy.diag(Q.sum(axis=1)); Q /= -(pi * numpy.diag(Q)).sum(); return Q
def oracle(lf, aln):
    tree = lf.tree; mp = lf.get_motif_probs(); states = list(mp.keys()); pi = numpy.array([mp[s] for s in states])
    seqs = aln.to_dict(); L = len(aln)
    P = {}
    for e in tree.get_edge_vector(include_root=False):
        k = lf.get_param_value("kappa", edge=e.name); t = lf.get_param_value("length", edge=e.name)
        P[e.name] = scipy.linalg.expm(hky_Q(states, pi, k) * t)
    def part(node, col):
        if not node.children:
            ch = seqs[node.name][col]; v = numpy.zeros(4)
            for s in ambig.get(ch, ch): v[states.index(s)] = 1.0
            return v
        out = numpy.ones(4)
        for c in node.children: out *= P[c.name] @ part(c, col)
        return out
    return sum(math.log(float(pi @ part(tree, col))) for col in range(L))
random.seed(11)
edges = ["a", "b", "c", "d", "edge.0", "edge.1"]
def rand_op():
    r = random.random()
    if r < 0.2: return ("kappa", random.choice([0.5, 2.0, 4.5]))
    if r < 0.4: return ("kappa_edge", random.choice(edges), random.choice([0.7, 3.0]))
    if r < 0.6: return ("length", random.choice(edges), random.choice([0.01, 0.2, 1.1]))
    if r < 0.7: return ("mprobs", random.choice([{"A": 0.1, "C": 0.2, "G": 0.3, "T": 0.4}, {"A": 0.25, "C": 0.25, "G": 0.25, "T": 0.25}]))
    if r < 0.8: return ("aln", random.randrange(2))
    if r < 0.9: return ("postponed", random.choice([0.9, 2.2]), random.choice(edges), random.choice([0.05, 0.6]))
    return ("calc", random.random())
for h in range(150):
    lf = get_model("HKY85").make_likelihood_function(make_tree(nw)); cur = 0
    lf.set_alignment(alns[0])
    hist = []
    for step in range(6):
        op = rand_op(); hist.append(op)
        try:
            if op[0] == "kappa": lf.set_param_rule("kappa", init=op[1])
            elif op[0] == "kappa_edge": lf.set_param_rule("kappa", edge=op[1], init=op[2])
            elif op[0] == "length": lf.set_param_rule("length", edge=op[1], init=op[2])
            elif op[0] == "mprobs": lf.set_motif_probs(op[1])
            elif op[0] == "aln": lf.set_alignment(alns[op[1]]); cur = op[1]
            elif op[0] == "postponed":
                with lf.updates_postponed():
                    lf.set_param_rule("kappa", init=op[1]); lf.set_param_rule("length", edge=op[2], init=op[3])
            else:
                calc = lf.make_calculator(); x = calc.get_value_array()
                x0 = list(x); i = int(op[1] * len(x)) % len(x)
                y = list(x0); y[i] = y[i] * 1.1 + 0.01
                calc.testoptparvector(numpy.array(y)); calc.testoptparvector(numpy.array(x0))
                z = list(x0); z[(i + 1) % len(x)] += 0.02
                calc.testoptparvector(numpy.array(z)); calc.testoptparvector(numpy.array(y)); v = calc.testoptparvector(numpy.array(x0))
                lf.update_from_calculator(calc)
        except Exception as e:
            bad[("exc", op[0], type(e).__name__)].append((hist, str(e)[:60])); break
        n += 1
        got = lf.lnL; exp = oracle(lf, alns[cur])
        if abs(got - exp) > 1e-8: bad["stale"].append((hist, got, exp)); break
print("steps", n, {str(k): len(v) for k, v in bad.items()})
for k, v in bad.items(): print(k, v[:2])
