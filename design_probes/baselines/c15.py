import itertools, collections, random
from cogent3 import make_tree
from cogent3.evolve.fast_distance import DistanceMatrix
from cogent3.phylo.nj import nj
from cogent3.cluster.UPGMA import upgma
bad = collections.defaultdict(list); n = 0
random.seed(2)
def rand_tree(tips, ultra=False):
    # random bifurcating unrooted/rooted tree newick
    nodes = [(t, 0.0) for t in tips]
    h = 0.0
    while len(nodes) > (1 if ultra else 3):
        i, j = random.sample(range(len(nodes)), 2)
        a, b = nodes[i], nodes[j]
        for k in sorted((i, j), reverse=True): nodes.pop(k)
        if ultra:
            h = max(a[1], b[1]) + random.choice([0.5, 1.0, 1.5])
            nodes.append((f"({a[0]}:{h - a[1]},{b[0]}:{h - b[1]})", h))
        else:
            nodes.append((f"({a[0]}:{random.choice([0.5,1,2,3.25])},{b[0]}:{random.choice([0.5,1,2,3.25])})", 0))
    if ultra: return nodes[0][0] + ";"
    return "(" + ",".join(f"{x[0]}:{random.choice([0.5,1,2,3.25])}" for x in nodes) + ");"
def splits(t):
    tips = frozenset(t.get_tip_names()); out = set()
    for nd in t.postorder():
        if nd.children and nd.parent is not None:
            s = frozenset(nd.get_tip_names())
            if 1 < len(s) < len(tips) - 1: out.add(min(s, tips - s, key=lambda x: sorted(x)))
    return out
for ntips in range(3, 8):
    for rep in range(40):
        tips = [chr(97 + i) for i in range(ntips)]
        random.shuffle(tips)
        for ultra in (False, True):
            nw = rand_tree(list(tips), ultra); t = make_tree(nw)
            d = t.get_distances()
            dm = DistanceMatrix({k: float(v) for k, v in d.items()})
            n += 1
            try:
                r = upgma(dm) if ultra else nj(dm, show_progress=False)
            except Exception as e:
                bad[("exc", ultra, type(e).__name__)].append((nw, str(e)[:60])); continue
            d2 = r.get_distances()
            if any(abs(float(d2[k]) - float(d[k])) > 1e-9 for k in d): bad[("dist", ultra)].append((nw, r.get_newick(with_distances=True)))
            elif splits(r) != splits(t): bad[("topology", ultra)].append((nw, r.get_newick()))
print("cases", n, {str(k): len(v) for k, v in bad.items()})
for k, v in bad.items(): print(k, v[:2])
