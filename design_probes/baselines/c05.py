import collections, numpy, warnings, itertools
warnings.filterwarnings("ignore")
from cogent3 import make_tree, make_aligned_seqs, get_model
from cogent3.evolve.models import available_models
import scipy.linalg
bad = collections.defaultdict(list); n = 0
tbl = available_models()
names = list(tbl.to_list("Abbreviation")) if hasattr(tbl, "to_list") else []
types = dict(zip(tbl.to_list("Abbreviation"), tbl.to_list("Model Type")))
print(len(names), names)
nuc = {"a": "ACGTGATTACGAACGTTGCAACGT", "b": "ACGTAACCACGTACGATGCAATGT", "c": "ATGTGACCTCGAACGTTGAAACGA"}
aa = {"a": "MKVLAAGIW", "b": "MKVLSAGIW", "c": "MRVLAAGLW"}
nw = "(a:0.1,b:0.25,c:0.7);"
for name in names:
    try:
        sm = get_model(name)
        mt = "protein" if types[name] == "protein" else "dna"
        aln = make_aligned_seqs(aa if mt == "protein" else nuc, moltype=mt)
        lf = sm.make_likelihood_function(make_tree(nw))
        lf.set_alignment(aln)
        for p in lf.get_param_names():
            if p in ("length", "mprobs", "bprobs", "rate"): continue
            try: lf.set_param_rule(p, init=1.7)
            except Exception: pass
        for e, l in (("a", 0.1), ("b", 0.25), ("c", 0.7)): lf.set_param_rule("length", edge=e, init=l)
    except Exception as ex:
        bad[("setup", type(ex).__name__)].append((name, str(ex)[:80])); continue
    n += 1
    mp = lf.get_motif_probs(); 
    try:
        pi = numpy.array([mp[k] for k in mp.keys()])
    except Exception:
        pi = None
    for e, l in (("a", 0.1), ("c", 0.7)):
        try:
            Q = lf.get_rate_matrix_for_edge(e, calibrated=True).to_array() if hasattr(lf.get_rate_matrix_for_edge(e, calibrated=True), "to_array") else numpy.array(lf.get_rate_matrix_for_edge(e, calibrated=True).array)
            P = lf.get_psub_for_edge(e); P = P.to_array() if hasattr(P, "to_array") else numpy.array(P.array)
        except Exception as ex:
            bad[("getQP", type(ex).__name__)].append((name, str(ex)[:80])); break
        if abs(Q.sum(axis=1)).max() > 1e-9: bad["rowsum"].append((name, abs(Q.sum(axis=1)).max()))
        off = Q - numpy.diag(numpy.diag(Q))
        if off.min() < -1e-12: bad["neg_offdiag"].append((name, off.min()))
        if pi is not None and len(pi) == Q.shape[0]:
            rate = -(pi * numpy.diag(Q)).sum()
            if abs(rate - 1) > 1e-8: bad["calibration"].append((name, rate))
        if abs(P.sum(axis=1) - 1).max() > 1e-8: bad["P_rows"].append((name, abs(P.sum(axis=1) - 1).max()))
        if P.min() < -1e-10: bad["P_neg"].append((name, P.min()))
        Pe = scipy.linalg.expm(Q * l)
        if abs(P - Pe).max() > 1e-7: bad["P_vs_expm"].append((name, e, abs(P - Pe).max()))
print("models", n, {str(k): len(v) for k, v in bad.items()})
for k, v in bad.items(): print(k, v[:4])
