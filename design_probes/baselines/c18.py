import itertools, collections, random
from cogent3 import make_unaligned_seqs, make_aligned_seqs, get_app
from cogent3.app.align import pairwise_to_multiple
from cogent3.core.alignment import Alignment
bad = collections.defaultdict(list); n = 0
def project(aln_dict, a, b):
    ra, rb = aln_dict[a], aln_dict[b]
    cols = [(x, y) for x, y in zip(ra, rb) if not (x == "-" and y == "-")]
    return "".join(x for x, _ in cols), "".join(y for _, y in cols)
# enumerate pairwise alignments of ref with others: gapped strings pairs with no all-gap col
def pairwise_alns(maxlen):
    cols = [("x","y"), ("x","-"), ("-","y")]
    for L in range(1, maxlen+1):
        for combo in itertools.product(cols, repeat=L):
            yield "".join(c[0] for c in combo), "".join(c[1] for c in combo)
def fill(g, letters):
    it = iter(letters); return "".join(next(it) if c != "-" else "-" for c in g)
random.seed(1)
pw = list(pairwise_alns(4))
refs = {}
for r, o in pw:
    refs.setdefault(r.replace("-", ""), []).append((r, o))
for refseq, alns in refs.items():
    if not refseq: continue
    L = len(refseq)
    rs = "ACGT"[:L] if L <= 4 else None
    for (r1, o1), (r2, o2) in itertools.product(alns, repeat=2):
        n += 1
        ref1 = fill(r1, rs); ref2 = fill(r2, rs)
        s1 = fill(o1, "TTTT"); s2 = fill(o2, "GGGG")
        try:
            a1 = make_aligned_seqs({"ref": ref1, "s1": s1}, moltype="dna", array_align=False)
            a2 = make_aligned_seqs({"ref": ref2, "s2": s2}, moltype="dna", array_align=False)
            refseq_obj = a1.get_seq("ref")
            res = pairwise_to_multiple([("s1", a1), ("s2", a2)], refseq_obj, a1.moltype)
            d = res.to_dict()
        except Exception as e:
            bad["exc:" + type(e).__name__].append((ref1, s1, ref2, s2, str(e)[:50])); continue
        lens = {len(v) for v in d.values()}
        if len(lens) != 1: bad["ragged"].append((ref1, s1, ref2, s2, d)); continue
        for nm, ro, so in (("s1", ref1, s1), ("s2", ref2, s2)):
            if d[nm].replace("-", "") != so.replace("-", ""): bad["content"].append((ref1, s1, ref2, s2, d))
            if project(d, "ref", nm) != (ro, so): bad["projection"].append((ref1, s1, ref2, s2, d)); break
print("cases", n, {k: len(v) for k, v in bad.items()})
for k, v in bad.items(): print(k, v[:3])
