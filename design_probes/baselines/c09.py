import itertools, collections
from cogent3 import make_tree
bad = collections.defaultdict(list)
trees = ["((a:1,b:2):3,(c:4,d:5):6);", "(a:1,b:2,(c:3,d:4):5);", "((a:1,b:2):3,c:4,d:5);", "(((a:1,b:2):3,c:4):5,(d:6,e:7):8);", "((a:1,b:2,c:2.5):3,(d:4,e:5):6,f:1);", "(a:1,(b:2,(c:3,(d:4,e:5):6):7):8);"]
def D(t): return {k: round(float(v), 9) for k, v in t.get_distances().items()}
def sub(d, names): return {k: v for k, v in d.items() if k[0] in names and k[1] in names}
for nw in trees:
    t = make_tree(nw); d0 = D(t); nw0 = t.get_newick(with_distances=True)
    ops = {"copy": lambda t: t.copy(), "deepcopy": lambda t: t.deepcopy(), "unrooted": lambda t: t.unrooted(), "midpoint": lambda t: t.root_at_midpoint(),
           "sorted": lambda t: t.sorted(), "json": lambda t: __import__("cogent3").util.deserialise.deserialise_object(t.to_rich_dict()),
           "newick": lambda t: make_tree(t.get_newick(with_distances=True))}
    for tip in t.get_tip_names():
        ops[f"rooted_with_tip({tip})"] = (lambda tip: lambda t: t.rooted_with_tip(tip))(tip)
    for node in [n.name for n in t.postorder() if n.children and n.name]:
        ops[f"rooted_at({node})"] = (lambda node: lambda t: t.rooted_at(node))(node)
    tips = t.get_tip_names()
    for r in range(2, len(tips)):
        for ss in itertools.combinations(tips, r):
            ops[f"subtree{ss}"] = (lambda ss: lambda t: t.get_sub_tree(list(ss)))(ss)
    for name, op in ops.items():
        t = make_tree(nw)
        try:
            r = op(t)
        except Exception as e:
            bad[name.split("(")[0] + ":" + type(e).__name__].append((nw, name, str(e)[:60])); continue
        if t.get_newick(with_distances=True) != nw0: bad["mutates:" + name.split("(")[0]].append((nw, name))
        d1 = D(r); names = set(r.get_tip_names())
        if sub(d0, names) != d1: 
            diff = {k: (d0[k], d1.get(k)) for k in sub(d0, names) if d1.get(k) != d0[k]}
            bad["dist:" + name.split("(")[0]].append((nw, name, list(diff.items())[:2]))
print({k: len(v) for k, v in bad.items()})
for k, v in bad.items(): print(k, v[:3])
