import itertools, collections, random
from cogent3 import make_aligned_seqs
bad = collections.defaultdict(list); n = 0
comp = str.maketrans("ACGTRYN-", "TGCAYRN-")
def mk(d, arr): return make_aligned_seqs(dict(d), moltype="dna", array_align=arr)
ops = {}
def sl(a, b): return lambda rows: {k: v[a:b] for k, v in rows.items()}, lambda aln: aln[a:b]
def rc(): return lambda rows: {k: v.translate(comp)[::-1] for k, v in rows.items()}, lambda aln: aln.rc()
def takepos(cols, neg=False):
    def f(rows):
        L = len(next(iter(rows.values())))
        keep = [i for i in range(L) if (i in cols) != neg]
        return {k: "".join(v[i] for i in keep if i < L) for k, v in rows.items()}
    return f, lambda aln: aln.take_positions([c for c in cols if c < len(aln)], negate=neg)
def omitgap():
    def f(rows):
        L = len(next(iter(rows.values())))
        keep = [i for i in range(L) if all(v[i] != "-" for v in rows.values())]
        return {k: "".join(v[i] for i in keep) for k, v in rows.items()}
    return f, lambda aln: aln.omit_gap_pos(allowed_gap_frac=0)
def nodegen():
    def f(rows):
        L = len(next(iter(rows.values())))
        keep = [i for i in range(L) if all(v[i] in "ACGT" for v in rows.values())]
        return {k: "".join(v[i] for i in keep) for k, v in rows.items()}
    return f, lambda aln: aln.no_degenerates()
def torna(): return lambda rows: {k: v.replace("T", "U") for k, v in rows.items()}, lambda aln: aln.to_rna()
L = 5
oplist = [("sl%d:%d" % (a, b), sl(a, b)) for a in range(0, L) for b in range(a + 1, L + 1)] + [("rc", rc()), ("take02", takepos([0, 2])), ("takeneg1", takepos([1], True)), ("omitgap", omitgap()), ("nodegen", nodegen())]
random.seed(3)
rowsets = []
for _ in range(60):
    rowsets.append({"a": "".join(random.choice("ACGT-R") for _ in range(L)), "b": "".join(random.choice("ACGT--") for _ in range(L))})
for rows in rowsets:
    for arr in (False, True):
        for (n1, (m1, r1)), (n2, (m2, r2)) in itertools.product(oplist, repeat=2):
            n += 1
            try:
                exp = m2(m1(rows))
            except Exception: continue
            try:
                aln = mk(rows, arr)
                got = r2(r1(aln)).to_dict()
            except Exception as e:
                if all(len(v) for v in m1(rows).values()) and all(len(v) for v in exp.values()):
                    bad[("exc", arr, type(e).__name__)].append((rows, n1, n2, str(e)[:60]))
                continue
            if got != exp: bad[("diff", arr)].append((rows, n1, n2, got, exp))
print("cases", n, {k: len(v) for k, v in bad.items()})
for k, v in bad.items(): print(k, v[:3])
