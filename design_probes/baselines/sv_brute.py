import itertools, sys
from cogent3.core.sequence import SeqView as OldSV
from cogent3.core.new_sequence import SeqView as NewSV
import cogent3.core.new_alignment as na

def vals(n):
    return [None]+list(range(-n-2, n+3))
def steps():
    return [None,1,2,3,-1,-2,-3]

def check(mk, label, N=6, depth=2):
    bad = {}
    cnt=0
    for n in range(0,N+1):
        s = "".join(chr(97+i) for i in range(n))
        sl = [slice(a,b,c) for a in vals(n) for b in vals(n) for c in steps()]
        for s1 in sl:
            try:
                v1 = mk(s)[s1]
            except Exception as e:
                bad.setdefault(("exc1",type(e).__name__),[]).append((s,s1)); continue
            e1 = s[s1]
            cnt+=1
            if str(v1)!=e1 or len(v1)!=len(e1):
                bad.setdefault("d1",[]).append((s,s1,str(v1),e1)); continue
            if depth<2: continue
            m=len(e1)
            for s2 in [slice(a,b,c) for a in vals(m) for b in vals(m) for c in steps()]:
                try:
                    v2 = v1[s2]
                except Exception as e:
                    bad.setdefault(("exc2",type(e).__name__),[]).append((s,s1,s2)); continue
                e2=e1[s2]
                cnt+=1
                if str(v2)!=e2 or len(v2)!=len(e2):
                    bad.setdefault("d2",[]).append((s,s1,s2,str(v2),e2))
    print(label, "cases",cnt, {k:len(v) for k,v in bad.items()})
    for k,v in bad.items():
        print("  ",k, v[:5])

#check(lambda s: OldSV(seq=s), "old", N=5)
#check(lambda s: NewSV(parent=s, parent_len=len(s)) if True else None, "new", N=5)
