import itertools, collections, json, pickle
from cogent3 import make_seq, make_aligned_seqs
from cogent3.util.deserialise import deserialise_object
bad = collections.defaultdict(list); n = 0
base = "ACGGTTAC"
def slices(L):
    vals = [None, 0, 1, 3, -2, L]
    for a in vals:
        for b in vals:
            for c in (None, 1, 2, -1, -2):
                yield slice(a, b, c)
for new_type in (False, True):
    for off in (0, 5):
        try:
            s = make_seq(base, name="s", moltype="dna", annotation_offset=off, new_type=new_type)
        except TypeError:
            s = make_seq(base, name="s", moltype="dna", new_type=new_type)
            if off: 
                try: s.annotation_offset = off
                except Exception: continue
        for s1 in slices(len(base)):
            try: v = s[s1]
            except Exception as e: bad[("slice_exc", new_type, type(e).__name__)].append(s1); continue
            for rc in (False, True):
                w = v.rc() if rc else v
                n += 1
                for how in ("json", "pickle", "copy"):
                    try:
                        if how == "json": r = deserialise_object(json.loads(w.to_json()))
                        elif how == "pickle": r = pickle.loads(pickle.dumps(w))
                        else: r = w.copy()
                    except Exception as e:
                        bad[(how + "_exc", new_type, type(e).__name__)].append((s1, rc, str(e)[:50])); continue
                    if str(r) != str(w): bad[(how, "str", new_type)].append((off, s1, rc, str(w), str(r)))
                    elif len(w) and r.parent_coordinates()[1:] != w.parent_coordinates()[1:]:
                        bad[(how, "coords", new_type)].append((off, s1, rc, str(w), w.parent_coordinates(), r.parent_coordinates()))
print("cases", n, {k: len(v) for k, v in bad.items()})
for k, v in bad.items(): print(k, v[:3])
