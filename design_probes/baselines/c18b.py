import itertools, collections
from cogent3 import make_seq
from cogent3.align.align import classic_align_pairwise, make_dna_scoring_dict, global_pairwise, local_pairwise
import cogent3.align.pairwise as pw
bad = collections.defaultdict(list); n = 0
S = make_dna_scoring_dict(10, -1, -8)
def score_path(r1, r2, S, d, e):
    sc = 0; gap1 = gap2 = False
    for a, b in zip(r1, r2):
        if a == "-": sc -= (e if gap1 else d + e); gap1, gap2 = True, False
        elif b == "-": sc -= (e if gap2 else d + e); gap2, gap1 = True, False
        else: sc += S[(a, b)]; gap1 = gap2 = False
    return sc
def all_alignments(x, y):
    # enumerate all global alignments without all-gap columns
    if not x and not y: yield ("", ""); return
    if x and y:
        for a, b in all_alignments(x[1:], y[1:]): yield (x[0] + a, y[0] + b)
    if x:
        for a, b in all_alignments(x[1:], y): yield (x[0] + a, "-" + b)
    if y:
        for a, b in all_alignments(x, y[1:]): yield ("-" + a, y[0] + b)
seqs = ["".join(p) for L in (1, 2, 3) for p in itertools.product("AC", repeat=L)] + ["ACGT", "AGT", "TTAC"]
d, e = 10, 2
for x, y in itertools.product(seqs, repeat=2):
    s1 = make_seq(x, name="x", moltype="dna"); s2 = make_seq(y, name="y", moltype="dna")
    n += 1
    try:
        aln, sc = classic_align_pairwise(s1, s2, S, d, e, False, return_score=True)
    except Exception as ex:
        bad[("exc", type(ex).__name__)].append((x, y, str(ex)[:60])); continue
    dd = aln.to_dict()
    if dd["x"].replace("-", "") != x or dd["y"].replace("-", "") != y: bad["content"].append((x, y, dd))
    if len(dd["x"]) != len(dd["y"]): bad["ragged"].append((x, y, dd))
    best = max(score_path(a, b, S, d, e) for a, b in all_alignments(x, y))
    mine = score_path(dd["x"], dd["y"], S, d, e)
    if mine != best: bad["not_optimal_under_my_scoring"].append((x, y, dd, mine, best, sc))
print("pairs", n, {str(k): len(v) for k, v in bad.items()})
for k, v in bad.items(): print(k, v[:4])
