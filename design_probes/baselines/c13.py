import itertools, collections, pathlib, shutil, hashlib
from cogent3.app.data_store import DataStoreDirectory
from cogent3.app.sqlite_data_store import DataStoreSqlite
bad = collections.defaultdict(list); n = 0
work = pathlib.Path("/root/scratch/base/w13"); shutil.rmtree(work, ignore_errors=True); work.mkdir()
ids = ["a", "ba", "a.b", "b"]
ops = [("w", i) for i in ids] + [("nc", i) for i in ids] + [("drop", i) for i in ids[:2]] + [("dropall", None), ("reopen_a", None), ("reopen_r", None)]
def view(ds, kind):
    comp = {}; nc = {}
    for m in ds.completed:
        comp[pathlib.Path(m.unique_id).name] = m.read()
    for m in ds.not_completed:
        nc[pathlib.Path(m.unique_id).name] = m.read()
    return comp, nc
def norm(i, kind, table):
    if kind == "dir": return f"{i}.fa" if table == "c" else f"{i}.json"
    return i
import random
random.seed(5)
def run(kind, hist, k):
    src = work / f"{kind}{k}" if kind == "dir" else work / f"{kind}{k}.sqlitedb"
    mk = (lambda mode: DataStoreDirectory(src, mode=mode, suffix="fa")) if kind == "dir" else (lambda mode: DataStoreSqlite(src, mode=mode))
    ds = mk("w"); mode = "w"
    comp = {}; nc = {}
    for step, (op, i) in enumerate(hist):
        err = None
        try:
            if op == "w":
                exp_err = (mode == "r") or (mode == "a" and norm(i, kind, "c") in comp)
                ds.write(unique_id=f"{i}.fa" if kind == "dir" else i, data=f"C-{i}-{step}")
            elif op == "nc":
                exp_err = (mode == "r") or (mode == "a" and norm(i, kind, "n") in nc)
                ds.write_not_completed(unique_id=i, data=f"N-{i}-{step}")
            elif op == "drop":
                exp_err = False
                ds.drop_not_completed(unique_id=i)
            elif op == "dropall":
                exp_err = False
                ds.drop_not_completed()
            else:
                exp_err = False
                if hasattr(ds, "close"): ds.close()
                mode = op[-1]; ds = mk(mode)
        except Exception as e:
            err = e
        # model
        if err is None:
            if op == "w":
                comp[norm(i, kind, "c")] = f"C-{i}-{step}"; nc.pop(norm(i, kind, "n"), None)
            elif op == "nc":
                if not (kind == "dir" and norm(i, kind, "n") in nc and False): nc[norm(i, kind, "n")] = f"N-{i}-{step}"
            elif op == "drop":
                nc.pop(norm(i, kind, "n"), None)
            elif op == "dropall":
                nc.clear()
        else:
            if not exp_err:
                return ("unexpected_exc", type(err).__name__, str(err)[:50], step)
            continue
        try:
            gc, gn = view(ds, kind)
        except Exception as e:
            return ("view_exc", type(e).__name__, str(e)[:50], step)
        if gc != comp: return ("completed", step, gc, comp)
        if gn != nc: return ("not_completed", step, gn, nc)
    return None
k = 0
for kind in ("dir", "sql"):
    hists = list(itertools.product(ops, repeat=3))
    random.shuffle(hists)
    for hist in hists[:700]:
        k += 1; n += 1
        try:
            r = run(kind, hist, k)
        except Exception as e:
            r = ("harness", type(e).__name__, str(e)[:60])
        if r: bad[(kind, r[0])].append((hist, r[1:]))
shutil.rmtree(work, ignore_errors=True)
print("histories", n, {str(k): len(v) for k, v in bad.items()})
for k, v in bad.items():
    print(k); [print("   ", x) for x in v[:3]]
