import itertools, collections, random, numpy
from cogent3 import make_tree, make_aligned_seqs, get_model
bad = collections.defaultdict(list); n = 0
random.seed(4)
def lnL(model, nw, seqs, **rules):
    tree = make_tree(nw); sm = get_model(model)
    lf = sm.make_likelihood_function(tree)
    lf.set_alignment(make_aligned_seqs(seqs, moltype="dna"))
    if model not in ("JC69", "F81"): pass
    for k, v in rules.items(): lf.set_param_rule(k, init=v)
    if model not in ("JC69", "K80"): lf.set_motif_probs({"A": 0.1, "C": 0.2, "G": 0.3, "T": 0.4})
    for e in tree.get_edge_vector(include_root=False): lf.set_param_rule("length", edge=e.name, init=e.length)
    return lf.lnL
seqs = {"a": "ACGTRA-NACGA", "b": "ACGTAAYCACGT", "c": "ATGTGACCTCGA", "d": "CCGTAAGCACTA"}
base_nw = "((a:0.1,b:0.2):0.3,(c:0.3,d:0.05):0.4);"
for model, rules in [("JC69", {}), ("HKY85", {"kappa": 3.2}), ("GTR", {"A/C": 1.5, "A/G": 3.0, "A/T": 0.7, "C/G": 1.2, "C/T": 4.0}), ("GN", {})]:
    l0 = lnL(model, base_nw, seqs, **rules)
    # column permutation
    L = len(seqs["a"]); perm = list(range(L)); random.shuffle(perm)
    l1 = lnL(model, base_nw, {k: "".join(v[i] for i in perm) for k, v in seqs.items()}, **rules)
    # repeat columns k=3
    l2 = lnL(model, base_nw, {k: v * 3 for k, v in seqs.items()}, **rules)
    # child reorder
    l3 = lnL(model, "((d:0.05,c:0.3):0.4,(b:0.2,a:0.1):0.3);", seqs, **rules)
    # seq reorder
    l4 = lnL(model, base_nw, dict(reversed(list(seqs.items()))), **rules)
    # re-root (reversible only): unrooted version and root on another edge
    l5 = lnL(model, "(a:0.1,b:0.2,(c:0.3,d:0.05):0.7);", seqs, **rules)
    l6 = lnL(model, "(((a:0.1,b:0.2):0.7,c:0.3):0.02,d:0.03);", seqs, **rules)
    # edge split
    l7 = lnL(model, "((a:0.1,b:0.2):0.3,((c:0.1)x:0.2,d:0.05):0.4);", seqs, **rules)
    print(model, [round(x, 10) for x in (l0, l1, l2 / 3, l3, l4, l5, l6, l7)])
