import collections, pathlib, shutil, itertools
from cogent3 import make_table, load_table
bad = collections.defaultdict(list); n = 0
work = pathlib.Path("/root/scratch/base/w20"); shutil.rmtree(work, ignore_errors=True); work.mkdir()
cells = ["a", "a,b", "a\tb", 'q"q', "", " x ", "1", "1.5", "True", "None", "#c"]
for c1, c2 in itertools.product(cells, repeat=2):
    for sfx in ("tsv", "csv", "tsv.gz"):
        t = make_table(header=["k", "v", "n"], data=[[c1, "z", 1], [c2, "y", 2]])
        p = work / f"t.{sfx}"
        n += 1
        try:
            t.write(str(p)); back = load_table(str(p))
        except Exception as e:
            bad[("exc", sfx, type(e).__name__)].append((c1, c2, str(e)[:60])); continue
        exp = [[c1, "z", 1], [c2, "y", 2]]
        got = back.to_list() if hasattr(back, "to_list") else back.tolist()
        if list(back.header) != ["k", "v", "n"]: bad[("header", sfx)].append((c1, c2, back.header))
        elif [[str(x) for x in r] for r in got] != [[str(x) for x in r] for r in exp]:
            bad[("cells", sfx)].append((c1, c2, got))
shutil.rmtree(work, ignore_errors=True)
print("cases", n, {str(k): len(v) for k, v in bad.items()})
for k, v in bad.items(): print(k, v[:4])
# ops
t = make_table(header=["a", "b"], data=[[1, "x"], [1, "y"], [0, "x"], [2, "x"]])
print("sorted", t.sorted(columns=["a"]).to_list(), t.sorted(columns=["a", "b"], reverse=["b"]).to_list())
u = make_table(header=["a", "c"], data=[[1, "p"], [1, "q"], [3, "r"]])
print("inner", t.inner_join(u, columns_self="a", columns_other="a").to_list())
