#!/verif/.venv/bin/python
"""tools/run_bounded.py Cnn [quick|thorough] [contract ...] -- run one bounded module through the harness"""
import os, sys, time, warnings
ROOT = os.path.dirname(os.path.dirname(os.path.abspath(__file__)))
sys.path.insert(0, ROOT)
os.environ.setdefault("NUMBA_CACHE_DIR", os.path.join(ROOT, ".work", "numba"))
os.environ.setdefault("OMP_NUM_THREADS", "1"); os.environ.setdefault("OPENBLAS_NUM_THREADS", "1")
warnings.filterwarnings("ignore")
from pyvc.harness import Check
prop = sys.argv[1]
tier = sys.argv[2] if len(sys.argv) > 2 else "quick"
names = sys.argv[3:] or None
chk = Check(prop, tier, int(os.environ.get("VERIF_SEED", "0")))
t = time.time()
chk.bounded(f"bounded.{prop}", names)
print(f"wall {time.time() - t:.1f}s")
for b in chk.bounded_results:
    print({k: v for k, v in b.items() if k not in ("samples", "functions", "bound", "rule")})
for e in chk.errors:
    print("CHECKER-ERROR", e[:1500])
for f in sorted(chk.failures, key=lambda f: f.key):
    print("FAIL", f.key, "| n=", f.extra.get("count"), "|", f.message[:600])
