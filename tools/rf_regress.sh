#!/bin/bash
# tools/rf_regress.sh -- every harmless refactor under harmless/ must pass the check of its property without VIOLATION
cd /verif
for d in harmless/*.diff; do
  b=$(basename $d .diff); prop=${b%%-*}
  props=$prop
  case $b in C02-r1) props="C02 C11";; C02-r3) props="C15";; C16-r3) props="C15";; C16-r4) props="C16 C05";; C10-r2) props="C10 C01";; C01-*) props="C01 C04";; esac
  out=$(tools/rf_eval.sh /verif/$d $props 2>&1)
  nv=$(echo "$out" | grep -c "^VIOLATION"); nu=$(echo "$out" | grep -c "^UNDECIDED"); ne=$(echo "$out" | grep -c "CHECKER-ERROR")
  echo "$b props=[$props] violations=$nv undecided=$nu errors=$ne"
done
