#!/bin/bash
# tools/rf_eval.sh <patch.diff> <property> [more properties...]  -- behaviour-preserving change: no check may report a VIOLATION
patch=$1; shift
scratch=$(mktemp -d /tmp/rfeval_XXXXXX)
mkdir -p $scratch/mut; cp -r /repo/src $scratch/mut/src
(cd $scratch/mut && patch -p1 -s < "$patch") || { echo "PATCH DOES NOT APPLY"; rm -rf $scratch; exit 9; }
for prop in "$@"; do
  echo "== ./check $prop on $(basename $(dirname $patch))/$(basename $patch)"
  (cd /verif && VERIF_REPO=$scratch/mut VERIF_PYTHONPATH=$scratch/mut/src NUMBA_CACHE_DIR=$scratch/numba timeout 3000 ./check $prop 2>&1 | grep -v "^    " | cut -c1-400 | grep -v "^KNOWN-FINDING" | grep -E "VIOLATION|UNDECIDED|undecided|ERROR|^OK|^C[0-9][0-9] \[" | tail -12)
done
rm -rf $scratch
