#!/usr/bin/env python3
import json, sys
pid, wt = sys.argv[1], sys.argv[2]
variant = sys.argv[3] if len(sys.argv) > 3 else ""
p = [json.loads(l) for l in open('/verif/properties.jsonl')]
p = [x for x in p if x['id'] == pid][0]
print(f"""You are a software engineer asked to play the adversary in a robustness study of the Python library cogent3 (comparative genomics toolkit). You work ONLY inside your own scratch git worktree of the repository at {wt} (source under {wt}/src/cogent3, tests under {wt}/tests). Do not read or write anything under /verif or /repo, and do not look for any verification tooling: your work must be independent of it. The sandbox is offline.

The library is supposed to satisfy this semantic property:

  {p['title']}
  {p['statement']}
  (It is quantified over: {p['quantifier']['text']})

Your task: make ONE small, realistic change to the library source in your worktree (the kind of slip a maintainer could make in a refactor, an optimisation or a bug fix: an off-by-one, a wrong default, a dropped or swapped argument, a condition that is subtly too weak or too strong, a cache that is not invalidated, two sites that each look fine alone) that BREAKS the property above while
  (a) the package still imports and the existing test-suite still passes -- at least run the test files that exercise the code you touch, e.g.  cd {wt} && PYTHONPATH={wt}/src timeout 1800 /venv/bin/python -m pytest -q -p no:cacheprovider tests/<relevant files>   (tests that need the network already fail offline; ignore those), and
  (b) the breakage needs something SPECIFIC to manifest -- an unusual input (boundary lengths, negative or out-of-range indices, strided or reversed views, names with special characters, empty or gap-only data), a multi-step sequence of operations, a particular fault/crash point or interleaving, or two cooperating sites -- i.e. not something ordinary use or the first obvious test would expose at once. {variant}
Prefer changes in the files the property is anchored in: {', '.join(p['anchors']['files'])}.

Deliverables, all inside {wt}/OUT/ (create it):
  * patch.diff  -- output of `git -C {wt} diff` (source changes only, no test changes);
  * demo.py     -- a small self-contained program (run as  PYTHONPATH={wt}/src /venv/bin/python demo.py ) that exits 0 and prints OK on the UNCHANGED source but exits non-zero with a clear message on the changed source; it must demonstrate a violation of the property statement itself (compare against plain Python strings / dicts / explicit formulas), not merely a difference from the old behaviour;
  * notes.md    -- which clause of the property breaks, what is needed to make it manifest, which tests you ran (with their pass counts).
Verify both directions yourself: to run demo.py on the unchanged source save your change with `git -C {wt} diff > {wt}/OUT/patch.diff`, undo it with `git -C {wt} apply -R {wt}/OUT/patch.diff`, run, and re-apply it with `git -C {wt} apply {wt}/OUT/patch.diff` (do NOT use `git stash`: the stash is shared between worktrees of this repository and other people work in sibling worktrees). Leave the change applied in the worktree when you finish. Your final message: the three file paths and a five-line summary.""")
