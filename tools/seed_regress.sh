#!/bin/bash
# tools/seed_regress.sh [seed ids...]  -- every kept seed must still be reported (VIOLATION) by the check of its property
cd /verif
ids=${@:-$(ls seeded)}
for sd in $ids; do
  prop=$(python3 -c "import json;print(json.load(open('seeded/$sd/meta.json')).get('property','${sd%%-*}'))" 2>/dev/null || echo ${sd%%-*})
  out=$(tools/seed_eval.sh $sd $prop /verif/seeded/$sd/patch.diff /verif/seeded/$sd/demo.py 2>&1)
  nv=$(echo "$out" | grep -c "^VIOLATION")
  st=$(echo "$out" | grep "^C[0-9][0-9] \[" | tail -1 | grep -o "violations=[0-9]* undecided=[0-9]* errors=[0-9]*")
  ap=$(echo "$out" | grep -c "PATCH DOES NOT APPLY")
  echo "$sd $prop lines=$nv $st $( [ $ap -gt 0 ] && echo PATCH-DOES-NOT-APPLY )"
done
