#!/usr/bin/env python3
"""tools/state_table.py -- markdown table of the current state, from evidence/*.json, known_findings.json and seeded/"""
import glob, json, os, re
root = os.path.dirname(os.path.dirname(os.path.abspath(__file__)))
kf = json.load(open(os.path.join(root, "known_findings.json")))["findings"]
print("| id | level | obligations / discharged (quick) | by back end | functions under a proof contract | bounded contracts / evaluations | findings / fixed | seeds kept |")
print("|---|---|---|---|---|---|---|---|")
for i in range(1, 21):
    pid = f"C{i:02d}"
    e = json.load(open(os.path.join(root, "evidence", pid + ".json")))
    c = e["coverage"]
    fns = sorted({(f.get("qualname") or f.get("name") or str(f)).split(".")[-1] if isinstance(f, dict) else str(f).split(".")[-1] for f in c["functions_under_contract"]})
    be = ", ".join(f"{re.sub(r' .*', '', k)} {v}" for k, v in sorted(c["discharged_by_backend"].items(), key=lambda kv: -kv[1])[:4])
    nf = sum(1 for f in kf if f["property"] == pid and f["status"] == "finding")
    nx = sum(1 for f in kf if f["property"] == pid and f["status"] == "fixed")
    ns = len(glob.glob(os.path.join(root, "seeded", pid + "-s*")))
    print(f"| {pid} | {e['level']} | {c['obligations']} / {c['discharged']} | {be} | {', '.join(fns)} | {len(c['bounded'])} / {c['evaluations']} | {nf} / {nx} | {ns} |")
