#!/usr/bin/env python3
"""Regenerates MANIFEST.json from tools/manifest_meta.json (claimed checks) + properties.jsonl."""
import json, os
ROOT = os.path.dirname(os.path.dirname(os.path.abspath(__file__)))
props = [json.loads(l) for l in open(os.path.join(ROOT, "properties.jsonl"))]
meta = json.load(open(os.path.join(ROOT, "tools", "manifest_meta.json")))
checks, na = [], []
for p in props:
    pid = p["id"]
    m = meta.get(pid)
    if not m or not m.get("claimed"):
        na.append({"property_id": pid, "reason": (m or {}).get("reason", "check not built yet in this round (planned, see DESIGN.md section 6)")})
        continue
    checks.append({
        "property_id": pid,
        "quick_cmd": f"./check {pid} --tier quick",
        "thorough_cmd": f"./check {pid} --tier thorough",
        "evidence_file": f"evidence/{pid}.json",
        "replay_cmd_template": "./check replay {path}",
        "engine": "pyvc",
        "level_claimed": {"category": m["category"], "text": m["text"], "design_ref": f"DESIGN.md section 6 / {pid}"},
        "level_note": m["note"],
        "technique": m["technique"],
    })
man = {
    "version": 1, "setup_cmd": "./setup.sh",
    "hooks": {"guard": "COGENT3_VERIF",
              "enable": "none needed: contracts are sidecar files under /verif/contracts; nothing in /repo is instrumented; fault injection for replay is monkeypatching inside the check process",
              "baseline_off_cmd": "cd /repo && /venv/bin/python -m pytest -ra -q -p no:cacheprovider --timeout=900 --continue-on-collection-errors",
              "source_commits": [], "add_only": True},
    "engines": [{"name": "pyvc", "path": "pyvc/", "serves_properties": [c["property_id"] for c in checks],
                 "kind_free_text": "contract-based deductive verification: AST->SMT verification-condition generator over the real cogent3 source (re-read every run), sidecar contracts, z3/cvc5 CLI portfolio; finite-domain full enumeration; bounded run-time contracts as labelled stand-in (never counted as proved)"}],
    "checks": checks,
    "notes": "see DESIGN.md; known findings in known_findings.json",
    "not_applicable": na,
}
json.dump(man, open(os.path.join(ROOT, "MANIFEST.json"), "w"), indent=1)
print("claimed:", [c["property_id"] for c in checks], "n/a:", len(na))
