#!/bin/bash
# tools/seed_eval.sh <seed-id> <property> <patch.diff> <demo.py> [check args...]
# Confirms a seeded change in a scratch copy of /repo/src (demo passes without / fails with the patch), then runs
# ./check <property> against the patched copy (VERIF_REPO/VERIF_PYTHONPATH), never touching /repo itself.
id=$1; prop=$2; patch=$3; demo=$4; shift 4
scratch=$(mktemp -d /tmp/seedeval_XXXXXX)
mkdir -p $scratch/clean $scratch/mut
cp -r /repo/src $scratch/clean/src; cp -r /repo/src $scratch/mut/src
(cd $scratch/mut && patch -p1 -s < "$patch") || { echo "PATCH DOES NOT APPLY to current /repo"; rm -rf $scratch; exit 9; }
echo "== demo on clean copy"; (cd $scratch && PYTHONPATH=$scratch/clean/src timeout 600 /venv/bin/python "$demo" >/tmp/seed_demo_clean.txt 2>&1; echo "exit=$?"; tail -2 /tmp/seed_demo_clean.txt)
echo "== demo on patched copy"; (cd $scratch && PYTHONPATH=$scratch/mut/src timeout 600 /venv/bin/python "$demo" >/tmp/seed_demo_mut.txt 2>&1; echo "exit=$?"; tail -3 /tmp/seed_demo_mut.txt)
echo "== ./check $prop on patched copy"
(cd /verif && VERIF_REPO=$scratch/mut VERIF_PYTHONPATH=$scratch/mut/src NUMBA_CACHE_DIR=$scratch/numba timeout 3000 ./check $prop "$@" 2>&1 | grep -v "^    " | cut -c1-300 | grep -v "^KNOWN-FINDING" | tail -12)
rm -rf $scratch
