#!/usr/bin/env python3
"""tools/kf.py <id> <property> <finding|fixed> <match-regex> <what> [commit]  -- append/replace an entry of known_findings.json"""
import json, sys
p = '/verif/known_findings.json'
d = json.load(open(p))
id_, prop, status, match, what = sys.argv[1:6]
commit = sys.argv[6] if len(sys.argv) > 6 else None
e = {"id": id_, "property": prop, "status": status, "match": match}
if status == "fixed":
    e["commit"] = commit
    e["line"] = f"fixed: property={prop} {commit} {what}"
else:
    e["what"] = what
d["findings"] = [x for x in d["findings"] if x["id"] != id_] + [e]
json.dump(d, open(p, 'w'), indent=1)
print("ok", id_)
