#!/usr/bin/env python3
"""tools/seed_keep.py <seed-id> <property> <OUT dir> <caught-by text> -- store a confirmed seeded change under /verif/seeded/"""
import json, os, shutil, sys
sid, prop, out, caught = sys.argv[1:5]
d = f"/verif/seeded/{sid}"
os.makedirs(d, exist_ok=True)
for f in ("patch.diff", "demo.py", "notes.md"):
    if os.path.exists(os.path.join(out, f)):
        shutil.copy(os.path.join(out, f), os.path.join(d, f))
notes = open(os.path.join(out, "notes.md")).read() if os.path.exists(os.path.join(out, "notes.md")) else ""
json.dump({"id": sid, "property": prop, "breaks": "see notes.md", "needs_to_manifest": notes[:1500],
           "confirmed": "demo.py exits 0 on a clean copy of /repo/src and non-zero on the patched copy (tools/seed_eval.sh); the "
                        "author agent ran the related test files on the patched tree (counts in notes.md)",
           "ran": f"tools/seed_eval.sh {sid} {prop} seeded/{sid}/patch.diff seeded/{sid}/demo.py",
           "check_result": caught}, open(os.path.join(d, "meta.json"), "w"), indent=1)
print("kept", d)
