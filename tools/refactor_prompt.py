#!/usr/bin/env python3
"""prompt for a sub-agent that writes BEHAVIOUR-PRESERVING changes (false-alarm test of the checks)"""
import json, sys
pid, wt = sys.argv[1], sys.argv[2]
focus = sys.argv[3] if len(sys.argv) > 3 else ""
p = [json.loads(l) for l in open('/verif/properties.jsonl')]
p = [x for x in p if x['id'] == pid][0]
print(f"""You are a maintainer of the Python library cogent3 (comparative genomics toolkit). You work ONLY inside your own scratch git worktree of the repository at {wt} (source under {wt}/src/cogent3, tests under {wt}/tests). Do not read or write anything under /verif or /repo, and do not look for any verification tooling. The sandbox is offline.

The library satisfies (and must continue to satisfy) this semantic property:

  {p['title']}
  {p['statement']}

Your task: produce THREE independent, realistic, BEHAVIOUR-PRESERVING changes to the code this property depends on -- the kind of harmless edit that lands in a code base every week: renaming locals, reordering independent statements, extracting or inlining a helper, replacing an if/else by a conditional expression (or the reverse), rewriting a comprehension as a loop, an early return, replacing `a - b > 0` by `a > b`, hoisting a computation, a micro-optimisation, adding type hints / a docstring / a defensive assertion that can never fire, using a different but equivalent library call. Each change must leave the observable behaviour of every public function exactly as it is (same results, same exceptions, same files written) for ALL inputs -- think carefully about corner cases (negative steps, empty data, None arguments) so that you really preserve behaviour. {focus}
Work in these files: {', '.join(p['anchors']['files'])} -- choose functions that are central to the property (not peripheral helpers), and make each change touch 5-40 lines.

For each change k = 1, 2, 3: start from the unchanged source (`git -C {wt} checkout -- .`), make the change, run the test files that exercise the touched code (cd {wt} && PYTHONPATH={wt}/src timeout 1800 /venv/bin/python -m pytest -q -p no:cacheprovider tests/<relevant files>; tests needing the network fail offline, ignore those), and save `git -C {wt} diff` as {wt}/OUT/refactor_k.diff together with two lines in {wt}/OUT/notes.md saying what the change is and why behaviour is preserved. Finish with the worktree reset to the unchanged source. Your final message: the three file names and one line each.""")
