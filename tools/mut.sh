#!/bin/bash
# tools/mut.sh <file-under-/repo/src/cogent3> <python-regex> <replacement> <check args...>
# applies one textual mutation to /repo (first match only), runs ./check, reverts. For self-tests only.
f=/repo/src/cogent3/$1; pat=$2; rep=$3; shift 3
cp "$f" /root/.mut_backup.py
python3 - "$f" "$pat" "$rep" <<'PY'
import re,sys
f,pat,rep=sys.argv[1:4]
s=open(f).read()
n=len(re.findall(pat,s))
s2=re.sub(pat,rep,s,count=1)
assert s2!=s, "pattern did not match"
open(f,'w').write(s2)
print(f"mutated {f}: {n} match(es), first replaced")
PY
rc=$?
if [ $rc -eq 0 ]; then (cd /verif && timeout 3000 ./check "$@" 2>&1 | grep -v "^    obligation" | cut -c1-400 | tail -8); fi
cp /root/.mut_backup.py "$f"; git -C /repo status --short
