#!/bin/bash
# tools/mut.sh <file-under-src/cogent3> <python-regex> <replacement> <check args...>
# Applies one textual mutation to a SCRATCH COPY of /repo/src (never to /repo itself, so concurrently running
# checks are not disturbed), runs ./check against the copy (VERIF_REPO + PYTHONPATH), removes the copy.
scratch=$(mktemp -d /tmp/mut_XXXXXX)
mkdir -p "$scratch/src" && cp -r /repo/src/cogent3 "$scratch/src/cogent3"
f=$scratch/src/cogent3/$1; pat=$2; rep=$3; shift 3
python3 - "$f" "$pat" "$rep" <<'PY'
import re,sys
f,pat,rep=sys.argv[1:4]
s=open(f).read()
n=len(re.findall(pat,s))
s2=re.sub(pat,rep,s,count=1)
assert s2!=s, "pattern did not match"
open(f,'w').write(s2)
print(f"mutated copy of {f.split('/src/')[1]}: {n} match(es), first replaced")
PY
rc=$?
if [ $rc -eq 0 ]; then (cd /verif && VERIF_REPO=$scratch VERIF_PYTHONPATH=$scratch/src NUMBA_CACHE_DIR=$scratch/numba timeout 3000 ./check "$@" 2>&1 | grep -v "^    obligation" | cut -c1-400 | tail -8); fi
rm -rf "$scratch"
