#!/usr/bin/env python3
import json, sys
pid = sys.argv[1]
extra = sys.argv[2] if len(sys.argv) > 2 else ""
p = [json.loads(l) for l in open('/verif/properties.jsonl')]
p = [x for x in p if x['id'] == pid][0]
print(f"""You are helping build a verification framework in /verif for the Python library cogent3 (source in /repo/src/cogent3; import it with the interpreter /verif/.venv/bin/python, which also has numpy/scipy). The sandbox is offline. Your single task: write /verif/bounded/{pid}.py -- the *bounded run-time contract* tier for property {pid}.

Property {pid} -- {p['title']}
Statement: {p['statement']}
Quantifier: {p['quantifier']['text']}
Anchor files: {', '.join(p['anchors']['files'])}

Read first, in this order:
1. /verif/bounded/README.md  (the API you must follow, budgets, rules)
2. /verif/bounded/C01.py     (a complete worked example: generators, spec functions, contracts, keys, BOUNDED dict)
3. In /verif/DESIGN.md the section starting '### {pid} ' -- the paragraph(s) marked *Bounded (B)* describe the contracts, the abstract view, the independent spec and the enumeration domain you should build. Ignore the 'Deductive core (P)' parts: someone else builds those. Also read section 9 of DESIGN.md ('Suspected genuine defects') rows for {pid}: those are defects already seen on this tree; your contracts are expected to rediscover them.
4. /verif/design_probes/baselines/{pid.lower()}*.py -- throw-away baseline script(s) that show which cogent3 APIs to call (do not import them; they are scratch).
5. The real code under /repo/src/cogent3 that the property is anchored in -- derive call shapes from the code, but take each postcondition from the property statement, so that code which disagrees with the property FAILS instead of being encoded.

Rules:
* Write ONLY /verif/bounded/{pid}.py (you may add small pure helper modules under /verif/speclib/ if a spec function is worth sharing, named {pid.lower()}_*.py). Do not touch /repo, /verif/pyvc, /verif/contracts, MANIFEST.json, known_findings.json, DESIGN.md or other bounded modules. Do not commit anything with git.
* Test with:  cd /verif && tools/run_bounded.py {pid} quick   (and 'thorough'). Always wrap long commands in `timeout`. Other people are using the same 16 cores, so wall-clock numbers are noisy; aim for quick <= 45 s and thorough <= 6 min when the machine is idle.
* Each contract compares the real code against an independent spec (plain strings/dicts/lists/explicit formulas written by you), over the WHOLE abstract view. Enumerate exhaustively up to the stated bound; add a seeded random sample (random.Random(seed)) beyond the frontier in the thorough tier.
* Failure keys must be stable and specific: call site + witness pattern, not the concrete input (see README). Different root causes must get different keys.
* For every failure on the unchanged tree decide: (a) genuine defect of cogent3 -- the real code breaks the property statement; keep the contract, minimise the witness; or (b) your contract/spec is wrong or demands more than the property states -- fix the contract. Never weaken a contract or drop inputs just to get a green run, and never special-case a failing input.
* No false alarms: where the property statement leaves behaviour open (documented truncation, which exception type, tie-breaking), the contract must accept every behaviour the statement allows.
{extra}
Final report (your last message, plain text, <= 60 lines): the contracts you wrote (name, what it checks, bound, evaluations in quick/thorough, wall time); every failure key that remains on the unchanged tree with a minimal witness (exact Python snippet that reproduces it natively), why it is a genuine defect, and a suggested regex over keys for known_findings.json; anything from the DESIGN section you did not build and why.""")
