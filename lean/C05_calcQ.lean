import Mathlib
open BigOperators Matrix

/-! C05: algebra of `calcQ` (term generated from the numpy body by contracts/C05_lean.py; lemmas hand-written).
    GENERATED-DEFS-BEGIN -/
variable {n : Type*} [Fintype n] [DecidableEq n]

noncomputable def calcQ (R : Matrix n n ℝ) (w : n → ℝ) : Matrix n n ℝ :=
  let Q0 : Matrix n n ℝ := R
  let rt : n → ℝ := fun i => ∑ j, Q0 i j
  let Q1 : Matrix n n ℝ := Q0 - Matrix.diagonal rt
  let Q2 : Matrix n n ℝ := (1 / ∑ i, w i * rt i) • Q1
  Q2
/-! GENERATED-DEFS-END -/

/-- every row of the calibrated rate matrix sums to zero -/
theorem calcQ_row_sum_zero (R : Matrix n n ℝ) (w : n → ℝ) (i : n) :
    ∑ j, calcQ R w i j = 0 := by
  simp [calcQ, Matrix.sub_apply, Matrix.diagonal_apply, Finset.sum_sub_distrib, Finset.sum_ite_eq,
        Matrix.smul_apply, ← Finset.mul_sum]

/-- off-diagonal entries are the exchangeabilities scaled by one common factor -/
theorem calcQ_offdiag (R : Matrix n n ℝ) (w : n → ℝ) (i j : n) (h : i ≠ j) :
    calcQ R w i j = (1 / ∑ k, w k * ∑ l, R k l) * R i j := by
  simp [calcQ, Matrix.sub_apply, Matrix.diagonal_apply, Matrix.smul_apply, h]

/-- off-diagonal sign is preserved when the normaliser is positive -/
theorem calcQ_offdiag_nonneg (R : Matrix n n ℝ) (w : n → ℝ) (i j : n) (h : i ≠ j)
    (hR : 0 ≤ R i j) (hc : 0 < ∑ k, w k * ∑ l, R k l) : 0 ≤ calcQ R w i j := by
  rw [calcQ_offdiag R w i j h]
  exact mul_nonneg (by positivity) hR

/-- calibration: with a zero-diagonal exchangeability matrix the expected rate at `w` is one -/
theorem calcQ_calibrated (R : Matrix n n ℝ) (w : n → ℝ) (hd : ∀ i, R i i = 0)
    (hc : (∑ k, w k * ∑ l, R k l) ≠ 0) : ∑ i, w i * (-(calcQ R w i i)) = 1 := by
  have h : ∀ i, w i * (-(calcQ R w i i)) = (1 / ∑ k, w k * ∑ l, R k l) * (w i * ∑ l, R i l) := by
    intro i
    simp [calcQ, Matrix.sub_apply, Matrix.diagonal_apply, Matrix.smul_apply, hd i]
    ring
  simp_rw [h, ← Finset.mul_sum]
  field_simp
