"""Bounded run-time contracts for C07 (stand-in tier; nothing here counts as proved).

Contract text.  A *history* is a finite sequence of public operations on one likelihood function ``lf``
(set_param_rule / set_motif_probs / set_alignment / updates_postponed blocks / apply_param_rules / calculator
change-vectors with update_from_calculator / optimise).  After EVERY step of every history

    view(lf)  == settings table obtained by reading the operations plainly (a rule assigns its value to the
                 edges it names, later rules override earlier ones; ``Settings`` below)           [whole view:
                 every (parameter, edge) value, constant flag, sharing group, motif probs, nfp]
    lf.lnL    == sum-product oracle (speclib/c02_spec.py: own rate matrix, scipy expm, own pruning) evaluated
                 at that table                                                                     (rtol 1e-9)
and after the last step
    lf.lnL    == lnL of a newly built cogent3 function given the table                             (rtol 1e-10)
    ``export``: new function + apply_param_rules(lf.get_param_rules()) has the same lnL and nfp.
``calculator``: after every change vector (optimiser interface or explicit change list; single, multiple,
reverting, partly reverting, out of bounds, cancelled by ParameterOutOfBoundsError) the returned value and EVERY
numeric cell of the active buffer equal those of a newly made calculator moved to the same vector in one step.

What the statement leaves open is accepted both ways: a value-less rule over edges with different values may
settle anywhere between them; a value outside new bounds may be kept or clipped; a refused operation may leave
either nothing or the part accepted before the refusal in force; after a *cancelled* calculator step the
calculator may stand at the previous vector or (when the step began by undoing) at an earlier one -- it only has
to be a working calculator at the vector it reports.  Which exception type refuses an operation is not checked.

A case is JSON: {"cfg": [model, ntips], "ops": [...]} / {"cfg":..., "setup": [...], "mode":..., "steps": [...]}.
Failure keys: contract/model/check/kinds of the ops of the *shrunk* history (ops are removed greedily while the
same check keeps failing), so a key names a root-cause pattern, not an input.  When the shrunk history needs a
block that was refused half-way before the failing step, the key is <contract>/<model>/not-following-after-
refused-block/<block kind> > any operation (which part of the view shows it first is in the message).
"""
from __future__ import annotations

import copy
import itertools
import json
import math
import random
import warnings

import numpy

from speclib import c02_spec as S

# ------------------------------------------------------------------------------------------------ fixed data
TREES = {3: "(a:0.1,b:0.2,c:0.3);", 4: "((a:0.1,b:0.2)n1:0.3,c:0.3,d:0.05);"}
ROWS = [
    {"a": "ACGTRA-NACGA", "b": "ACGTAAYCACGT", "c": "ATGTGACCTCGA", "d": "CCGTAAGCACTA"},
    {"a": "TTGTAACGAC", "b": "TCGTAACGAT", "c": "ATGTGACGTC", "d": "CCGTAAGGAC"},
]
GN_P = ["A>C", "A>G", "A>T", "C>A", "C>G", "C>T", "G>A", "G>C", "G>T", "T>A", "T>C"]
GS_P = ["A>G", "A>C", "C>G", "C>A", "A>T", "C>T", "T>G", "T>A", "T>C"]
PARAMS = {"HKY85": ["kappa"], "GN": GN_P, "GS": GS_P, "HKY85+gamma": ["kappa"]}
WEIGHTING = {"HKY85": "tuple", "GN": None}          # GS: no independent rate matrix here (fresh calculator only)
MAIN = {"HKY85": "kappa", "GN": "A>G", "GS": "A>G", "HKY85+gamma": "kappa"}
MPROBS_FREE_BY_DEFAULT = {"HKY85": False, "GN": True, "GS": True, "HKY85+gamma": False}
PI = [{"A": 0.1, "C": 0.2, "G": 0.3, "T": 0.4}, {"A": 0.3, "C": 0.3, "G": 0.15, "T": 0.25}]
BOUNDS = {"length": (0.0, 10.0)}
RATE_BOUNDS = (1e-6, 1e6)
RTOL_ORACLE = 1e-9
RTOL_FRESH = 1e-10


def rows_for(tips, i):
    return {k: v for k, v in ROWS[i].items() if k in "abcd"[:tips]}


def freqs(tips, i):
    """relative frequencies of the four nucleotides among the unambiguous characters of an alignment"""
    text = "".join(rows_for(tips, i).values())
    n = {x: text.count(x) for x in "ACGT"}
    tot = sum(n.values())
    return {x: n[x] / tot for x in "ACGT"}


# ------------------------------------------------------------------------------------------------ spec side
class Settings:
    """the settings of a likelihood function, by the plain reading of the operations applied to it"""

    def __init__(self, model, tips):
        self.model, self.tips = model, tips
        self.tree = S.parse_newick(TREES[tips])
        self.edges = S.edge_names(self.tree)
        self.rate_params = list(PARAMS[model])
        self.pars = self.rate_params + ["length"]
        self.sid, self.tab, self._n = {}, {}, 0
        for p in self.rate_params:            # one shared free value per rate parameter
            s = self._new(1.0, False, *RATE_BOUNDS)
            for e in self.edges:
                self.sid[(p, e)] = s
        for n in S.nodes(self.tree)[1:]:      # one free length per edge, from the tree
            self.sid[("length", n["name"])] = self._new(n["length"], False, *BOUNDS["length"])
        self.aln = 0
        self.mprobs = freqs(tips, 0)
        self.mprobs_const = not MPROBS_FREE_BY_DEFAULT[model]
        self.mprobs_explicit = False
        self.pending = []                     # values the statement leaves open, resolved from the report

    def _new(self, value, const, lower=None, upper=None):
        self._n += 1
        self.tab[self._n] = {"value": float(value), "const": bool(const), "lower": lower, "upper": upper}
        return self._n

    def copy(self):
        return copy.deepcopy(self)

    # -- scopes
    def scope_edges(self, scope):
        if "edge" in scope:
            return [scope["edge"]]
        if "edges" in scope:
            return list(scope["edges"])
        if "tip_names" in scope:
            a, b = scope["tip_names"]
            stem = bool(scope.get("stem", False))
            clade = scope.get("clade")
            clade = (not stem) if clade is None else bool(clade)
            return S.scope_edges(self.tree, a, b, clade=clade, stem=stem)
        return list(self.edges)

    # -- operations
    def apply_rule(self, par, scope, kw):
        edges = self.scope_edges(scope)
        indep = kw.get("is_independent")
        if indep is None:
            indep = par == "length"           # lengths are separate per edge unless asked otherwise
        groups = [[e] for e in edges] if indep else [edges]
        const = bool(kw.get("is_constant"))
        given = kw.get("value") if const else kw.get("init")
        staged = []
        for g in groups:
            cur = [self.tab[self.sid[(par, e)]] for e in g]
            amb = None
            if given is None:                 # keep the current value (the mean when the group is mixed)
                vals = [c["value"] for c in cur]
                v = sum(vals) / len(vals) if max(vals) != min(vals) else vals[0]
                if max(vals) != min(vals):
                    amb = ("range", min(vals), max(vals))
            else:
                v = float(given)
            if const:
                st = (v, True, None, None)
            else:
                free = [c for c in cur if not c["const"]]
                dlo, dhi = BOUNDS.get(par, RATE_BOUNDS)
                lo = min(c["lower"] for c in free) if free else dlo
                hi = max(c["upper"] for c in free) if free else dhi
                lo = kw.get("lower", lo) if kw.get("lower") is not None else lo
                hi = kw.get("upper", hi) if kw.get("upper") is not None else hi
                clipped = min(max(v, lo), hi)
                if clipped != v and amb is None:
                    amb = ("set", v, clipped)
                st = (clipped, False, lo, hi)
            staged.append((g, st, amb))
        for g, st, amb in staged:
            s = self._new(*st)
            for e in g:
                self.sid[(par, e)] = s
            if amb:
                self.pending.append((par, s, amb))

    def apply_mprobs(self, pi, is_constant):
        self.mprobs = {k: float(v) for k, v in pi.items()}
        self.mprobs_const = (not MPROBS_FREE_BY_DEFAULT[self.model]) if is_constant is None else bool(is_constant)
        self.mprobs_explicit = True

    def apply_aln(self, i):
        self.aln = i
        if not self.mprobs_explicit:          # motif probs follow the data until they are set explicitly
            self.mprobs = freqs(self.tips, i)
            self.mprobs_const = not MPROBS_FREE_BY_DEFAULT[self.model]

    # -- views
    def groups(self, par):
        out = {}
        for e in self.edges:
            out.setdefault(self.sid[(par, e)], []).append(e)
        return out

    def value(self, par, e):
        return self.tab[self.sid[(par, e)]]["value"]

    def nfp(self):
        free = {s for s in self.sid.values() if not self.tab[s]["const"]}
        return len(free) + (0 if self.mprobs_const else 3)

    def lnl(self):
        """sum-product over the tree with an own rate matrix (model definition) and scipy expm"""
        w = WEIGHTING[self.model]
        cache = {}

        def q(e):
            key = tuple(self.value(p, e) for p in self.rate_params)
            if key not in cache:
                cache[key] = S.rate_matrix("nuc", w, self.mprobs, dict(zip(self.rate_params, key)))[0]
            return cache[key]
        root = [self.mprobs[s] for s in S.states_of("nuc")]
        lh = S.site_likelihoods(self.tree, rows_for(self.tips, self.aln), "nuc", q,
                                lambda e: self.value("length", e), root)
        return S.log_likelihood(lh)


# ------------------------------------------------------------------------------------------------ op kinds
def _scope_kind(scope):
    if "edge" in scope:
        return "edge"
    if "edges" in scope:
        return "edges"
    if "tip_names" in scope:
        return "clade"
    return "all"


def kind(op):
    """class of an operation (used in failure keys; concrete values are left out)"""
    k = op[0]
    if k == "rule":
        _, par, scope, kw = op
        pn = "length" if par == "length" else "rate"
        what = []
        if kw.get("is_constant"):
            what.append("const" if kw.get("value") is not None else "const-novalue")
        elif kw.get("init") is not None:
            what.append("init")
        if kw.get("lower") is not None or kw.get("upper") is not None:
            what.append("bounds")
        if kw.get("is_independent") is not None:
            what.append("independent" if kw["is_independent"] else "shared")
        return f"rule({pn},{_scope_kind(scope)},{'+'.join(what) or 'novalue'})"
    if k == "mprobs":
        return "mprobs(%s)" % {None: "default", True: "const", False: "free"}[op[2]]
    if k == "aln":
        return "aln"
    if k == "bad":
        return f"bad-rule({op[1]})"
    if k in ("postponed", "batch"):
        return f"{k}[{' '.join(kind(o) for o in op[1])}]"
    if k == "calc":
        return "calc(%s)" % ("commit" if op[2] else "discard")
    if k == "opt":
        return "optimise"
    raise ValueError(op)


def contains_bad(op):
    return op[0] == "bad" or (op[0] in ("postponed", "batch") and any(contains_bad(o) for o in op[1]))


# ------------------------------------------------------------------------------------------------ real side
class Mismatch(Exception):
    def __init__(self, label, msg):
        super().__init__(label)
        self.label, self.msg = label, msg


def make_model(name):
    from cogent3 import get_model
    if name == "GS":
        from cogent3 import get_moltype
        from cogent3.evolve.ns_substitution_model import GeneralStationary
        return GeneralStationary(get_moltype("dna").alphabet, optimise_motif_probs=True, recode_gaps=True,
                                 model_gaps=False, name="GS")
    if name == "HKY85+gamma":               # two rate classes, discrete gamma (calculator contract only)
        return get_model("HKY85", ordered_param="rate", distribution="gamma")
    return get_model(name)


_ALN_CACHE = {}


def make_aln(tips, i):
    """alignment objects are built once per process (cogent3 does not modify an alignment it is given)"""
    if (tips, i) not in _ALN_CACHE:
        from cogent3 import make_aligned_seqs
        _ALN_CACHE[(tips, i)] = make_aligned_seqs(rows_for(tips, i), moltype="dna")
    return _ALN_CACHE[(tips, i)]


def build_lf(model, tips, aln=0):
    from cogent3 import make_tree
    kw = {"bins": 2} if model == "HKY85+gamma" else {}
    lf = make_model(model).make_likelihood_function(make_tree(TREES[tips]), **kw)
    lf.set_alignment(make_aln(tips, aln))
    return lf


def rule_kwargs(op):
    _, par, scope, kw = op
    d = {"par_name": par}
    d.update(scope)
    d.update(kw)
    return d


BAD = {"edge": {"par_name": None, "edge": "no_such_edge", "init": 2.0},
       "par": {"par_name": "no_such_param", "init": 2.0},
       "bounds": {"par_name": None, "lower": 5.0, "upper": 2.0}}


def bad_kwargs(op, model):
    d = dict(BAD[op[1]])
    if d["par_name"] is None:
        d["par_name"] = MAIN[model]
    return d


def resolve_step(step, hist, cur, lo, hi, names):
    """target vector of a calculator step"""
    n = len(cur)
    k = step[0]
    if n == 0:                                # nothing is free: every step is the empty vector
        return cur.copy()

    def put(vec, deltas):
        for idx, d in deltas.items():
            if idx == "*":
                for i in range(n):
                    vec[i] += d
            else:
                vec[int(idx) % n] += d
    if k == "set":
        t = cur.copy()
        put(t, step[1])
        return t
    if k in ("back", "backset"):
        j = step[1]
        t = hist[max(0, len(hist) - 1 - j)].copy()      # (the first vector when the history is shorter)
        if k == "backset":
            put(t, step[2])
        return t
    if k == "oob":
        i = int(step[1]) % n
        t = cur.copy()
        linear = names[i] == "length"
        huge = hi[i] > 100                     # a linear parameter with an astronomic upper bound (gamma shape)
        if step[2] == "hi":
            # (evaluating the gamma quantiles at 1e10 takes minutes: such a parameter is only moved far up)
            t[i] = 30.0 if huge else hi[i] + 1.0
        else:
            t[i] = lo[i] - (0.05 if linear else (0.005 if huge else 1.0))
        return t
    raise ValueError(step)


def optpar_info(calc):
    """(parameter name, edges) of every optimiser parameter"""
    out = []
    for p in calc.opt_pars:
        out.append((p.name, sorted({t[0] for t in p.scope})))
    return out


def run_calc_steps(calc, steps, mode="T"):
    """drive a calculator through steps; -> (final vector, value, list of (target, value | exception))"""
    names = [p.name for p in calc.opt_pars]
    lo, hi = calc.get_bounds_vectors()
    cur = numpy.array(calc.get_value_array(), float)
    hist = [cur.copy()]
    val = calc.testfunction()
    trace = []
    for step in steps:
        t = resolve_step(step, hist, cur, lo, hi, names)
        if t is None:
            continue
        try:
            val = apply_vector(calc, cur, t, mode)
        except Exception as e:  # a cancelled step leaves the calculator where it was
            trace.append((t, e))
            continue
        cur = t
        hist.append(t.copy())
        trace.append((t, val))
    return cur, val, trace


def apply_vector(calc, cur, target, mode):
    if mode in ("T", "T0"):
        return calc.testoptparvector(target.copy())
    if mode == "C":       # explicit change list: only what differs
        return calc.change([(i, float(target[i])) for i in range(len(cur)) if target[i] != cur[i]])
    if mode == "CR":      # explicit change list naming every parameter (also the unchanged ones)
        return calc.change([(i, float(target[i])) for i in range(len(cur))])
    raise ValueError(mode)


def real_apply(lf, op, M, state):
    """apply one operation to the real function and to the settings table M.
    state: {"tips", "model"}; raises whatever the real code raises (M then holds what was applied before)"""
    k = op[0]
    if k == "rule":
        lf.set_param_rule(**rule_kwargs(op))
        M.apply_rule(op[1], op[2], op[3])
    elif k == "mprobs":
        if op[2] is None:
            lf.set_motif_probs(dict(op[1]))
        else:
            lf.set_motif_probs(dict(op[1]), is_constant=op[2])
        M.apply_mprobs(op[1], op[2])
    elif k == "aln":
        lf.set_alignment(make_aln(state["tips"], op[1]))
        M.apply_aln(op[1])
    elif k == "bad":
        lf.set_param_rule(**bad_kwargs(op, state["model"]))     # expected to raise; accepted if it does not
    elif k == "postponed":
        with lf.updates_postponed():
            for o in op[1]:
                real_apply(lf, o, M, state)
    elif k == "batch":
        # the settings table follows rule by rule only when the batch goes through; a raising batch is handled
        # by the caller through the two candidate tables (nothing applied / rules before the bad one applied)
        rules = [bad_kwargs(o, state["model"]) if o[0] == "bad" else rule_kwargs(o) for o in op[1]]
        try:
            lf.apply_param_rules(rules)
        finally:
            for o in op[1]:
                if o[0] == "bad":
                    break
                M.apply_rule(o[1], o[2], o[3])
    elif k == "calc":
        calc = lf.make_calculator()
        info = optpar_info(calc)
        if len(info) != M.nfp():
            raise Mismatch("calculator/number-of-optimiser-parameters",
                           f"calculator has {len(info)} optimiser parameters, the settings have {M.nfp()} free values")
        cur, val, trace = run_calc_steps(calc, op[1])
        lo, hi = calc.get_bounds_vectors()
        # handing a vector back to the function is only defined inside the bounds
        if op[2] and bool(numpy.all(cur >= lo - 1e-12) and numpy.all(cur <= hi + 1e-12)):
            lf.update_from_calculator(calc)
            adopt_mprobs = False
            for (name, edges), x in zip(info, cur):
                if name == "mprobs_ratio":
                    adopt_mprobs = True
                    continue
                sids = {M.sid[(name, e)] for e in edges}
                if len(sids) != 1 or sorted(M.groups(name)[next(iter(sids))]) != edges:
                    raise Mismatch("calculator/parameter-scope", f"optimiser parameter {name} {edges} is not one "
                                   f"sharing group of the settings {M.groups(name)}")
                M.tab[next(iter(sids))]["value"] = float(x) if name == "length" else math.exp(float(x))
            if adopt_mprobs:
                M.pending.append(("mprobs", None, ("mprobs",)))
            state["calc_value"] = val
    elif k == "opt":
        lf.optimise(local=True, max_evaluations=op[1], limit_action="ignore", show_progress=False)
        for s in set(M.sid.values()):
            if not M.tab[s]["const"]:
                M.pending.append((None, s, ("any",)))
        if not M.mprobs_const:
            M.pending.append(("mprobs", None, ("mprobs",)))
    else:
        raise ValueError(op)


def close(a, b, rtol=1e-9, atol=1e-12):
    return abs(a - b) <= atol + rtol * max(abs(a), abs(b))


def reported_mprobs(lf):
    return {k: float(v) for k, v in lf.get_motif_probs().to_dict().items()}


def resolve_pending(lf, M):
    """where the statement leaves a value open the table adopts what the function reports, if it is allowed"""
    for par, s, amb in M.pending:
        if amb[0] == "mprobs":
            got = reported_mprobs(lf)
            if sorted(got) == list("ACGT") and all(v > 0 for v in got.values()) and close(sum(got.values()), 1, 1e-9):
                M.mprobs = got
            continue
        edges = [(p, e) for (p, e), x in M.sid.items() if x == s]
        if not edges:
            continue                          # overridden since
        p, e = edges[0]
        got = float(lf.get_param_value(p, edge=e))
        st = M.tab[s]
        if amb[0] == "range" and amb[1] - 1e-12 <= got <= amb[2] + 1e-12:
            st["value"] = got
        elif amb[0] == "set" and any(close(got, c) for c in amb[1:]):
            st["value"] = got
        elif amb[0] == "any" and st["lower"] - 1e-9 <= got <= st["upper"] + 1e-9:
            st["value"] = got
    M.pending = []


def rules_view(rules, M):
    out, mp, problems = {}, None, []
    for gid, r in enumerate(rules):
        par = r["par_name"]
        const = bool(r.get("is_constant"))
        v = r.get("value") if const else r.get("init")
        if par == "mprobs":
            mp = ({k: float(x) for k, x in dict(v).items()}, const)
            continue
        if par not in M.pars:
            problems.append(f"rule for unknown parameter {par}")
            continue
        edges = list(r["edges"]) if "edges" in r else ([r["edge"]] if "edge" in r else list(M.edges))
        for e in edges:
            if (par, e) in out:
                problems.append(f"two rules for {par} on {e}")
            out[(par, e)] = (float(v), const, gid)
    return out, mp, problems


def compare_view(lf, M, what="all"):
    """whole reported view against the settings table; -> None | (label, message)"""
    for p in M.pars:
        for e in M.edges:
            try:
                got = float(lf.get_param_value(p, edge=e))
            except Exception as ex:
                return (f"view/get_param_value-raises-{type(ex).__name__}", f"get_param_value({p!r}, edge={e!r}): {ex}")
            if not close(got, M.value(p, e)):
                return ("view/value", f"{p} on edge {e}: function reports {got!r}, the operations give {M.value(p, e)!r}")
    got = reported_mprobs(lf)
    if sorted(got) != sorted(M.mprobs) or not all(close(got[k], M.mprobs[k], 1e-9, 1e-9) for k in got):
        return ("view/motif-probs", f"function reports {got}, the operations give {M.mprobs}")
    if what == "values":
        return None
    try:
        rules = lf.get_param_rules()
    except Exception as ex:
        return (f"view/get_param_rules-raises-{type(ex).__name__}", str(ex))
    rv, mp, problems = rules_view(rules, M)
    if problems:
        return ("view/rules-malformed", "; ".join(problems))
    for p in M.pars:
        for e in M.edges:
            if (p, e) not in rv:
                return ("view/rules-missing", f"no exported rule covers {p} on edge {e}")
            v, const, gid = rv[(p, e)]
            st = M.tab[M.sid[(p, e)]]
            if const != st["const"]:
                return ("view/rules-constant-flag", f"{p} on {e}: exported is_constant={const}, operations give {st['const']}")
            if not close(v, st["value"]):
                return ("view/rules-value", f"{p} on {e}: exported rule says {v!r}, operations give {st['value']!r} "
                                            f"(get_param_value says {float(lf.get_param_value(p, edge=e))!r})")
        part_real = {}
        for e in M.edges:
            part_real.setdefault(rv[(p, e)][2], []).append(e)
        if sorted(part_real.values()) != sorted(M.groups(p).values()):
            return ("view/rules-groups", f"{p}: exported rules share values over {sorted(part_real.values())}, "
                                         f"operations give {sorted(M.groups(p).values())}")
    if mp is None:
        return ("view/rules-missing", "no exported rule for mprobs")
    if mp[1] != M.mprobs_const or not all(close(mp[0][k], M.mprobs[k], 1e-9, 1e-9) for k in M.mprobs):
        return ("view/rules-motif-probs", f"exported {mp}, operations give {(M.mprobs, M.mprobs_const)}")
    nfp = lf.nfp
    if nfp != M.nfp():
        return ("view/nfp", f"function reports {nfp} free parameters, the operations give {M.nfp()}")
    return None


def fresh_from_settings(M):
    """a newly built cogent3 function given the table"""
    lf = build_lf(M.model, M.tips, M.aln)
    lf.set_motif_probs(dict(M.mprobs), is_constant=M.mprobs_const)
    for p in M.pars:
        for s, edges in M.groups(p).items():
            st = M.tab[s]
            if st["const"]:
                lf.set_param_rule(p, edges=edges, is_independent=False, is_constant=True, value=st["value"])
            else:
                lf.set_param_rule(p, edges=edges, is_independent=False, init=st["value"], lower=st["lower"],
                                  upper=st["upper"])
    return lf


def lnl_close(a, b, rtol):
    if math.isnan(a) or math.isnan(b):
        return math.isnan(a) and math.isnan(b)
    return abs(a - b) <= rtol * max(1.0, abs(a), abs(b))


# ------------------------------------------------------------------------------------------------ history
def run_history(case, final_checks=True):
    """-> None | (label, message, index of the failing step)"""
    warnings.filterwarnings("ignore")
    model, tips = case["cfg"]
    ops = case["ops"]
    state = {"model": model, "tips": tips}
    try:
        lf = build_lf(model, tips)
    except Exception as e:
        return (f"build-raises-{type(e).__name__}", str(e), -1)
    M = Settings(model, tips)
    r = check_step(lf, M, state)
    if r:
        return (r[0], "initially: " + r[1], -1)
    for i, op in enumerate(ops):
        before = M.copy()
        state.pop("calc_value", None)
        try:
            real_apply(lf, op, M, state)
            raised = None
        except Mismatch as mm:
            return (mm.label, f"step {i} {op}: {mm.msg}", i)
        except Exception as e:
            raised = e
        if raised is not None:
            if not contains_bad(op):
                return (f"raises-{type(raised).__name__}", f"step {i} {op}: {type(raised).__name__}: {raised}", i)
            # a refused operation: either nothing of it is in force or the part accepted before the refusal is
            cands = [before, M]
            errs = []
            for c in cands:
                c.pending = []
                r = check_step(lf, c, state)
                if r is None:
                    M = c
                    break
                errs.append(r)
            else:
                r = errs[-1]
                return ("after-refused-op/" + r[0], f"step {i} {op} raised {type(raised).__name__}; the function then "
                        f"matches neither the settings before the step ({errs[0][1]}) nor those with the accepted "
                        f"part applied ({errs[1][1]})", i)
            continue
        resolve_pending(lf, M)
        r = check_step(lf, M, state)
        if r:
            return (r[0], f"step {i} {op}: {r[1]}", i)
        if "calc_value" in state and not lnl_close(float(lf.lnL), float(state["calc_value"]), RTOL_FRESH):
            return ("lnL-vs-calculator", f"step {i} {op}: lnL {float(lf.lnL)!r} after update_from_calculator, the "
                                         f"calculator returned {float(state['calc_value'])!r}", i)
    if final_checks:
        got = float(lf.lnL)
        try:
            ref = float(fresh_from_settings(M).lnL)
        except Exception as e:
            return (f"fresh-raises-{type(e).__name__}", f"building a new function from the final settings: {e}", len(ops) - 1)
        if not lnl_close(got, ref, RTOL_FRESH):
            return ("lnL-vs-new-function", f"lnL {got!r}, a newly built function with the same settings gives {ref!r}",
                    len(ops) - 1)
    return None


def check_step(lf, M, state):
    r = compare_view(lf, M, "values")
    if r:
        return r
    try:
        got = float(lf.lnL)
    except Exception as e:
        return (f"lnL-raises-{type(e).__name__}", str(e))
    want = M.lnl()
    if not lnl_close(got, want, RTOL_ORACLE):
        return ("lnL-stale", f"lnL {got!r}, the sum-product at the reported settings gives {want!r}")
    return compare_view(lf, M, "all")


def shrink(case, run, label):
    """greedily drop operations (and operations inside blocks) while the same check keeps failing"""
    ops = list(case["ops"])

    def fails(o):
        if not o:
            return False
        r = run(dict(case, ops=o))
        return r is not None and r[0] == label
    i = 0
    while i < len(ops):
        trial = ops[:i] + ops[i + 1:]
        if fails(trial):
            ops = trial
            continue
        op = ops[i]
        if op[0] in ("postponed", "batch") and len(op[1]) > 1:
            j = 0
            while j < len(op[1]) and len(op[1]) > 1:
                sub = op[1][:j] + op[1][j + 1:]
                t2 = ops[:i] + [[op[0], sub] + op[2:]] + ops[i + 1:]
                if fails(t2):
                    op = [op[0], sub] + op[2:]
                    ops = t2
                else:
                    j += 1
        i += 1
    return ops


def refused_block(op):
    return op[0] in ("postponed", "batch") and contains_bad(op)


def _fail(cname, case, run, res):
    label, msg = res[0], res[1]
    small = shrink(case, run, label)
    blocks = [o[0] for o in small[:-1] if refused_block(o)]
    if blocks and not label.startswith("after-refused-op"):
        # witness pattern: a block that was refused half-way, later ANY operation, and the function does not follow
        # any more (which part of the view shows it first depends on the other operations: kept in the message)
        key = f"{cname}/{case['cfg'][0]}/not-following-after-refused-block/{blocks[0]} > any operation"
        msg = f"[{label}; shrunk history {' > '.join(kind(o) for o in small)}] {msg}"
    else:
        key = f"{cname}/{case['cfg'][0]}/{label}/{' > '.join(kind(o) for o in small)}"
    return ("fail", key, f"{json.dumps(case)}: {msg} | shrunk history: {json.dumps(small)}")


def contract_history(case):
    res = run_history(case)
    if res is None:
        return ("ok", len(case["ops"]) > 0)
    return _fail("history", case, run_history, res)


# ------------------------------------------------------------------------------------------------ export
def current_aln(ops, cur=0):
    for op in ops:
        if op[0] == "aln":
            cur = op[1]
        elif op[0] == "postponed":
            cur = current_aln(op[1], cur)
    return cur


def run_export(case):
    warnings.filterwarnings("ignore")
    model, tips = case["cfg"]
    state = {"model": model, "tips": tips}
    try:
        lf = build_lf(model, tips)
    except Exception:
        return ("skip",)
    M = Settings(model, tips)                # only carried along because real_apply updates it
    aln = 0
    for op in case["ops"]:
        try:
            real_apply(lf, op, M, state)
        except Mismatch:
            return ("skip",)
        except Exception:
            if not contains_bad(op):
                return ("skip",)             # reported by the history contract
            # how far a refused block got decides which alignment is in force: ask the function
        M.pending = []
    # the alignment is not part of the rules: the new function is given the one in force
    try:
        cur_aln = lf.get_param_value("alignment", locus="locus0")
        names = list(cur_aln.names)
        rows = {n: str(cur_aln.get_gapped_seq(n)) for n in names}
        aln = [i for i in (0, 1) if rows_for(tips, i) == rows][0]
    except Exception:
        aln = current_aln(case["ops"])
    try:
        lnl, nfp = float(lf.lnL), int(lf.nfp)
        rules = lf.get_param_rules()
    except Exception as e:
        return (f"export-raises-{type(e).__name__}", f"{type(e).__name__}: {e}")
    try:
        lf2 = build_lf(model, tips, aln)
        lf2.apply_param_rules(rules)
        lnl2, nfp2 = float(lf2.lnL), int(lf2.nfp)
    except Exception as e:
        return (f"apply-exported-rules-raises-{type(e).__name__}", f"rules {rules}: {type(e).__name__}: {e}")
    if not lnl_close(lnl, lnl2, RTOL_FRESH):
        return ("lnL", f"lnL {lnl!r}; new function with the exported rules: {lnl2!r}; rules {rules}")
    if nfp != nfp2:
        return ("nfp", f"nfp {nfp}; new function with the exported rules: {nfp2}; rules {rules}")
    # the export of the new function is the export again (values, constant flags, sharing)
    a, _, _ = rules_view(rules, M)
    b, _, _ = rules_view(lf2.get_param_rules(), M)
    for key in a:
        if key not in b or not close(a[key][0], b[key][0]) or a[key][1] != b[key][1]:
            return ("re-export", f"{key}: exported {a[key]}, exported again by the new function {b.get(key)}")
    return None


def contract_export(case):
    res = run_export(case)
    if res is None:
        return ("ok", len(case["ops"]) > 0)
    if res[0] == "skip":
        return ("skip",)

    def run(c):
        r = run_export(c)
        return None if (r is None or r[0] == "skip") else r
    return _fail("export", case, run, res)


# ------------------------------------------------------------------------------------------------ calculator
def numeric_cells(calc):
    out = []
    for cell in calc._cells:
        v = calc._get_current_cell_value(cell)
        if isinstance(v, (float, int, numpy.floating, numpy.ndarray)):
            out.append((cell.rank, cell.name, numpy.asarray(v, float)))
        else:
            out.append((cell.rank, cell.name, None))
    return out


def cells_differ(calc, ref):
    a, b = numeric_cells(calc), numeric_cells(ref)
    if [(r, n) for r, n, _ in a] != [(r, n) for r, n, _ in b]:
        return "cell layout differs"
    for (r, n, x), (_, _, y) in zip(a, b):
        if (x is None) != (y is None):
            return f"cell {r} ({n}): numeric in one calculator only"
        if x is not None and (x.shape != y.shape or not numpy.array_equal(x, y, equal_nan=True)):
            d = float(numpy.nanmax(numpy.abs(x - y))) if x.shape == y.shape else None
            return f"cell {r} ({n}) holds a value that differs from a new evaluation (max abs diff {d})"
    return None


def run_calculator(case):
    """-> None | (label, message)"""
    warnings.filterwarnings("ignore")
    model, tips = case["cfg"]
    mode = case["mode"]
    state = {"model": model, "tips": tips}
    lf = build_lf(model, tips)
    M = Settings(model, tips)
    for op in case["setup"]:
        real_apply(lf, op, M, state)
    resolve_pending(lf, M)
    calc = lf.make_calculator(with_undo=False) if mode == "T0" else lf.make_calculator()
    names = [p.name for p in calc.opt_pars]
    lo, hi = calc.get_bounds_vectors()
    cur = numpy.array(calc.get_value_array(), float)
    cur_val = calc.testfunction()
    if not lnl_close(float(cur_val), float(lf.lnL), RTOL_FRESH):
        return ("initial-value", f"new calculator gives {cur_val!r}, lf.lnL {float(lf.lnL)!r}")
    hist = [cur.copy()]
    for n, step in enumerate(case["steps"]):
        t = target = resolve_step(step, hist, cur, lo, hi, names)
        raised = ref_raised = None
        try:
            val = apply_vector(calc, cur, t, mode)
        except Exception as e:
            raised = e
        ref = lf.make_calculator()
        try:
            ref_val = ref.testoptparvector(t.copy())
        except Exception as e:
            ref_raised = e
        if (raised is None) != (ref_raised is None):
            return ("raises-differently", f"step {n} vector {t.tolist()}: history-laden calculator -> {raised!r}, "
                                          f"new calculator -> {ref_raised!r}")
        if raised is not None:
            # the step is cancelled.  Where the calculator then stands is left open (the previous vector, or an
            # earlier one when the step started by undoing): wherever it says it is, it has to be a working
            # calculator there.  The vector it reports is taken as its setting from here on.
            what = "after-cancelled-step"
            t = numpy.array(calc.get_value_array(), float)
            # (undoing goes back to the vector before the last accepted change list, itself possibly reached by
            # undoing: always a vector the calculator stood at earlier)
            if not any(numpy.allclose(t, a, rtol=1e-12, atol=1e-12) for a in hist):
                return ("cancelled-step-not-rolled-back",
                        f"step {n} (to {target.tolist()}) was refused with {type(raised).__name__}; the calculator now "
                        f"reports the vector {t.tolist()}, which is neither the previous vector {cur.tolist()} nor any "
                        f"vector it stood at before")
            ref = lf.make_calculator()
            try:
                ref_val = ref.testoptparvector(t.copy())
            except Exception as e:
                return ("cancelled-step-not-rolled-back",
                        f"step {n} was refused with {type(raised).__name__}; the calculator now reports the vector "
                        f"{t.tolist()}, at which a new calculator raises {type(e).__name__} (previous vector "
                        f"{cur.tolist()})")
            val = calc.testfunction()
        else:
            what = "after-step"
        same = (math.isnan(val) and math.isnan(ref_val)) or val == ref_val
        if not same:
            return (f"value/{what}", f"step {n} vector {t.tolist()}: calculator gives {val!r}, a new calculator moved "
                                     f"there in one step gives {ref_val!r}")
        tf = calc.testfunction()
        if not ((math.isnan(tf) and math.isnan(val)) or tf == val):
            return (f"testfunction/{what}", f"step {n}: change returned {val!r}, testfunction() says {tf!r}")
        got = numpy.array(calc.get_value_array(), float)
        if not numpy.allclose(got, t, rtol=1e-12, atol=1e-12, equal_nan=True):
            return (f"value-array/{what}", f"step {n}: get_value_array() {got.tolist()}, expected {t.tolist()}")
        if not numpy.allclose(numpy.array(calc.last_values, float), t, rtol=1e-12, atol=1e-12, equal_nan=True):
            return (f"last-values/{what}", f"step {n}: the calculator diffs the next vector against "
                                           f"{list(calc.last_values)} but its cells hold {t.tolist()}")
        d = cells_differ(calc, ref)
        if d:
            return (f"cells/{what}", f"step {n} vector {t.tolist()}: {d}")
        if not numpy.array_equal(t, hist[-1]):
            hist.append(t.copy())
        cur = t
        cur_val = val
    # hand the final vector back to the function (only defined inside the bounds)
    if bool(numpy.all(cur >= lo - 1e-12) and numpy.all(cur <= hi + 1e-12)):
        try:
            lf.update_from_calculator(calc)
            got = float(lf.lnL)
        except Exception as e:
            return (f"update_from_calculator-raises-{type(e).__name__}", f"final vector {cur.tolist()}: {e}")
        if not lnl_close(got, float(cur_val), RTOL_FRESH):
            return ("lnL-after-update_from_calculator", f"lnL {got!r}, calculator value {float(cur_val)!r}")
        if model in WEIGHTING:
            info = optpar_info(calc)
            for (name, edges), x in zip(info, cur):
                if name == "mprobs_ratio":
                    M.pending.append(("mprobs", None, ("mprobs",)))
                    continue
                for e in edges:
                    M.tab[M.sid[(name, e)]]["value"] = float(x) if name == "length" else math.exp(float(x))
            resolve_pending(lf, M)
            r = compare_view(lf, M, "values")
            if r:
                return ("commit/" + r[0], r[1])
            want = M.lnl()
            if not lnl_close(got, want, RTOL_ORACLE):
                return ("commit/lnL-vs-sum-product", f"lnL {got!r}, sum-product at the committed vector {want!r}")
    return None


def contract_calculator(case):
    res = run_calculator(case)
    if res is None:
        return ("ok", len(case["steps"]) > 0)
    label = res[0]
    steps = list(case["steps"])
    i = 0
    while i < len(steps) and len(steps) > 1:        # drop steps while the same check keeps failing
        trial = steps[:i] + steps[i + 1:]
        r = run_calculator(dict(case, steps=trial))
        if r is not None and r[0] == label:
            steps = trial
        else:
            i += 1
    setup = "mixed-settings" if case["setup"] else "default-settings"
    key = f"calculator/{case['cfg'][0]}/{case['mode']}/{label}/{'>'.join(x[0] for x in steps)}/{setup}"
    return ("fail", key, f"{json.dumps(case)}: {res[1]} | shrunk steps: {json.dumps(steps)}")


# ------------------------------------------------------------------------------------------------ generators
def alphabet(model, tips):
    """(core operations, further operations) for one configuration"""
    P = MAIN[model]
    flip = MPROBS_FREE_BY_DEFAULT[model]            # the non-default constancy of motif probs
    clade = {"tip_names": ["a", "b"], "clade": True, "stem": True} if tips == 4 else {"tip_names": ["a", "b"]}
    commit = ["calc", [["set", {"0": 0.3}], ["back", 1], ["set", {"-1": 0.07, "0": 0.2}]], True]
    core = [
        ["rule", P, {}, {"init": 2.5}],
        ["rule", P, {"edge": "a"}, {"init": 4.0}],
        ["rule", P, {"edges": ["a", "b"]}, {"is_constant": True, "value": 0.7}],
        ["rule", P, {}, {"is_independent": True}],
        ["rule", "length", {"edges": ["a", "c"]}, {"is_independent": False, "init": 0.25}],
        ["mprobs", PI[0], flip],
        ["aln", 1],
        ["postponed", [["rule", P, {}, {"init": 1.7}], ["rule", "length", {"edge": "c"}, {"init": 0.4}],
                       ["mprobs", PI[1], None]]],
        commit,
        ["rule", P, {"edge": "a"}, {"lower": 3.0, "upper": 5.0}],
    ]
    more = [
        ["rule", P, {"edge": "b"}, {"is_constant": True}],
        ["rule", P, {}, {"is_independent": False}],
        ["rule", P, clade, {"init": 3.3}],
        ["rule", "length", {"edge": "b"}, {"init": 0.55}],
        ["rule", "length", {"edge": "a"}, {"is_constant": True, "value": 0.15}],
        ["rule", "length", {}, {"is_independent": False}],
        ["mprobs", PI[1], None],
        ["aln", 0],
        ["calc", [["set", {"1": 0.2}], ["set", {"2": -0.1}], ["backset", 1, {"-1": 0.05}]], False],
        ["opt", 4],
        ["batch", [["rule", P, {"edge": "c"}, {"init": 0.6}], ["rule", "length", {"edge": "a"}, {"init": 0.45}]]],
        ["postponed", [["aln", 1], ["postponed", [["rule", P, {"edge": "b"}, {"init": 5.5}]]],
                       ["rule", "length", {"edge": "a"}, {"init": 0.33}]]],
        ["bad", "bounds"],
        ["postponed", [["rule", P, {}, {"init": 2.0}], ["bad", "edge"]]],
        ["batch", [["rule", P, {}, {"init": 2.0}], ["bad", "par"]]],
    ]
    if model == "GN":
        more.insert(3, ["rule", "C>T", {"edge": "c"}, {"init": 0.4}])
    return core, more


CONFIGS = [["HKY85", 4], ["GN", 3], ["HKY85", 3], ["GN", 4]]


def random_op(rnd, model, tips, depth=0):
    core, more = alphabet(model, tips)
    P = rnd.choice(PARAMS[model][:3] + [MAIN[model]])
    edges = S.edge_names(S.parse_newick(TREES[tips]))
    r = rnd.random()
    if r < 0.45:
        par = rnd.choice([P, P, "length"])
        sc = rnd.choice([{}, {"edge": rnd.choice(edges)}, {"edges": sorted(rnd.sample(edges, 2))},
                         {"tip_names": ["a", "b"]}])
        lo, hi = (0.05, 1.5) if par == "length" else (0.2, 6.0)
        v = round(rnd.uniform(lo, hi), 3)
        kw = rnd.choice([{"init": v}, {"init": v}, {"is_constant": True, "value": v}, {"is_constant": True}, {},
                         {"init": v, "lower": lo / 2, "upper": hi * 2}])
        kw = dict(kw)
        if rnd.random() < 0.3:
            kw["is_independent"] = rnd.random() < 0.5
        return ["rule", par, sc, kw]
    if r < 0.55:
        w = [rnd.uniform(0.1, 1) for _ in range(4)]
        pi = {b: round(x / sum(w), 6) for b, x in zip("ACGT", w)}
        pi["T"] = round(1 - pi["A"] - pi["C"] - pi["G"], 6)
        return ["mprobs", pi, rnd.choice([None, True, False])]
    if r < 0.63:
        return ["aln", rnd.randrange(2)]
    if r < 0.78 and depth < 2:
        n = rnd.choice([1, 2, 3])
        sub = [random_op(rnd, model, tips, depth + 1) for _ in range(n)]
        sub = [o for o in sub if o[0] in ("rule", "mprobs", "aln", "postponed")] or [["aln", 1]]
        if rnd.random() < 0.3 and all(o[0] == "rule" for o in sub):
            return ["batch", sub]
        return ["postponed", sub]
    if r < 0.93 and depth == 0:
        steps = [random_step(rnd) for _ in range(rnd.choice([1, 2, 3, 4]))]
        return ["calc", steps, rnd.random() < 0.7]
    if depth == 0:
        return ["opt", rnd.choice([2, 5, 9])]
    return ["aln", rnd.randrange(2)]


def random_step(rnd):
    r = rnd.random()
    d = {str(rnd.randrange(-3, 4)): round(rnd.uniform(0.01, 0.3), 3) for _ in range(rnd.choice([1, 1, 2, 3]))}
    if r < 0.5:
        return ["set", d]
    if r < 0.7:
        return ["back", rnd.choice([1, 1, 2])]
    if r < 0.85:
        return ["backset", 1, d]
    return ["set", {"*": round(rnd.uniform(0.005, 0.05), 4)}]


def _products(alpha, n):
    for ops in itertools.product(alpha, repeat=n):
        yield list(ops)


def gen_history(tier, seed):
    rnd = random.Random(seed)
    thorough = tier == "thorough"
    for ci, cfg in enumerate(CONFIGS):
        core, more = alphabet(*cfg)
        full = core + more
        yield {"cfg": cfg, "ops": []}
        # length <= 2: the full alphabet (quick: on two configurations, core alphabet on the other two)
        for n in (1, 2):
            for ops in _products(full if (thorough or ci < 2) else core, n):
                yield {"cfg": cfg, "ops": ops}
        # length 3: core alphabet (quick: first configuration, a seeded third of the second);
        # thorough: full alphabet on the first configuration
        if thorough and ci == 0:
            # (refused blocks make everything after them fail: they are enumerated up to length 2 only)
            for ops in _products([o for o in full if not refused_block(o)], 3):
                yield {"cfg": cfg, "ops": ops}
        elif thorough or ci == 0:
            for ops in _products(core, 3):
                yield {"cfg": cfg, "ops": ops}
        elif ci == 1:
            for ops in _products(core, 3):
                if rnd.random() < 0.34:
                    yield {"cfg": cfg, "ops": ops}
        # length 4: core alphabet, thorough, first configuration (a seeded third on the second)
        if thorough and ci < 2:
            for ops in _products(core, 4):
                if ci == 0 or rnd.random() < 0.34:
                    yield {"cfg": cfg, "ops": ops}
    # beyond the frontier: seeded random histories of random operations
    for j in range(4000 if thorough else 300):
        cfg = CONFIGS[j % 4]
        n = rnd.choice([5, 6]) if thorough else rnd.choice([4, 5, 6])
        yield {"cfg": cfg, "ops": [random_op(rnd, *cfg) for _ in range(n)]}


def gen_export(tier, seed):
    rnd = random.Random(seed + 1)
    thorough = tier == "thorough"
    for ci, cfg in enumerate(CONFIGS):
        core, more = alphabet(*cfg)
        full = core + more
        yield {"cfg": cfg, "ops": []}
        for n in (1, 2):
            for ops in _products(full if (thorough or ci < 2) else core, n):
                yield {"cfg": cfg, "ops": ops}
        if thorough:
            for ops in _products(core, 3):
                yield {"cfg": cfg, "ops": ops}
        elif ci < 2:
            for ops in _products(core, 3):
                if rnd.random() < 0.2:
                    yield {"cfg": cfg, "ops": ops}
        if thorough and ci == 0:
            for ops in _products(core, 4):
                if rnd.random() < 0.5:
                    yield {"cfg": cfg, "ops": ops}
    for j in range(3000 if thorough else 200):
        cfg = CONFIGS[j % 4]
        yield {"cfg": cfg, "ops": [random_op(rnd, *cfg) for _ in range(rnd.choice([3, 4, 5, 6]))]}


CALC_STEPS = [
    ["set", {"0": 0.3}],
    ["set", {"-1": 0.07}],
    ["set", {"0": -0.2, "1": 0.15}],
    ["set", {"*": 0.01}],
    ["back", 1],
    ["back", 2],
    ["backset", 1, {"-2": 0.05}],
    ["oob", 0, "hi"],
    ["oob", -1, "lo"],
    ["set", {}],
    ["set", {"1": 2.0}],        # GS: leaves the region where the stationary matrix exists -> cancelled
    ["backset", 1, {"3": -2.0}],
]


def calc_setups(model):
    P = MAIN[model]
    flip = MPROBS_FREE_BY_DEFAULT[model]
    return [
        [],
        [["rule", P, {}, {"is_independent": True}], ["rule", "length", {"edges": ["a", "c"]},
                                                     {"is_independent": False, "init": 0.25}],
         ["rule", P, {"edge": "b"}, {"is_constant": True, "value": 0.7}], ["mprobs", PI[0], flip]],
    ]


def _step_sequences(n):
    for steps in itertools.product(CALC_STEPS, repeat=n):
        # going back further than the number of steps made so far is the same as going back to the start
        if any(st[0] in ("back", "backset") and st[1] > i for i, st in enumerate(steps)):
            continue
        yield list(steps)


def gen_calculator(tier, seed):
    rnd = random.Random(seed + 2)
    thorough = tier == "thorough"
    for model in ("HKY85", "GN", "GS", "HKY85+gamma"):
        for si, setup in enumerate(calc_setups(model)):
            if model == "HKY85+gamma" and si:
                continue
            for tips in ((4, 3) if thorough else (4,)):
                for mode in ("T", "C", "CR", "T0"):
                    if mode in ("CR", "T0") and (si or tips == 3):
                        continue
                    cfg = [model, tips]
                    for n in (1, 2):
                        for steps in _step_sequences(n):
                            yield {"cfg": cfg, "setup": setup, "mode": mode, "steps": steps}
                    if thorough and tips == 4 and mode in ("T", "C") and not (si and model == "GN") \
                            and model != "HKY85+gamma":
                        for steps in _step_sequences(3):
                            yield {"cfg": cfg, "setup": setup, "mode": mode, "steps": steps}
    pool = CALC_STEPS + CALC_STEPS[4:7] * 2
    for j in range(4000 if thorough else 300):
        model = ("HKY85", "GN", "GS", "GS", "GN", "HKY85+gamma")[j % 6]
        n = rnd.choice([3, 4]) if not thorough else rnd.choice([4, 5, 6, 8])
        steps = [rnd.choice(pool) if rnd.random() < 0.7 else random_step(rnd) for _ in range(n)]
        yield {"cfg": [model, rnd.choice([3, 4])], "setup": rnd.choice(calc_setups(model)),
               "mode": rnd.choice(["T", "C", "CR"]), "steps": steps}


# ------------------------------------------------------------------------------------------------ optimiser write-back
OPT_MODELS = {
    "HKY85": (("HKY85", {}), 1),
    "GTR": (("GTR", {}), 1),
    "HKY85/rate-gamma2": (("HKY85", {"ordered_param": "rate", "distribution": "gamma"}), 2),
    "HKY85/rate-gamma4": (("HKY85", {"ordered_param": "rate", "distribution": "gamma"}), 4),
    "HKY85/rate-free2": (("HKY85", {"ordered_param": "rate", "distribution": "free"}), 2),
    "HKY85/rate-free3": (("HKY85", {"ordered_param": "rate", "distribution": "free"}), 3),
    "HKY85/kappa-free2": (("HKY85", {"ordered_param": "kappa", "distribution": "free"}), 2),
    "HKY85/kappa-partitioned2": (("HKY85", {"partitioned_params": "kappa", "distribution": "free"}), 2),
    "GN": (("GN", {}), 1),
}


def _opt_build(mid, tips, aln):
    from cogent3 import get_model, make_tree
    (name, kw), bins = OPT_MODELS[mid]
    lf = get_model(name, **kw).make_likelihood_function(make_tree(TREES[tips]), **({"bins": bins} if bins > 1 else {}))
    lf.set_alignment(make_aln(tips, aln))
    return lf


def _opt_apply(lf, op, st):
    k = op[0]
    if k == "opt":
        lf.optimise(local=op[2], max_evaluations=op[1], limit_action="ignore", show_progress=False,
                    **({} if op[2] else {"global_tolerance": 1.0, "seed": 7}))
    elif k == "rule":
        lf.set_param_rule(op[1], init=op[2], **({"edge": op[3]} if len(op) > 3 else {}))
    elif k == "const":
        lf.set_param_rule(op[1], value=op[2], is_constant=True)
    elif k == "mprobs":
        lf.set_motif_probs(PI[op[1]])
    elif k == "aln":
        st["aln"] = op[1]
        lf.set_alignment(make_aln(st["tips"], op[1]))
    elif k == "faulty_block":
        # a batch whose flush fails half-way: two rules and an alignment the model cannot read (RNA symbols); the caller
        # catches the error and repairs the input with the next step
        from cogent3 import make_aligned_seqs
        bad = make_aligned_seqs({n: s.replace("T", "U") for n, s in rows_for(st["tips"], 0).items()}, moltype="rna")
        try:
            with lf.updates_postponed():
                lf.set_param_rule("length", edge="a", init=0.7)
                lf.set_param_rule("length", edge="b", init=0.05)
                lf.set_alignment(bad)
        except Exception:
            st["broken"] = True
            return
        raise RuntimeError("an RNA alignment was accepted by a DNA model")
    else:
        raise ValueError(op)


def run_optimise_fresh(case):
    """after every step: lf.lnL == lnL of a newly built function given lf's exported rules and current alignment"""
    warnings.filterwarnings("ignore")
    mid, tips = case["cfg"]
    st = {"tips": tips, "aln": 0}
    try:
        lf = _opt_build(mid, tips, 0)
        float(lf.lnL)
    except Exception:
        return ("skip",)
    for i, op in enumerate(case["ops"]):
        try:
            _opt_apply(lf, op, st)
        except Exception as e:
            return (f"step-raises-{type(e).__name__}", f"step {i} {op}: {type(e).__name__}: {str(e)[:200]}")
        if st.pop("broken", False):
            continue                  # the function holds an unreadable alignment until the next step repairs it
        try:
            lnl, nfp = float(lf.lnL), int(lf.nfp)
            rules = lf.get_param_rules()
            # settings that are optimised but are not user parameters (the partition behind a free distribution of a
            # parameter over bins): part of "the same final settings", read and set by their definition name
            hidden = {n: numpy.array(lf.get_param_value(n)) for n, d in lf.defn_for.items()
                      if n.endswith("_partition") and not getattr(d, "user_param", True)}
            lf2 = _opt_build(mid, tips, st["aln"])
            lf2.apply_param_rules(rules)
            lnl_export, nfp2 = float(lf2.lnL), int(lf2.nfp)
            for n, v in hidden.items():
                lf2.set_param_rule(n, init=v)
            lnl2 = float(lf2.lnL)
        except Exception as e:
            return (f"rebuild-raises-{type(e).__name__}", f"after step {i} {op}: {type(e).__name__}: {str(e)[:200]}")
        try:
            # a calculator made now is evaluated from the settings the function holds, in one sweep
            held = float(lf.make_calculator().testfunction())
        except Exception as e:
            return (f"make_calculator-raises-{type(e).__name__}", f"after step {i} {op}: {type(e).__name__}: {str(e)[:200]}")
        if not lnl_close(lnl, held, 1e-9):
            return (f"lnL-vs-calculator-from-held-settings-after-{op[0]}",
                    f"after step {i} {op}: the function reports lnL {lnl!r}; a calculator newly made from the settings it "
                    f"holds evaluates to {held!r}")
        if not lnl_close(lnl, lnl2, 1e-9):
            return (f"lnL-after-{op[0]}", f"after step {i} {op}: the function reports lnL {lnl!r}; a new function given "
                                          f"the same final settings (exported rules{' + ' + '/'.join(hidden) if hidden else ''}): {lnl2!r}")
        if nfp != nfp2:
            return (f"nfp-after-{op[0]}", f"after step {i} {op}: nfp {nfp}; new function: {nfp2}")
        if not lnl_close(lnl, lnl_export, 1e-9):
            what = "export-omits-hidden-partition" if hidden else "export-lnL"
            return (f"{what}-after-{op[0]}", f"after step {i} {op}: lnL {lnl!r}; a new function given only "
                                             f"get_param_rules(): {lnl_export!r}; not exported: {sorted(hidden)}")
    return None


def contract_optimise_fresh(case):
    res = run_optimise_fresh(case)
    if res is None:
        return ("ok", any(o[0] == "opt" for o in case["ops"]))
    if res[0] == "skip":
        return ("skip",)
    kinds = ">".join(o[0] for o in case["ops"])
    return ("fail", f"optimise_fresh/{case['cfg'][0]}/{res[0]}/{kinds}", f"{json.dumps(case)}: {res[1]}")


def gen_optimise_fresh(tier, seed):
    thorough = tier == "thorough"
    for mid in OPT_MODELS:
        par = "kappa" if mid.startswith("HKY85") and "kappa-" not in mid else None
        seqs = [
            [["opt", 25, True]],
            [["opt", 12, True], ["opt", 12, True]],
            [["rule", "length", 0.4], ["opt", 20, True]],
            [["opt", 20, True], ["rule", "length", 0.05, "a"]],
            [["opt", 20, True], ["aln", 1]],
            [["opt", 15, True], ["mprobs", 1], ["opt", 10, True]],
            [["opt", 60, False]],
            # a flush that raises half-way, then the repair
            [["faulty_block"], ["aln", 0]],
            [["faulty_block"], ["aln", 1], ["rule", "length", 0.3]],
            [["opt", 10, True], ["faulty_block"], ["aln", 0]],
            # with motif probabilities given (not re-estimated from the repaired alignment, which would refresh everything)
            [["mprobs", 1], ["faulty_block"], ["aln", 0]],
            [["mprobs", 0], ["faulty_block"], ["aln", 1], ["rule", "length", 0.3]],
        ]
        if par:
            seqs += [[["rule", par, 3.0], ["opt", 20, True]], [["opt", 15, True], ["const", par, 2.0], ["opt", 10, True]]]
        for tips in ((3, 4) if thorough else (4,)):
            for ops in seqs:
                yield {"cfg": [mid, tips], "ops": ops}
            if thorough:
                for ev in (5, 40, 100):
                    yield {"cfg": [mid, tips], "ops": [["opt", ev, True], ["opt", ev, True], ["aln", 1], ["opt", ev, True]]}


# ------------------------------------------------------------------------------------------------ topological order
def gen_topo(tier, seed):
    for mid in OPT_MODELS:
        for tips in (3, 4):
            yield {"cfg": [mid, tips]}


def contract_topo(case):
    """the precondition the proof of _updateIntermediateValues assumes: lf.defns lists every definition before its
    clients, without repeats, and every client of a listed definition is itself listed"""
    warnings.filterwarnings("ignore")
    mid, tips = case["cfg"]
    try:
        lf = _opt_build(mid, tips, 0)
    except Exception:
        return ("skip",)
    pos = {}
    for i, d in enumerate(lf.defns):
        if id(d) in pos:
            return ("fail", f"topological-order/{mid}/definition-listed-twice", f"{case}: {d.name} at {pos[id(d)]} and {i}")
        pos[id(d)] = i
    for i, d in enumerate(lf.defns):
        for c in getattr(d, "clients", []):
            if id(c) not in pos:
                return ("fail", f"topological-order/{mid}/client-not-listed", f"{case}: client {c.name} of {d.name} is not in lf.defns")
            if pos[id(c)] <= i:
                return ("fail", f"topological-order/{mid}/client-before-its-input",
                        f"{case}: {c.name} (position {pos[id(c)]}) is a client of {d.name} (position {i})")
    return ("ok", len(lf.defns) > 3)


BOUNDED = {
    "defns_topological_order": {
        "gen": gen_topo, "contract": contract_topo,
        "functions": ["ParameterController.__init__ (construction of self.defns)", "CalculationDefn / _LeafDefn .clients"],
        "bound": "the 9 models of optimise_fresh x 3- and 4-tip trees",
        "rule": "run-time check of the precondition assumed by the proof of _updateIntermediateValues: lf.defns is a "
                "duplicate-free list in which every definition precedes its clients and every client is listed",
    },
    "optimise_fresh": {
        "gen": gen_optimise_fresh, "contract": contract_optimise_fresh,
        "functions": ["LikelihoodFunction.optimise", "ParameterController.update_from_calculator / update_intermediate_values",
                      "get_param_rules / apply_param_rules", "WeightedPartitionDefn / PartitionDefn (bin probabilities)"],
        "bound": "9 models: HKY85, GTR, GN, HKY85 with 2 / 4 gamma rate classes, with 2 / 3 free rate classes, with kappa in 2 "
                 "free classes (ordered / partitioned); 4-tip tree (thorough also 3-tip); 7-9 histories each mixing real "
                 "optimiser runs (local Powell with 10-25 evaluations, one global run) with rules, constants, motif "
                 "probabilities, an alignment swap and a postponed block whose flush raises half-way (unreadable alignment) "
                 "followed by its repair; thorough: longer runs",
        "rule": "after every step the reported lnL equals (a) the value of a calculator newly made from the settings the "
                "function holds, (b) lnL and nfp of a newly built function given the exported rules, the partitions "
                "behind free distributions (not exported: finding C07-K2) and the alignment in force, (c) the same given "
                "the exported rules only (rtol 1e-9); non-trivial when the history has an optimiser run",
        "shards": 16,
    },
    "history": {
        "gen": gen_history, "contract": contract_history,
        "functions": ["LikelihoodFunction.lnL / get_log_likelihood", "ParameterController.set_param_rule",
                      "set_motif_probs", "AlignmentLikelihoodFunction.set_alignment",
                      "ParameterController.updates_postponed", "apply_param_rules", "assign_all",
                      "update_intermediate_values", "make_calculator", "update_from_calculator", "optimise",
                      "get_param_value", "get_motif_probs", "get_param_rules", "nfp"],
        "bound": "HKY85 and GN on a 3-tip and a 4-tip tree, two alignments (12 and 10 columns, degenerate symbols and a "
                 "gap); alphabet of 25-26 operations (10 core: global / per-edge / constant / independent / shared-length "
                 "/ bounded rule, motif probs, alignment swap, postponed block, calculator change-revert-change with "
                 "update_from_calculator; further: value-less rules, clade scope, nested blocks, blocks and rules that "
                 "are refused, apply_param_rules, discarded calculator, optimise): every history of length <= 2 (quick: "
                 "full alphabet on two configurations, core alphabet on the other two); length 3 over the core alphabet "
                 "(quick: one configuration and a seeded third of a second; thorough: all four, and the full alphabet "
                 "without refused blocks on the first); thorough: length 4 over the core alphabet (first configuration, "
                 "seeded third of the second); seeded random histories of 4-6 random operations (300 / 4000)",
        "rule": "a case = (model, tips, operations); checked after every operation; non-trivial when there is at least "
                "one operation; distinct by hash of the case",
    },
    "export": {
        "gen": gen_export, "contract": contract_export,
        "functions": ["LikelihoodFunction.get_param_rules", "_InputDefn.get_param_rules", "Setting.get_param_rule_dict",
                      "apply_param_rules", "nfp", "lnL"],
        "bound": "same configurations and alphabet as 'history': every history of length <= 2, core alphabet length 3 "
                 "(quick: seeded fifth on two configurations; thorough: all), thorough: seeded half of core length 4 on "
                 "the first configuration; seeded random histories of length 3-6 (200 / 3000)",
        "rule": "a case = (model, tips, operations); the export is taken after the last operation; histories in which "
                "a valid operation raises are skipped (reported by 'history'); distinct by hash of the case",
    },
    "calculator": {
        "gen": gen_calculator, "contract": contract_calculator,
        "functions": ["Calculator.change", "Calculator.testoptparvector", "Calculator.cells_changed_by",
                      "Calculator.plain_update", "Calculator.get_value_array", "Calculator.testfunction",
                      "ParameterController.make_calculator", "update_from_calculator"],
        "bound": "HKY85, GN, GeneralStationary (cancels steps with ParameterOutOfBoundsError) and HKY85 with two "
                 "gamma rate classes; 4-tip tree (thorough also 3-tip); default settings and a setting with independent / "
                 "constant / shared parameters; 12 step kinds (single, multiple, all, no-op, back 1, back 2, back-and-"
                 "change, out of bounds high / low, leaving the stationary region) through testoptparvector, explicit "
                 "change lists (minimal / naming every parameter) and a calculator without undo: every sequence of "
                 "length <= 2 (thorough <= 3 for testoptparvector and minimal change lists), seeded random sequences of "
                 "length 3-8 (300 / 4000)",
        "rule": "a case = (model, tips, setup, mode, steps); after every step the value, testfunction, value array and "
                "every numeric cell are compared with a newly made calculator; non-trivial with >= 1 step; distinct by "
                "hash of the case",
    },
}
