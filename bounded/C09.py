"""Bounded run-time contracts for C09 (tree transformations preserve tips, topology and path lengths; nothing here
counts as proved).

Abstract view of a tree (computed by this module's own code from the bare node attributes `children`, `name`,
`length` -- never through cogent3's distance/subset methods):
    tips    sorted list of tip names
    D       {(tip_i, tip_j): sum of the lengths of the edges separating them}
    splits  the non-trivial bipartitions of the tip set induced by the edges (unrooted topology)
Spec of every transformation: the view of the result is the view of the receiver restricted to the retained tips
(all of them, or the requested subset), and the receiver is left exactly as it was (newick with names and lengths,
and the walked node structure).  Tree distances are compared with a split/cluster-set oracle and a brute-force
minimum matching.

A model tree (the JSON-able case payload) is a nested list:  tip = [name, length];
internal node = [[child, ...], name-or-None, length-or-None]."""
from __future__ import annotations

import itertools
import json
import math
import os
import random
import tempfile
from functools import lru_cache

TOL = 1e-12
LENGTHS = [0.5, 1.0, 2.0, 3.25]
# tip names: one and several letters, some sharing letters (a name must never be read as a set of letters)
LETTERS = ["a", "tb", "cc", "d", "e5", "f", "gx2", "h", "ab", "j", "k", "l", "m", "n", "o", "p"]


# ================================================================================================ model / spec
def is_tip(n):
    return not isinstance(n[0], list)


def n_len(n):
    return n[1] if is_tip(n) else n[2]


@lru_cache(maxsize=None)
def shapes(n):
    """all rooted tree shapes with n leaves and no unary node (leaf = ()), one representative per isomorphism class"""
    if n == 1:
        return ((),)
    res = []

    def rec(remaining, bound, acc):
        if remaining == 0:
            if len(acc) >= 2:
                res.append(tuple(acc))
            return
        for size in range(min(remaining, bound[0]), 0, -1):
            lst = shapes(size)
            top = min(bound[1], len(lst) - 1) if size == bound[0] else len(lst) - 1
            for idx in range(top, -1, -1):
                rec(remaining - size, (size, idx), acc + [lst[idx]])

    rec(n, (n - 1, 10 ** 9), [])
    return tuple(res)


def label(shape, names, lengths, inames=None, mirror=False):
    """shape -> model; names/lengths/inames are consumed left to right (iterators)"""
    names, lengths = iter(names), iter(lengths)
    inames = iter(inames) if inames is not None else None

    def rec(s, root):
        if s == ():
            return [next(names), next(lengths)]
        kids = [rec(c, False) for c in (s[::-1] if mirror else s)]
        nm = None if (inames is None or root) else next(inames)
        return [kids, nm, None if root else next(lengths)]

    return rec(shape, True)


def spec_newick(m, root=True):
    """plain writer for names that need no quoting"""
    if is_tip(m):
        return f"{m[0]}:{m[1]!r}"
    s = "(" + ",".join(spec_newick(c, False) for c in m[0]) + ")" + (m[1] or "")
    if not root and m[2] is not None:
        s += f":{m[2]!r}"
    return s + (";" if root else "")


def view(m):
    """-> (None, tips, D, splits) or (error-word, ...)"""
    edges = []
    tips = []
    bad = []

    def rec(n, root):
        if is_tip(n):
            if n[0] is None:
                bad.append("unnamed-tip")
            tips.append(n[0])
            s = frozenset([n[0]])
        else:
            s = frozenset()
            for c in n[0]:
                s = s | rec(c, False)
        if not root:
            ln = n_len(n)
            if ln is None:
                bad.append("missing-length")
            edges.append((s, ln))
        return s

    rec(m, True)
    if is_tip(m):
        return ("single-node", [], {}, frozenset())
    if "unnamed-tip" in bad:
        return ("unnamed-tip", tips, {}, frozenset())
    if len(set(tips)) != len(tips):
        return ("duplicate-tip-names", sorted(map(str, tips)), {}, frozenset())
    try:
        tips = sorted(tips)
    except TypeError:
        return ("non-string-tip-names", tips, {}, frozenset())
    if bad:
        return (bad[0], tips, {}, frozenset())
    D = {}
    for i, a in enumerate(tips):
        for b in tips[i + 1:]:
            D[(a, b)] = sum(ln for s, ln in edges if (a in s) != (b in s))
    return (None, tips, D, splits_of([s for s, _ in edges], tips))


def splits_of(sets, tips):
    allt = frozenset(tips)
    if not tips:
        return frozenset()
    ref = tips[0]
    out = set()
    for s in sets:
        if 2 <= len(s) <= len(allt) - 2:
            out.add(s if ref in s else allt - s)
    return frozenset(out)


def restrict(v, keep):
    _, tips, D, splits = v
    keep_s = frozenset(keep)
    t2 = [t for t in tips if t in keep_s]
    D2 = {k: d for k, d in D.items() if k[0] in keep_s and k[1] in keep_s}
    return (None, t2, D2, splits_of([s & keep_s for s in splits], t2))


def close(x, y):
    return abs(x - y) <= TOL * max(1.0, abs(x), abs(y))


def cmp_view(got, exp):
    """None if equal, else (component, detail, message)"""
    if got[0] is not None and got[0] != "missing-length":
        return ("tips", got[0], f"result tree is malformed: {got[0]} (tips {got[1]})")
    if got[1] != exp[1]:
        missing = [t for t in exp[1] if t not in got[1]]
        extra = [t for t in got[1] if t not in exp[1]]
        d = "+".join(w for w, x in (("missing", missing), ("extra", extra)) if x)
        return ("tips", d, f"tips {got[1]} expected {exp[1]}")
    if got[0] is not None:
        return ("D", got[0], f"an edge of the result has no length (tips {got[1]})")
    worse = {k: (got[2][k], exp[2][k]) for k in exp[2] if not close(got[2][k], exp[2][k])}
    if worse:
        longer = any(g > e for g, e in worse.values())
        shorter = any(g < e for g, e in worse.values())
        d = "longer" if longer and not shorter else "shorter" if shorter and not longer else "mixed"
        # witness pattern: is every changed path off by one and the same amount?
        diffs = [g - e for g, e in worse.values()]
        scale = max(1.0, max(abs(e) for e in exp[2].values()), max(abs(g) for g in got[2].values()))
        if all(abs(x - diffs[0]) <= 1e-9 * scale for x in diffs):
            d += "-by-a-constant"
        k = sorted(worse)[0]
        return ("D", d, f"{len(worse)} of {len(exp[2])} path lengths changed, e.g. d{k} = {worse[k][0]!r}, expected {worse[k][1]!r}")
    if got[3] != exp[3]:
        show = lambda ss: sorted("".join(sorted(map(str, s))) for s in ss)
        return ("splits", "changed", f"splits {show(got[3])} expected {show(exp[3])}")
    return None


# ================================================================================================ real-tree side
def build_newick(m):
    from cogent3 import make_tree
    return make_tree(spec_newick(m))


def build_direct(m):
    """the call-backs the newick parser makes, without going through the parser (for names that need quoting)"""
    from cogent3.core.tree import TreeBuilder
    tb = TreeBuilder().create_edge

    def rec(n, root):
        if is_tip(n):
            return tb([], n[0], {"length": n[1]})
        kids = [rec(c, False) for c in n[0]]
        return tb(kids, n[1], {} if root else {"length": n[2]})

    t = rec(m, True)
    if not t.name_loaded:
        t.name = "root"
    return t


def walk(node):
    """real tree -> model, reading nothing but .children/.name/.length"""
    kids = node.children
    if not kids:
        return [node.name, _num(node.length)]
    return [[walk(c) for c in kids], node.name, _num(node.length)]


def _num(x):
    return None if x is None else float(x)


def snapshot(t):
    return (t.get_newick(with_distances=True, with_node_names=True), walk(t),
            [(n.name, bool(n.name_loaded), sorted((str(k), repr(_num(v) if k == "length" else v)) for k, v in n.params.items()
                                                  if v is not None))  # a parameter that is None and an absent one mean the same
             for n in t.preorder()])


def recv_sig(m):
    if is_tip(m):
        return "recv:single"
    deg = len(m[0])
    unary = []

    def rec(n, root):
        if not is_tip(n):
            if not root and len(n[0]) == 1:
                unary.append(1)
            for c in n[0]:
                rec(c, False)

    rec(m, True)
    return f"recv:root{deg if deg < 3 else '3+'}" + ("+unary" if unary else "")


def tipset(n):
    if is_tip(n):
        return frozenset([n[0]])
    s = frozenset()
    for c in n[0]:
        s |= tipset(c)
    return s


def internal_nodes(t):
    return [n for n in t.preorder() if n.children]


def partition_at(t, node):
    """neighbour partition of the tips at `node` of real tree t (observed from children only)"""
    parts = [tipset(walk(c)) for c in node.children]
    if node is not t:
        below = frozenset().union(*parts) if parts else frozenset()
        rest = tipset(walk(t)) - below
        if rest:
            parts.append(rest)
    return frozenset(p for p in parts if p)


def root_partition(m):
    return frozenset(tipset(c) for c in m[0])


def root_tip_dists(m):
    out = {}

    def rec(n, acc, root):
        if not root:
            acc = acc + (n_len(n) or 0.0)
        if is_tip(n):
            out[n[0]] = acc
        else:
            for c in n[0]:
                rec(c, acc, False)

    rec(m, 0.0, True)
    return out


def json_roundtrip(t):
    from cogent3.util.deserialise import deserialise_object
    return deserialise_object(json.loads(json.dumps(t.to_rich_dict())))


def apply_op(t, op):
    """-> (opname, result, retained tips or None(=all), extra) ; raises Skip if the precondition does not hold"""
    from cogent3 import load_tree, make_tree
    k = op[0]
    tips = sorted(t.get_tip_names())
    if k == "copy":
        return "copy", t.copy(), None, None
    if k == "deepcopy":
        return "deepcopy", t.deepcopy(), None, None
    if k == "newick":  # default writer, default reader
        if any(" " in str(n.name) for n in t.preorder() if n.name is not None):
            raise Skip()  # documented: the reader does not turn '_' back into ' ' unless asked to
        return "newick", make_tree(t.get_newick(with_distances=True)), None, None
    if k == "newick_std":  # standard-conforming pairing: quoting/munging writer, unmunging reader
        return "newick_std", make_tree(t.get_newick(with_distances=True), underscore_unmunge=True), None, None
    if k == "newick_names":  # internal names written too
        return "newick_names", make_tree(t.get_newick(with_distances=True, with_node_names=True),
                                         underscore_unmunge=True), None, None
    if k == "json":
        return "json", json_roundtrip(t), None, None
    if k == "file":
        with tempfile.TemporaryDirectory() as d:
            p = os.path.join(d, "t." + op[1])
            t.write(p)
            r = load_tree(p, underscore_unmunge=True) if op[1] != "json" else load_tree(p)
        return "file_" + op[1], r, None, None
    if k == "unrooted":
        return "unrooted", t.unrooted(), None, None
    if k == "midpoint":
        return "root_at_midpoint", t.root_at_midpoint(), None, None
    if k == "sorted":
        order = None if not op[1] else tips[::-1][:op[1]]
        return "sorted", (t.sorted() if order is None else t.sorted(list(order))), None, order
    if k == "rooted_at":
        nodes = internal_nodes(t)
        if op[1] >= len(nodes):
            raise Skip()
        node = nodes[op[1]]
        if node.name is None or sum(1 for n in t.preorder() if n.name == node.name) != 1:
            raise Skip()  # the node cannot be addressed by name
        return "rooted_at", t.rooted_at(node.name), None, partition_at(t, node)
    if k == "with_tip":
        if op[1] >= len(tips):
            raise Skip()
        tip = t.get_node_matching_name(tips[op[1]])
        return "rooted_with_tip", t.rooted_with_tip(tips[op[1]]), None, (tips[op[1]], partition_at(t, tip.parent))
    if k == "sub":
        mask, variant = op[1], op[2]
        if mask >= (1 << len(tips)):
            raise Skip()
        keep = [x for i, x in enumerate(tips) if mask >> i & 1]
        if len(keep) < 2:
            raise Skip()
        if variant == 0:
            return "get_sub_tree", t.get_sub_tree(list(keep)), keep, None
        if variant == 1:
            return "get_sub_tree(tipsonly)", t.get_sub_tree(keep[::-1], tipsonly=True), keep, None
        if variant == 2:
            return "get_sub_tree(keep_root)", t.get_sub_tree(list(keep), keep_root=True), keep, None
        if variant == 3:
            return "get_sub_tree(ignore_missing)", t.get_sub_tree(keep + ["no such tip"], ignore_missing=True), keep, None
        if variant == 4:        # the in-place pruning API next to get_sub_tree, applied to a copy
            c = t.deepcopy()
            drop = set(tips) - set(keep)        # decided by name: an emptied internal node must be removed by the method itself
            c.remove_deleted(lambda nd: nd.name in drop)
            c.prune()
            return "remove_deleted+prune", c, keep, None
    raise ValueError(op)


class Skip(Exception):
    pass


def opname_of(op):
    if op[0] == "file":
        return "file_" + op[1]
    if op[0] == "sub":
        return ["get_sub_tree", "get_sub_tree(tipsonly)", "get_sub_tree(keep_root)", "get_sub_tree(ignore_missing)",
                "remove_deleted+prune"][op[2]]
    return {"midpoint": "root_at_midpoint", "with_tip": "rooted_with_tip"}.get(op[0], op[0])


def intent_check(name, extra, recv_model, res_model, exp):
    """what the operation is for (beyond preservation); returns None or (detail, message)"""
    if is_tip(res_model):
        return None
    if name == "rooted_at":
        if root_partition(res_model) != extra:
            return ("root-not-at-node", f"root of the result splits the tips as {sorted(map(sorted, root_partition(res_model)))}, "
                                        f"the node splits them as {sorted(map(sorted, extra))}")
    elif name == "rooted_with_tip":
        tip, part = extra
        if not any(is_tip(c) and c[0] == tip for c in res_model[0]):
            return ("tip-not-beside-root", f"tip {tip!r} is not a child of the result's root")
        if root_partition(res_model) != part:
            return ("root-not-at-tip-parent", f"root partition {sorted(map(sorted, root_partition(res_model)))} expected {sorted(map(sorted, part))}")
    elif name == "root_at_midpoint":
        if exp[2]:
            half = max(exp[2].values()) / 2.0
            deepest = max(root_tip_dists(res_model).values())
            if abs(deepest - half) > 1e-9 * max(1.0, half):
                return ("root-not-at-midpoint", f"deepest tip is {deepest!r} from the root, half the longest path is {half!r}")
    elif name == "unrooted":
        if "unary" not in recv_sig(recv_model) and len(exp[1]) >= 3 and len(res_model[0]) < 3:
            return ("root-degree<3", f"root of the result has {len(res_model[0])} children")
    elif name == "sorted":
        rank = {}
        for x in (extra or []):
            rank.setdefault(x, len(rank))
        for x in exp[1]:
            rank.setdefault(x, len(rank))

        def rec(n):
            if is_tip(n):
                return rank[n[0]], True
            ks = [rec(c) for c in n[0]]
            mins = [r for r, _ in ks]
            return min(mins), all(ok for _, ok in ks) and mins == sorted(mins)

        if not rec(res_model)[1]:
            return ("not-sorted", f"children are not ordered by their lowest ranking tip (order {extra})")
    return None


def run_chain(model, ops, direct=False, prefix="", keyfn=None):
    """shared engine of every transformation contract"""
    def K(name, comp, detail, sig):
        return keyfn(name, comp, detail, sig) if keyfn else f"{prefix}{name}/{comp}/{detail}/{sig}"

    try:
        t = build_direct(model) if direct else build_newick(model)
    except Exception as e:
        return ("fail", K("build", "raises", type(e).__name__, "-"), f"{spec_newick(model) if not direct else model}: {type(e).__name__}: {e}")
    v0 = view(model)
    if v0[0] is not None:
        raise AssertionError(f"generator produced a malformed model: {v0[0]}")
    m0 = walk(t)
    c = cmp_view(view(m0), v0)
    if c:
        return ("fail", K("parse", c[0], c[1], "-"), f"make_tree({spec_newick(model)!r}): {c[2]}")
    if ops and ops[0] == ["params"]:
        # edges that carry a further parameter besides their length (annotated or JSON-loaded trees do): set on the real tree,
        # never read by the model -- it must not matter to any operation
        for nd in t.preorder():
            if nd is not t:
                nd.params["support"] = 0.5
        ops = ops[1:]
    t_first, snap_first, first_name = t, snapshot(t), None
    where = spec_newick(model) if not direct else repr(model)
    done = []
    for op in ops:
        recv_model = walk(t)
        sig = recv_sig(recv_model)
        if not is_tip(recv_model) and len(recv_model[0]) < 2:
            return ("skip",)  # a root with a single child (get_sub_tree(keep_root=True)) is neither a rooted nor an unrooted tree
        before = snapshot(t)
        vrecv = view(recv_model)
        try:
            name, res, keep, extra = apply_op(t, op)
        except Skip:
            return ("skip",)
        except Exception as e:
            return ("fail", K(opname_of(op), "raises", type(e).__name__, sig),
                    f"{where} after {done}: {op} raised {type(e).__name__}: {str(e)[:200]}")
        ctx = f"{where} after {done}: {name}{op[1:]}"
        if first_name is None:
            first_name = name
        # -- frame: the receiver is exactly as it was
        after = snapshot(t)
        if after != before:
            what = "newick" if after[0] != before[0] else "structure" if after[1] != before[1] else "names-or-params"
            return ("fail", K(name, "frame", f"receiver-{what}-changed", sig),
                    f"{ctx}: receiver was {before[0]} and is now {after[0]}")
        if res is t:
            return ("fail", K(name, "frame", "returns-receiver", sig), f"{ctx}: the result is the receiver itself")
        # -- the result's view is the receiver's view restricted to the retained tips
        exp = vrecv if keep is None else restrict(vrecv, keep)
        res_model = walk(res)
        got = view(res_model)
        c = cmp_view(got, exp)
        if c:
            return ("fail", K(name, c[0], c[1], sig), f"{ctx} -> {safe_newick(res)}: {c[2]}")
        # -- the library's own observers agree with the walked structure
        try:
            gd = res.get_distances()
            gt = sorted(res.get_tip_names())
        except Exception as e:
            return ("fail", K(name, "observer", f"raises-{type(e).__name__}", sig), f"{ctx}: get_distances on the result: {e}")
        if gt != got[1]:
            return ("fail", K(name, "observer", "get_tip_names", sig), f"{ctx}: get_tip_names {gt} but tips are {got[1]}")
        for (a, b), d in got[2].items():
            if (a, b) not in gd or (b, a) not in gd or not close(float(gd[(a, b)]), d) or not close(float(gd[(b, a)]), d):
                return ("fail", K(name, "observer", "get_distances", sig),
                        f"{ctx}: get_distances()[{a!r},{b!r}] = {gd.get((a, b))!r}, edges on the path sum to {d!r}")
        if len(gd) != 2 * len(got[2]):
            return ("fail", K(name, "observer", "get_distances-extra-keys", sig), f"{ctx}: {len(gd)} keys for {len(got[1])} tips")
        ic = intent_check(name, extra, recv_model, res_model, exp)
        if ic:
            return ("fail", K(name, "intent", ic[0], sig), f"{ctx} -> {safe_newick(res)}: {ic[1]}")
        done.append(name)
        t = res
    if len(ops) > 1 and snapshot(t_first) != snap_first:
        return ("fail", K(done[-1], "frame", f"changes-tree-that-{first_name}-was-called-on", "-"),
                f"{where}: after {done} the original tree is {snapshot(t_first)[0]}, was {snap_first[0]}")
    return ("ok", len(v0[1]) >= 3)


def safe_newick(t):
    try:
        return t.get_newick(with_distances=True)
    except Exception as e:  # pragma: no cover
        return f"<get_newick raised {type(e).__name__}>"


# ================================================================================================ generators
def length_pattern(p, rnd):
    if p == "cycle":
        return itertools.cycle(LENGTHS)
    if p == "ones":
        return itertools.repeat(1.0)
    if p == "decimal":
        return itertools.cycle([0.1, 0.2, 0.3, 0.7, 1.1, 2.3])
    if p == "set":
        return iter(lambda: rnd.choice(LENGTHS), None)
    if p == "float":
        return iter(lambda: rnd.choice((round(rnd.uniform(0.01, 10), rnd.choice((1, 3, 6))), rnd.uniform(1e-6, 1e-3),
                                        rnd.uniform(1, 1e4), 0.1 + 0.2, 1e-05, 123456789.125)), None)
    raise ValueError(p)


def models(ns, patterns, rnd, named=(False,), mirrors=(False,)):
    for n in ns:
        for shape in shapes(n):
            for p in patterns:
                for nm in named:
                    for mir in mirrors:
                        names = list(LETTERS[:n])
                        if mir:
                            names = names[1::2] + names[0::2][::-1]
                        yield n, label(shape, names, length_pattern(p, rnd),
                                       inames=(f"n{i}" for i in range(1, 20)) if nm else None, mirror=mir)


def random_model(rnd, n, p="float", multifurc=0.3):
    """random shape beyond the exhaustive frontier"""
    names = list(LETTERS[:n])
    rnd.shuffle(names)
    nodes = [[nm, None] for nm in names]
    while len(nodes) > 1:
        k = 2
        while k < len(nodes) and rnd.random() < multifurc:
            k += 1
        if len(nodes) <= 3 and rnd.random() < 0.5:
            k = len(nodes)
        picked = [nodes.pop(rnd.randrange(len(nodes))) for _ in range(k)]
        nodes.append([picked, None, None])
    m = nodes[0]
    ls = length_pattern(p, rnd)

    def fill(x, root):
        if is_tip(x):
            x[1] = next(ls)
        else:
            for c in x[0]:
                fill(c, False)
            if not root:
                x[2] = next(ls)

    fill(m, True)
    return m


def balanced(m, w, ulps=0, zlast=False, name="z"):
    """(z:H+w, m:w) -- the midpoint of the longest path is the root itself, give or take the rounding of the sums
    (ulps moves z's length to the next float up/down): what any midpoint rooting followed by a newick write/read yields"""
    x = max(root_tip_dists(m).values()) + w
    if ulps:
        x = math.nextafter(x, math.inf if ulps > 0 else 0.0)
    kids = [[name, x], [m[0], m[1], w]]
    return [kids[::-1] if zlast else kids, None, None]


def unary_ops():
    return [["unrooted"], ["midpoint"], ["sorted", 0], ["sorted", 2], ["copy"]]


def arg_ops(n, sub_variants=(0,), thin=1):
    ops = [["with_tip", k] for k in range(n)] + [["rooted_at", k] for k in range(n)]
    masks = [m for m in range(1, 1 << n) if bin(m).count("1") >= 2]
    for v in sub_variants:
        for m in (masks if v in (0, 4) else masks[::thin]):
            ops.append(["sub", m, v])
    return ops


def gen_transform(tier, seed):
    rnd = random.Random(seed)
    thorough = tier == "thorough"
    ns = range(2, 8) if thorough else range(2, 7)
    pats = ("cycle", "ones", "set", "decimal") if thorough else ("cycle", "ones")
    for n, m in models(ns, pats, rnd, named=(False, True) if thorough else (False,), mirrors=(False, True)):
        ops = unary_ops() + [["deepcopy"], ["sorted", n]] + arg_ops(n, (0, 1, 2, 3, 4), thin=1 if n <= 5 else 3)
        for op in ops:
            yield [m, [op]]
        if n >= 4:      # the same tree with a further parameter on every edge
            for op in unary_ops() + arg_ops(n, (0, 2), thin=1 if n <= 5 else 2):
                yield [m, [["params"], op]]
    # trees whose root already sits on the midpoint of the longest path, with lengths that are not exact in binary
    for n, m in models(range(2, 6) if thorough else range(2, 5), ("decimal", "cycle"), rnd, mirrors=(False, True)):
        for w in (0.1, 0.3, 1.1):
            for ulps in (0, 1, -1):
                for zlast in (False, True):
                    mb = balanced(m, w, ulps, zlast)
                    for op in unary_ops()[:2] + [["with_tip", 0], ["sub", (1 << (n + 1)) - 1, 0]]:
                        yield [mb, [op]]
    if thorough:  # beyond the frontier: random shapes on 8..10 tips, random real lengths
        for _ in range(2500):
            n = rnd.choice((8, 9, 10))
            m = random_model(rnd, n)
            for _ in range(6):
                op = rnd.choice(unary_ops() + [["with_tip", rnd.randrange(n)], ["rooted_at", rnd.randrange(n - 1)]]
                                + [["sub", rnd.randrange(3, 1 << n), rnd.randrange(4)] for _ in range(4)])
                yield [m, [op]]


def contract_transform(case):
    return run_chain(case[0], case[1])


def gen_compose(tier, seed):
    rnd = random.Random(seed + 1)
    thorough = tier == "thorough"
    ns = range(3, 7) if thorough else range(3, 6)
    first_extra = [["newick_std"], ["json"]]
    for n, m in models(ns, ("cycle", "ones"), rnd, mirrors=(False, True)):
        ops1 = unary_ops()[:4] + first_extra + arg_ops(n)
        for op1 in ops1:
            n2 = bin(op1[1]).count("1") if op1[0] == "sub" else n
            ops2 = unary_ops()[:4] + first_extra + arg_ops(n2)
            if n == 6:  # thin the second level on the largest trees
                ops2 = unary_ops()[:4] + first_extra + arg_ops(n2)[::2]
            for op2 in ops2:
                yield [m, [op1, op2]]
    # depth 3..4, seeded sample
    for _ in range(6000 if thorough else 600):
        n = rnd.choice((4, 5, 6, 7) if thorough else (4, 5, 6))
        m = random_model(rnd, n, p=rnd.choice(("set", "float")))
        ops = []
        cur = n
        for _ in range(rnd.choice((3, 4))):
            op = rnd.choice(unary_ops()[:4] + first_extra + [["with_tip", rnd.randrange(cur)], ["rooted_at", rnd.randrange(max(1, cur - 1))],
                                                            ["sub", rnd.randrange(3, 1 << cur), rnd.randrange(4)]])
            if op[0] == "sub":
                if bin(op[1]).count("1") < 3:
                    continue
                cur = bin(op[1]).count("1")
            ops.append(op)
        if ops:
            yield [m, ops]


def contract_compose(case):
    return run_chain(case[0], case[1])


# ------------------------------------------------------------------------------------------------ round trips
EXOTIC = (["x y", "x_y", "x  y", " x", "x ", "x y_z", "'x'", "'", "'x", "x'", '"', "_", "1", "1e3", "-1.5", "edge.0", "root", "x.1", "X*"]
          + [f"x{c}y" for c in "!\"#$%&'()*+,-./:;<=>?@[\\]^`{|}~"])


def name_class(nm):
    if nm == "root":
        return "same-as-root-node"
    if nm.isalnum():
        return "plain"
    if nm[0] == "'" == nm[-1]:
        return "starts-and-ends-with-single-quote"
    if nm != nm.strip():
        return "leading-or-trailing-space"
    if any(c in nm for c in "()[],:;"):
        return "newick-structural-char"
    if "'" in nm:
        return "starts-with-single-quote" if nm[0] == "'" else "ends-with-single-quote" if nm[-1] == "'" else "inner-single-quote"
    if '"' in nm:
        return "starts-with-double-quote" if nm[0] == '"' else "inner-double-quote"
    if " " in nm and "_" in nm:
        return "space-and-underscore"
    if " " in nm:
        return "space"
    if "_" in nm:
        return "underscore"
    return "other-punctuation"


RT_OPS = [["newick"], ["newick_std"], ["newick_names"], ["json"], ["copy"], ["deepcopy"]]


def gen_roundtrip(tier, seed):
    rnd = random.Random(seed + 2)
    thorough = tier == "thorough"
    # A. every shape, plain names: [model, op, direct?, exotic name or None, position]
    for n, m in models(range(2, 8) if thorough else range(2, 7), ("cycle", "float"), rnd, named=(False, True)):
        for op in RT_OPS + ([["file", "nwk"], ["file", "json"], ["file", "tree"]] if n <= (5 if thorough else 4) else []):
            yield [m, op, False, None, None]
    # B. printable names that need quoting / munging, as a tip and as an internal node name
    for nm in EXOTIC:
        for base in ("rooted", "unrooted"):
            for pos in ("tip", "internal"):
                tipn = nm if pos == "tip" else "a"
                inn = nm if pos == "internal" else None
                inner = [[[tipn, 1.0], ["b", 2.0]], inn, 3.0]
                if base == "rooted":
                    m = [[inner, [[["c", 0.5], ["d", 3.25]], None, 1.0]], None, None]
                else:
                    m = [[inner, ["c", 0.5], ["d", 3.25]], None, None]
                for op in RT_OPS + [["file", "nwk"], ["file", "json"]]:
                    yield [m, op, True, nm, pos]
    if thorough:
        for _ in range(1500):
            m = random_model(rnd, rnd.choice((8, 9, 10, 12)))
            yield [m, rnd.choice(RT_OPS), False, None, None]


def contract_roundtrip(case):
    m, op, direct, nm, pos = case
    if nm is None:
        return run_chain(m, [op], direct=direct, prefix="roundtrip/")
    cls = name_class(nm)

    def keyfn(name, comp, detail, sig):  # one key per (name class, format, symptom); the position is in the message
        fam = "json" if "json" in name else "newick" if ("newick" in name or name.startswith("file_")) else name
        return f"roundtrip[name:{cls}]/{fam}/{comp}/{detail}"

    return run_chain(m, [op], direct=direct, keyfn=keyfn)


# ------------------------------------------------------------------------------------------------ tree distances
def clusters(m):
    out = set()

    def rec(n, root):
        if is_tip(n):
            return frozenset([n[0]])
        s = frozenset()
        for c in n[0]:
            s |= rec(c, False)
        if not root and len(s) > 1:
            out.add(s)
        return s

    rec(m, True)
    return out


def min_matching(cost):
    k = len(cost)
    if k == 0:
        return 0
    return min(sum(cost[i][p[i]] for i in range(k)) for p in itertools.permutations(range(k)))


def oracle_distances(m1, m2):
    """-> dict method -> expected value (or 'undefined')"""
    tips = sorted(tipset(m1))
    rooted = len(m1[0]) == 2
    c1, c2 = clusters(m1), clusters(m2)
    out = {}
    if rooted:
        rf = len(c1 ^ c2)
        a, b = sorted(c1, key=sorted), sorted(c2, key=sorted)
        k = max(len(a), len(b))
        a += [frozenset()] * (k - len(a))
        b += [frozenset()] * (k - len(b))
        mc = min_matching([[len(x ^ y) for y in b] for x in a])
        out.update({"rf": rf, "rrf": rf, "rooted_robinson_foulds": rf, "matching": mc, "mc": mc, "matching_cluster": mc, None: mc})
        out["equal"] = c1 == c2
    else:
        s1, s2 = splits_of(c1, tips), splits_of(c2, tips)
        rf = len(s1 ^ s2)
        if len(s1) == len(s2):
            n = len(tips)
            lrm = min_matching([[min(len(x ^ y), n - len(x ^ y)) for y in sorted(s2, key=sorted)] for x in sorted(s1, key=sorted)])
        else:
            lrm = "undefined"
        out.update({"rf": rf, "urf": rf, "unrooted_robinson_foulds": rf, "matching": lrm, "lrm": lrm, "lin_rajan_moret": lrm, None: lrm})
        out["equal"] = s1 == s2
    return rooted, out


def gen_distance(tier, seed):
    rnd = random.Random(seed + 3)
    thorough = tier == "thorough"
    for n, nperm in ((3, 6), (4, 24), (5, 8 if not thorough else 14), (6, 0 if not thorough else 5)):
        if not nperm:
            continue
        perms = list(itertools.permutations(LETTERS[:n]))
        if nperm < len(perms):
            perms = [perms[0]] + rnd.sample(perms[1:], nperm - 1)
        trees = [label(s, p, itertools.repeat(1.0)) for s in shapes(n) for p in perms]
        for a in trees:
            for b in trees:
                if (len(a[0]) == 2) == (len(b[0]) == 2):
                    yield [a, b]
    for _ in range(4000 if thorough else 300):  # beyond the frontier
        n = rnd.choice((6, 7, 8) if thorough else (6, 7))
        a = random_model(rnd, n, p="set", multifurc=0.15)
        b = random_model(rnd, n, p="set", multifurc=0.15)
        if rnd.random() < 0.3:
            b = json.loads(json.dumps(a))
            rnd.shuffle(b[0])
        if (len(a[0]) == 2) == (len(b[0]) == 2) and len(clusters(a)) <= 6 and len(clusters(b)) <= 6:
            yield [a, b]


def contract_distance(case):
    a, b = case
    t1, t2 = build_newick(a), build_newick(b)
    rooted, exp = oracle_distances(a, b)
    kind = "rooted" if rooted else "unrooted"
    methods = ([None, "rf", "matching", "rrf", "mc", "rooted_robinson_foulds", "matching_cluster"] if rooted else
               [None, "rf", "matching", "urf", "lrm", "unrooted_robinson_foulds", "lin_rajan_moret"])
    s1, s2 = snapshot(t1), snapshot(t2)
    ctx = f"{spec_newick(a)} vs {spec_newick(b)}"
    for meth in methods:
        res = []
        for x, y in ((t1, t2), (t2, t1)):
            try:
                res.append(("ret", x.tree_distance(y, method=meth) if meth is not None else x.tree_distance(y)))
            except ValueError as e:
                res.append(("ValueError", str(e)[:80]))
            except Exception as e:
                return ("fail", f"tree_distance/{kind}/{meth}/raises-{type(e).__name__}", f"{ctx}: {type(e).__name__}: {e}")
        want = exp[meth]
        fam = "rf" if meth in ("rf", "rrf", "urf", "rooted_robinson_foulds", "unrooted_robinson_foulds") else "matching"
        if res[0][0] != res[1][0] or (res[0][0] == "ret" and res[0][1] != res[1][1]):
            return ("fail", f"tree_distance/{kind}/{fam}/not-symmetric", f"{ctx} method={meth}: d(1,2)={res[0]}, d(2,1)={res[1]}")
        if res[0][0] == "ValueError":
            if want == "undefined":
                continue  # the matching distance between unrooted trees with different numbers of internal edges is left open
            return ("fail", f"tree_distance/{kind}/{fam}/raises-ValueError", f"{ctx} method={meth}: {res[0][1]}; expected {want}")
        d = res[0][1]
        if want == "undefined":
            if d == 0:
                return ("fail", f"tree_distance/{kind}/{fam}/zero-for-different-topologies", f"{ctx} method={meth}: 0")
            continue
        if (d == 0) != exp["equal"]:
            return ("fail", f"tree_distance/{kind}/{fam}/" + ("nonzero-for-equal-topologies" if exp["equal"] else "zero-for-different-topologies"),
                    f"{ctx} method={meth}: {d}")
        if d != want:
            return ("fail", f"tree_distance/{kind}/{fam}/differs-from-oracle", f"{ctx} method={meth}: {d}, split-set oracle {want}")
    if snapshot(t1) != s1 or snapshot(t2) != s2:
        return ("fail", f"tree_distance/{kind}/frame/argument-changed", f"{ctx}: a tree was modified by tree_distance")
    return ("ok", not exp["equal"] or a != b)


# ================================================================================================ registry
_OPS_DOC = ("unrooted, root_at_midpoint, sorted (default order / given order), copy, deepcopy, rooted_with_tip(every tip), "
            "rooted_at(every internal node), get_sub_tree(every subset of >=2 tips; default, tipsonly, keep_root, ignore_missing), "
            "remove_deleted + prune on a copy (every subset of >= 2 tips)")

BOUNDED = {
    "transform": {
        "gen": gen_transform, "contract": contract_transform,
        "functions": ["PhyloNode.unrooted", "PhyloNode.root_at_midpoint", "TreeNode.sorted", "TreeNode.copy", "TreeNode.deepcopy",
                      "TreeNode.rooted_with_tip", "TreeNode.rooted_at", "TreeNode.unrooted_deepcopy", "TreeNode.get_sub_tree",
                      "TreeNode._get_sub_tree", "PhyloNode.get_distances", "TreeNode.get_tip_names", "cogent3.make_tree",
                      "cogent3.parse.newick.parse_string"],
        "bound": "every rooted (root degree 2) and unrooted (root degree >=3) shape without unary nodes on 2..6 tips (thorough 2..7), "
                 "incl. multifurcations, two child orders/labellings, lengths cycling through {0.5,1,2,3.25} / all 1 (thorough also "
                 "seeded draws, decimal lengths {0.1,0.2,0.3,0.7,1.1,2.3} and named internal nodes) x " + _OPS_DOC + "; plus every shape on "
                 "2..4 (thorough 2..5) tips wrapped as (z:H+w, shape:w) so that the root lies on the midpoint of the longest path, "
                 "z's length also moved one float up/down, z first/last x {unrooted, midpoint, rooted_with_tip, get_sub_tree(all)}; "
                 "thorough adds 15000 seeded (tree, op) cases on 8..10 tips with real-valued lengths",
        "rule": "a case = (model tree, [op]); result view (tips, all pairwise path lengths to 1e-12, split set) == receiver view "
                "restricted to the retained tips, receiver snapshot unchanged, library observers agree with the walked structure, "
                "op-specific intent (root position / order); non-trivial when the tree has >=3 tips; distinct by hash of the case",
    },
    "compose": {
        "gen": gen_compose, "contract": contract_compose,
        "functions": ["compositions of: PhyloNode.unrooted, root_at_midpoint, TreeNode.sorted, rooted_with_tip, rooted_at, "
                      "get_sub_tree, get_newick+make_tree, to_rich_dict+deserialise_object"],
        "bound": "every shape on 3..5 tips (thorough 3..6) x every ordered pair (op1, op2) of: unrooted, midpoint, sorted x2, newick "
                 "round trip, json round trip, rooted_with_tip(every tip), rooted_at(every internal node), get_sub_tree(every subset) "
                 "(op2 enumerated over the tips/nodes of op1's result); plus 600 (thorough 6000) seeded chains of depth 3-4 on 4..7 tips",
        "rule": "a case = (model tree, [op1, op2, ...]); every step is checked against its own receiver as in 'transform', and the "
                "original tree must be unchanged at the end; skipped when an index does not exist in the intermediate tree or when the "
                "intermediate tree's root has a single child (get_sub_tree(keep_root=True) output: neither rooted nor unrooted)",
    },
    "roundtrip": {
        "gen": gen_roundtrip, "contract": contract_roundtrip,
        "functions": ["TreeNode.get_newick", "cogent3.make_tree", "cogent3.parse.newick.parse_string", "cogent3.parse.newick._Tokeniser",
                      "TreeNode.to_rich_dict", "TreeNode.to_json", "cogent3.util.deserialise.deserialise_tree", "TreeNode.write",
                      "cogent3.load_tree", "TreeNode.copy", "TreeNode.deepcopy", "cogent3.core.tree.TreeBuilder.create_edge"],
        "bound": "every shape on 2..6 tips (thorough 2..7) x lengths {cycle over 0.5,1,2,3.25; seeded reals incl. 1e-05, 0.1+0.2, "
                 "123456789.125} x internal nodes unnamed/named x {newick default reader (names without spaces), newick with "
                 "underscore_unmunge, newick with node names, json, copy, deepcopy, file .nwk/.tree/.json on small trees}; "
                 f"{len(EXOTIC)} printable names needing quoting or munging, as a tip and as an internal node name, in a rooted and "
                 "an unrooted 4-tip tree, built through TreeBuilder call-backs; thorough adds 1500 random trees on 8..12 tips",
        "rule": "a case = (model tree, op, built-directly?, exotic name, position); view of the reloaded/copied tree == view of the "
                "model (tips, path lengths 1e-12, splits) and receiver unchanged; keys carry the name class",
    },
    "distance": {
        "gen": gen_distance, "contract": contract_distance,
        "functions": ["TreeNode.tree_distance", "cogent3.phylo.tree_distance.unrooted_robinson_foulds", "rooted_robinson_foulds",
                      "lin_rajan_moret", "matching_cluster_distance", "get_tree_distance_measure", "TreeNode.subsets"],
        "bound": "ordered pairs of labelled trees of equal rootedness: every shape on 3 and 4 tips x every labelling, every shape on 5 "
                 "tips x 8 (thorough 14) labellings, thorough every shape on 6 tips x 5 labellings; every method name applicable to "
                 "the rootedness (None, rf, matching, rrf/urf, mc/lrm, long names); plus 300 (thorough 4000) seeded pairs on 6..8 tips",
        "rule": "a case = (model1, model2); each method: d(1,2)==d(2,1), d==0 iff cluster sets (rooted) / split sets (unrooted) are "
                "equal, d == |symmetric difference| (RF) or brute-force minimum matching over all permutations (matching cluster, "
                "Lin-Rajan-Moret); ValueError accepted only for Lin-Rajan-Moret on trees with different numbers of internal edges; "
                "arguments unchanged; non-trivial when the two trees differ",
    },
}
