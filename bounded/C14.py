"""Bounded run-time contracts for C14 (composed apps account for every input exactly once, on any schedule).
Never counted as proved.  Contract text, for every composition loader + generic* + writer, every input set and
every per-record outcome (success / exception / None / wrong type / explicit NotCompleted):

  * `app.apply_to(inputs)` returns (no exception escapes because of a record);
  * the output store holds, for each input identifier, exactly one record: completed with the content the
    independent spec predicts, or not-completed naming the failing step, a message and the source;
  * that record equals what the composed app gives when called on that input alone;
  * the same holds for every completion order / worker count (in-process scheduler that meets the assumed pool
    contract T, and the real loky pool);
  * a NotCompleted value reaches the end of a composition unchanged and no later step is run on it.

No `from __future__ import annotations` here: define_app rejects string type hints."""
import contextlib
import itertools
import json
import multiprocessing
import os
import pickle
import random
import re
import sqlite3
import tempfile
import time
from pathlib import Path
from typing import Union

from cogent3.app.composable import LOADER, NotCompleted, define_app
from cogent3.app.typing import IdentifierType, SeqsCollectionType, SerialisableType

from speclib.c14_tasks import barrier_task, feasible_orders, preds_of, task_value, wait_turn

T = Union[SeqsCollectionType, SerialisableType]

# ------------------------------------------------------------------------------------------------ scripted apps
CALLS = []          # in-process log of (step name, record key): which main() ran on which record


def _idx(key):
    return int(key[1:])


def _outcome(self, name, key, value, produce):
    """what a scripted step does with the record `key`: the script maps the record key to the outcome kind"""
    CALLS.append((name, key))
    if self.marks:
        wait_turn(self.marks, key, self.order.get(key))
    kind = self.script.get(key, "ok")
    if kind == "raise":
        raise ValueError(f"boom-{name}-{key}")
    if kind == "none":
        return None
    if kind == "wrong":                      # a type no sequence app accepts, but which has .to_dict()
        from cogent3 import make_table
        return make_table(header=["a"], data=[[_idx(key)]])
    if kind == "wrong2":                     # a plain python object
        return {"x": _idx(key)}
    if kind == "nc":
        return NotCompleted("FAIL", self, f"declined-{name}-{key}", source=value)
    return produce()


def _make_step(name, tag):
    class _scripted:
        def __init__(self, script=None, order=None, marks=None):
            self.script = dict(script or {})
            self.order = dict(order or {})
            self.marks = marks

        def main(self, seqs: SeqsCollectionType) -> T:
            key = seqs.names[0]
            return _outcome(self, name, key, seqs,
                            lambda: seqs.rename_seqs(lambda n: n if n == key else n + tag))

    _scripted.__name__ = _scripted.__qualname__ = name
    _scripted.main.__qualname__ = f"{name}.main"
    _scripted.__init__.__qualname__ = f"{name}.__init__"
    return define_app(_scripted)


step1 = _make_step("step1", "1")
step2 = _make_step("step2", "2")
step3 = _make_step("step3", "3")
STEPS = [step1, step2, step3]


def parse_fasta(text):
    """independent FASTA reader: list of [name, sequence]"""
    pairs = []
    for line in text.splitlines():
        if line.startswith(">"):
            pairs.append([line[1:].strip(), ""])
        elif line.strip():
            if not pairs:
                raise ValueError("sequence text before the first label")
            pairs[-1][1] += line.strip()
    if not pairs:
        raise ValueError("no records")
    return pairs


@define_app(app_type=LOADER)
class loadx:
    """scripted loader: reads a FASTA member / path itself"""

    def __init__(self, script=None, order=None, marks=None):
        self.script = dict(script or {})
        self.order = dict(order or {})
        self.marks = marks

    def main(self, path: IdentifierType) -> T:
        text = path.read() if hasattr(path, "read") else Path(str(path)).read_text()
        pairs = parse_fasta(text)
        key = pairs[0][0]

        def produce():
            from cogent3 import make_unaligned_seqs
            return make_unaligned_seqs({n: s for n, s in pairs}, moltype="dna", info={"source": str(path)})
        return _outcome(self, "loadx", key, path, produce)


SCRIPTED_KINDS = ["raise", "none", "wrong", "wrong2", "nc"]
STAGE0_KINDS = {"scripted": SCRIPTED_KINDS, "unaligned": ["badchar", "empty"],
                "aligned": ["badchar", "empty", "ragged"], "db": ["garbage"]}
LOADER_NAME = {"scripted": "loadx", "unaligned": "load_unaligned", "aligned": "load_aligned", "db": "load_db"}
WRITER_NAME = {"seqs": "write_seqs", "json": "write_json", "db": "write_db"}
OUT_SUFFIX = {"seqs": "fasta", "json": "json"}
ACCEPTS_ANYTHING = {"write_json", "write_db"}          # declared input type SerialisableType


# ------------------------------------------------------------------------------------------------ the spec
def seq_pair(idx):
    return "ACGT" + "A" * idx, "ACGA" + "C" * idx


def file_text(idx, kind):
    a, b = seq_pair(idx)
    if kind == "badchar":
        a = a[0] + "!" + a[2:]
    elif kind == "empty":
        return ""
    elif kind == "ragged":
        b = b + "A"
    return f">k{idx}\n{a}\n>b\n{b}\n"


def stage_names(comp):
    names = [LOADER_NAME[comp["loader"]]] if comp.get("loader") else []
    names += [f"step{j}" for j in range(1, comp["g"] + 1)]
    if comp.get("writer"):
        names.append(WRITER_NAME[comp["writer"]])
    return names


def role(name):
    return "generic" if name.startswith("step") else name


def describe(comp, outcome, full=True):
    """outcome descriptor used in failure keys: kind@role(stage)->role(next stage); independent of step numbers.
    The short form drops the consumer unless the outcome is a value handed to the consumer (wrong type)."""
    if outcome is None:
        return "ok"
    names = stage_names(comp)
    stage, kind = outcome
    nxt = names[stage + 1] if stage + 1 < len(names) else "end"
    if not full and kind not in ("wrong", "wrong2"):
        return f"{kind}@{role(names[stage])}"
    return f"{kind}@{role(names[stage])}->{role(nxt)}"


def spec_record(comp, idx, outcome):
    """what the property demands for record idx of a composition loader + g steps + writer.
    completed: {"status", "content"};  not completed: {"status", "origins" (allowed names of the failing step),
    "token" (text the message must contain) or "exact" ([type, origin, message] that must arrive unchanged)}"""
    names = stage_names(comp)
    g = comp["g"]
    a, b = seq_pair(idx)
    if outcome is None:
        tag = "".join(str(j) for j in range(1, g + 1))
        return {"status": "completed", "content": ["seqs", {f"k{idx}": a, "b" + tag: b}]}
    stage, kind = outcome
    here = names[stage]
    if kind == "raise":
        return {"status": "nc", "origins": [here], "token": f"boom-{here}-k{idx}"}
    if kind == "none":
        return {"status": "nc", "origins": [here], "token": None}
    if kind == "nc":
        return {"status": "nc", "origins": [here], "exact": ["FAIL", here, f"declined-{here}-k{idx}"]}
    if kind in ("badchar", "empty", "ragged"):
        # an unusable input file: some step from the loader on must report it (validation may be lazy)
        return {"status": "nc", "origins": names[stage:], "token": None}
    if kind == "garbage":
        return {"status": "nc", "origins": [here, "unpickle_it", "from_primitive"] + names[stage + 1:], "token": None}
    if kind in ("wrong", "wrong2"):
        nxt = names[stage + 1]
        if nxt in ACCEPTS_ANYTHING:        # the consumer declares it takes any serialisable value: not a wrong type
            content = ["table", {"a": [idx]}] if kind == "wrong" else ["dict", [["x", idx]]]
            return {"status": "completed", "content": content}
        return {"status": "nc", "origins": [here, nxt], "token": None}
    raise ValueError(kind)


def names_source(src, ident):
    """the source field names the input: its identifier, its file name, or a path ending in the file name"""
    if not isinstance(src, str) or not src:
        return False
    n = src.replace("\\", "/").split("/")[-1]
    return n == ident or n == f"{ident}.fasta"


def id_class(ident, suffix):
    if suffix and suffix in ident:
        return "id-contains-store-suffix"
    if "." in ident:
        return "dotted-id"
    return "plain-id"


# ------------------------------------------------------------------------------------------------ abstract views
def abstract(obj):
    if isinstance(obj, NotCompleted):
        return ["nc", obj.type, obj.origin, obj.message, obj.source]
    cn = type(obj).__name__
    if cn == "Table":
        return ["table", {h: [v.item() if hasattr(v, "item") else v for v in obj.columns[h].tolist()]
                          for h in obj.header}]
    if cn in ("SequenceCollection", "ArrayAlignment", "Alignment"):
        try:
            return ["seqs", {n: str(s) for n, s in obj.to_dict().items()}]
        except Exception as e:            # e.g. an alignment whose characters are validated only when read
            return ["unreadable-seqs", type(e).__name__]
    if isinstance(obj, dict):
        return ["dict", sorted([k, v] for k, v in obj.items())]
    return ["other", cn, repr(obj)[:80]]


def decode(status, raw, writer, ident):
    """stored bytes/text -> abstract content"""
    try:
        if writer == "db":
            from cogent3.app.io import DEFAULT_DESERIALISER
            return abstract(DEFAULT_DESERIALISER(raw))
        if status == "nc":
            d = json.loads(raw)["not_completed_construction"]
            return ["nc"] + list(d["args"]) + [d["kwargs"].get("source")]
        if writer == "seqs":
            return ["seqs", {n: s for n, s in parse_fasta(raw)}]
        d = json.loads(raw)
        if d.get("identifier") != ident or d.get("completed") is not True:
            return ["json-record-header", d.get("identifier"), d.get("completed")]
        inner = d["data"]
        if isinstance(inner, str):
            inner = json.loads(inner)
        if isinstance(inner, dict) and "type" in inner:
            from cogent3.util.deserialise import deserialise_object
            return abstract(deserialise_object(inner))
        return abstract(inner)
    except Exception as e:
        return ["undecodable", type(e).__name__, str(raw)[:80]]


def disk_view(path, writer):
    """records on disk, read without cogent3's store classes: list of [id, status, raw]"""
    recs = []
    path = Path(path)
    if writer == "db":
        if not path.exists():
            return recs
        con = sqlite3.connect(str(path))
        try:
            for rid, done, data in con.execute("SELECT record_id, is_completed, data FROM results"):
                recs.append([rid, "completed" if done else "nc", data])
        finally:
            con.close()
        return recs
    sfx = "." + OUT_SUFFIX[writer]
    if path.exists():
        for p in sorted(path.iterdir()):
            if p.is_dir():
                continue
            if p.name.endswith(sfx):
                recs.append([p.name[:-len(sfx)], "completed", p.read_text()])
            else:
                recs.append([p.name, "stray-file", ""])
        ncd = path / "not_completed"
        if ncd.exists():
            for p in sorted(ncd.iterdir()):
                recs.append([p.name[:-5] if p.name.endswith(".json") else p.name, "nc", p.read_text()])
    return recs


def listing(store, writer):
    """what a cogent3 store object lists: sorted [id, status]"""
    out = []
    sfx = "." + OUT_SUFFIX[writer] if writer != "db" else None
    for status, members in (("completed", store.completed), ("nc", store.not_completed)):
        for m in members:
            uid = str(m.unique_id)
            if writer != "db":
                uid = uid.replace("\\", "/").split("/")[-1]
                cut = ".json" if status == "nc" else sfx
                if uid.endswith(cut):
                    uid = uid[:-len(cut)]
            out.append([uid, status])
    return sorted(out)


@contextlib.contextmanager
def as_user_process():
    """the harness evaluates contracts in forked, daemonic pool workers.  There cogent3's is_master_process() is
    False (DataStoreDirectory then creates no directories) and loky may not start workers.  The contract plays the
    user's main process: both flags are set for the duration of the call, nothing in /repo is touched."""
    import cogent3.app.data_store as dsm
    old = dsm.is_master_process
    dsm.is_master_process = lambda: True
    cfg = multiprocessing.current_process()._config
    old_daemon = cfg.get("daemon")
    cfg["daemon"] = False
    try:
        yield
    finally:
        dsm.is_master_process = old
        if old_daemon is None:
            cfg.pop("daemon", None)
        else:
            cfg["daemon"] = old_daemon


def tmp_root():
    """a TemporaryDirectory (removed by the contract), on tmpfs when there is one: sqlite commits are slow on disk"""
    shm = "/dev/shm"
    return tempfile.TemporaryDirectory(prefix="c14-", dir=shm if os.path.isdir(shm) and os.access(shm, os.W_OK) else None)


def open_out(root, writer, mode="w"):
    from cogent3 import open_data_store
    if writer == "db":
        return open_data_store(Path(root) / "out.sqlitedb", mode=mode), Path(root) / "out.sqlitedb"
    return open_data_store(Path(root) / "out", suffix=OUT_SUFFIX[writer], mode=mode), Path(root) / "out"


def make_inputs(root, comp, ids, outcomes):
    """write the input set; returns the input store (read-only)"""
    from cogent3 import open_data_store
    root = Path(root)
    kinds0 = [(o[1] if o is not None and o[0] == 0 else "ok") for o in outcomes]
    if comp["loader"] == "db":
        from cogent3 import make_unaligned_seqs
        from cogent3.app.io import write_db
        ins = open_data_store(root / "in.sqlitedb", mode="w")
        w = write_db(data_store=ins)
        for idx, (ident, k0) in enumerate(zip(ids, kinds0)):
            if k0 == "garbage":
                ins.write(unique_id=ident, data=b"\x00not a pickle")
            else:
                a, b = seq_pair(idx)
                w.main(make_unaligned_seqs({f"k{idx}": a, "b": b}, moltype="dna", info={"source": ident}),
                       identifier=ident)
        ins.close()
        return open_data_store(root / "in.sqlitedb", mode="r")
    d = root / "in"
    d.mkdir()
    for idx, (ident, k0) in enumerate(zip(ids, kinds0)):
        (d / f"{ident}.fasta").write_text(file_text(idx, k0 if comp["loader"] != "scripted" else "ok"))
    return open_data_store(d, suffix="fasta", mode="r")


def build_app(comp, outcomes, out_store, order=None, marks=None):
    """the composed app; scripts map record keys k<idx> to the outcome kind of each scripted stage"""
    from cogent3 import get_app
    g = comp["g"]
    scripts = [dict() for _ in range(g + 1)]
    for idx, o in enumerate(outcomes):
        if o is not None:
            scripts[o[0]][f"k{idx}"] = o[1]
    barrier_stage = None
    if marks:
        barrier_stage = 0 if comp["loader"] == "scripted" else 1
    kw = lambda s: dict(order=order, marks=marks) if s == barrier_stage else {}
    ld = comp["loader"]
    if ld == "scripted":
        app = loadx(script=scripts[0], **kw(0))
    elif ld == "unaligned":
        app = get_app("load_unaligned", format="fasta", moltype="dna")
    elif ld == "aligned":
        app = get_app("load_aligned", format="fasta", moltype="dna")
    elif ld == "db":
        app = get_app("load_db")
    else:
        app = None
    for j in range(1, g + 1):
        s = STEPS[j - 1](script=scripts[j], **kw(j))
        app = s if app is None else app + s
    wr = comp.get("writer")
    if wr:
        w = get_app(WRITER_NAME[wr], data_store=out_store, **({"format": "fasta"} if wr == "seqs" else {}))
        app = w if app is None else app + w
    return app


def last_line(msg):
    lines = [ln for ln in str(msg).strip().splitlines() if ln.strip()]
    return lines[-1].strip() if lines else ""


# ------------------------------------------------------------------------------------------------ record checks
# priorities: smaller = reported first when one case shows several discrepancies
P_RAISE, P_ORDER, P_LISTING, P_MISSING, P_STATUS, P_CONTENT, P_ALONE, P_NCFIELD = range(8)


def check_against_spec(comp, ids, outcomes, recs, problems):
    """recs: list of [id, status, content]; appends (priority, key-suffix, text)"""
    suffix = OUT_SUFFIX.get(comp["writer"])
    by = {}
    for r in recs:
        by.setdefault(r[0], []).append(r)
    foreign = sorted(set(by) - set(ids))
    for idx, (ident, o) in enumerate(zip(ids, outcomes)):
        idc = id_class(ident, suffix)
        tail = "" if idc == "plain-id" else "/" + idc
        d = describe(comp, o) + tail                      # full descriptor
        ds = describe(comp, o, full=False) + tail         # short descriptor (fields of a not-completed record)
        got = by.get(ident, [])
        exp = spec_record(comp, idx, o)
        if not got:
            where = f" (records under foreign identifiers: {foreign})" if foreign else ""
            sym = "record-under-other-id" if foreign else "record-missing"
            problems.append((P_MISSING, f"{sym}/expected-{exp['status']}/{idc}", f"input {ident!r} has no record{where}"))
            continue
        if len(got) > 1:
            problems.append((P_MISSING, f"record-duplicated/expected-{exp['status']}/{idc}",
                             f"input {ident!r} has {len(got)} records: {[r[1] for r in got]}"))
            continue
        _, status, content = got[0]
        if status != exp["status"]:
            problems.append((P_STATUS, f"stored-{status}-expected-{exp['status']}/{d}",
                             f"input {ident!r}: stored {status} {str(content)[:160]}, spec {exp}"))
            continue
        if status == "completed":
            if content != exp["content"]:
                sym = "failure-stored-as-completed" if content and content[0] == "nc" else "content-differs"
                problems.append((P_CONTENT, f"{sym}/{d}",
                                 f"input {ident!r}: stored {str(content)[:200]}, spec {exp['content']}"))
            continue
        if content[0] != "nc":
            problems.append((P_CONTENT, f"nc-undecodable/{d}", f"input {ident!r}: {str(content)[:200]}"))
            continue
        _, typ, origin, msg, src = content
        if exp.get("exact"):
            if [typ, origin, msg] != exp["exact"]:
                problems.append((P_NCFIELD, f"nc-not-passed-unchanged/{ds}",
                                 f"input {ident!r}: stored {[typ, origin, msg]}, step returned {exp['exact']}"))
        else:
            if origin not in exp["origins"]:
                problems.append((P_NCFIELD, f"nc-origin-not-failing-step/{ds}",
                                 f"input {ident!r}: origin {origin!r}, failing step is one of {exp['origins']}"))
            if not isinstance(msg, str) or not msg.strip() or (exp["token"] and exp["token"] not in msg):
                problems.append((P_NCFIELD, f"nc-message-lost/{ds}",
                                 f"input {ident!r}: message {str(msg)[-120:]!r}, must contain {exp['token']!r}"))
        if not names_source(src, ident):
            problems.append((P_NCFIELD, f"nc-source-not-named/{ds}",
                             f"input {ident!r}: not-completed record has source {src!r}"))
    if foreign and not any(p[1].startswith("record-under-other-id") for p in problems):
        problems.append((P_MISSING, "record-for-no-input", f"records {foreign} belong to no input {ids}"))


def comparable(content):
    """content with the traceback of a message reduced to the words of its last line (cogent3 prints a set of type
    names in the 'invalid data type' message, whose order differs between processes)"""
    if content and content[0] == "nc":
        return ["nc", content[1], content[2], sorted(re.findall(r"[\w'.-]+", last_line(content[3]))), content[4]]
    return content


def run_apply(root, comp, ids, outcomes, form="store", par=None, log=False, stub=None, order=None, marks=None):
    """one apply_to on a fresh output store below root.  Returns (exception or None, records, listings)"""
    root = Path(root)
    root.mkdir(parents=True, exist_ok=True)
    ins = make_inputs(root, comp, ids, outcomes)
    out, out_path = open_out(root, comp["writer"])
    app = build_app(comp, outcomes, out, order=order, marks=marks)
    if form == "store":
        dstore = ins
    elif form == "paths":
        dstore = [str(Path(ins.source) / f"{i}.fasta") for i in ids]
    else:          # "members": the members in the order of `ids`, so that position j of the pool's task list is ids[j]
        names = [i if comp["loader"] == "db" else f"{i}.fasta" for i in ids]
        found = {str(m.unique_id): m for m in ins.completed}
        dstore = [found[n] for n in names]
    kw = dict(show_progress=False, logger=None if log else False)
    if par:
        kw.update(parallel=True, par_kw=dict(par))
    import cogent3.app.composable as cmp
    old_par = cmp.PAR
    if stub is not None:
        cmp.PAR = stub
    exc = None
    try:
        ret = app.apply_to(dstore, **kw)
    except Exception as e:
        exc, ret = e, out
    finally:
        cmp.PAR = old_par
    mem = listing(ret, comp["writer"])
    for s in (out, ins):
        with contextlib.suppress(Exception):
            s.close()
    raw = disk_view(out_path, comp["writer"])
    recs = [[i, st, decode(st, data, comp["writer"], i)] for i, st, data in raw]
    from cogent3 import open_data_store
    try:
        ro = open_data_store(out_path, mode="r", **({} if comp["writer"] == "db"
                                                    else {"suffix": OUT_SUFFIX[comp["writer"]]}))
        reopened = listing(ro, comp["writer"])
        with contextlib.suppress(Exception):
            ro.close()
    except Exception as e:
        reopened = [["<reopen failed>", type(e).__name__]]
    return exc, recs, {"returned": mem, "reopened": reopened,
                       "disk": sorted([r[0], r[1]] for r in raw if r[1] != "stray-file")}


def run_alone(root, comp, ids, outcomes):
    """the processing part of the composition (everything before the writer, freshly built) called on each input
    alone: list of [status, content] the record of that input must equal"""
    root = Path(root)
    root.mkdir(parents=True, exist_ok=True)
    ins = make_inputs(root, comp, ids, outcomes)
    app = build_app(dict(comp, writer=None), outcomes, None)
    out = []
    try:
        for ident in ids:
            want = ident if comp["loader"] == "db" else f"{ident}.fasta"
            member = [m for m in ins.completed if str(m.unique_id) == want][0]
            try:
                r = app(member)
            except Exception as e:
                out.append(["raised", [type(e).__name__, str(e)[:120]]])
                continue
            out.append(["nc" if isinstance(r, NotCompleted) else "completed", abstract(r)])
    finally:
        with contextlib.suppress(Exception):
            ins.close()
    return out


def _run_single(root, comp, ids, outcomes, idx, form):
    """apply_to on the single input idx of the case (same files, same scripts, fresh output store): does this
    record make apply_to raise on its own?  Used only to name the culprit in a failure key."""
    sub = Path(root) / f"culprit{idx}"
    sub.mkdir(parents=True, exist_ok=True)
    ins = make_inputs(sub, comp, ids, outcomes)
    out, out_path = open_out(sub, comp["writer"])
    app = build_app(comp, outcomes, out)
    want = ids[idx] if comp["loader"] == "db" else f"{ids[idx]}.fasta"
    members = [m for m in ins.completed if str(m.unique_id) == want]
    exc = None
    try:
        app.apply_to(members, show_progress=False, logger=False)
    except Exception as e:
        exc = e
    for s in (out, ins):
        with contextlib.suppress(Exception):
            s.close()
    return exc, None, None


def judge(prefix, comp, ids, outcomes, exc, recs, lists, root, form="store", alone=True, reference=None):
    """all discrepancies of one run, most severe first -> contract result.
    reference: (exception, records) of the serial run of the same case, for the scheduled contracts"""
    problems = []
    if exc is not None and not (reference is not None and reference[0] is None):
        bad = []
        with contextlib.suppress(Exception):
            bad = [describe(comp, outcomes[i]) for i in range(len(ids))
                   if _run_single(root, comp, ids, outcomes, i, form)[0] is not None]
            bad = sorted(set(bad))
        if not bad:
            bad = ["no-single-record-raises-alone"]
        # one culprit names the failure class (the alphabetically first when several records raise on their own)
        problems.append((P_RAISE, f"apply_to-raises:{type(exc).__name__}/{bad[0]}",
                         f"apply_to raised {type(exc).__name__}: {str(exc)[:160]}; store then holds "
                         f"{lists['disk']}"))
    if reference is not None:
        ref_exc, ref_recs = reference
        if (ref_exc is None) != (exc is None):
            which = "only-when-scheduled" if exc is not None else "only-in-serial-run"
            problems.append((P_ORDER, f"raises-{which}:{type(exc or ref_exc).__name__}",
                             f"serial run: {ref_exc!r}; scheduled run: {exc!r}"))
        elif exc is None:
            ref = sorted([r[0], r[1], comparable(r[2])] for r in ref_recs)
            now = sorted([r[0], r[1], comparable(r[2])] for r in recs)
            if ref != now:
                rid, nid = [r[0] for r in ref], [r[0] for r in now]
                lost = [i for i in rid if rid.count(i) > nid.count(i)]
                extra = [i for i in nid if nid.count(i) > rid.count(i)]
                changed = [r[0] for r in now if r not in ref and r[0] not in lost + extra]
                sym, first = (("record-lost", lost[0]) if lost else ("record-added", extra[0]) if extra
                              else ("record-changed", changed[0]))
                d = describe(comp, outcomes[ids.index(first)]) if first in ids else "no-input"
                diff = [r for r in now if r not in ref] + [r for r in ref if r not in now]
                problems.append((P_ORDER, f"differs-from-serial-run/{sym}/{d}",
                                 f"scheduled run and serial run disagree (lost {lost}, added {extra}, changed "
                                 f"{changed}): {str(diff)[:300]}"))
    if exc is None and not (lists["returned"] == lists["reopened"] == lists["disk"]):
        dup = "duplicate-entry" if len(lists["returned"]) > len(lists["disk"]) else "mismatch"
        odd = [e[0] for e in lists["returned"] + lists["reopened"] + lists["disk"]
               if not (lists["returned"].count(e) == lists["reopened"].count(e) == lists["disk"].count(e))]
        d = describe(comp, outcomes[ids.index(odd[0])]) if odd and odd[0] in ids else "no-input"
        problems.append((P_LISTING, f"store-listing-{dup}/{d}",
                         f"returned store lists {lists['returned']}, reopened store lists {lists['reopened']}, "
                         f"disk holds {lists['disk']}"))
    if exc is None:
        check_against_spec(comp, ids, outcomes, recs, problems)
        if alone:
            by = {}
            for r in recs:
                by.setdefault(r[0], []).append(r)
            refs = run_alone(Path(root) / "alone", comp, ids, outcomes)
            for idx, ident in enumerate(ids):
                if len(by.get(ident, [])) != 1:
                    continue
                got, ref = by[ident][0], refs[idx]
                if ref[0] == "completed" and spec_record(comp, idx, outcomes[idx])["status"] == "nc":
                    continue       # a value the writer must refuse: the spec check above decides
                if [got[1], comparable(got[2])] != [ref[0], comparable(ref[1])]:
                    problems.append((P_ALONE, f"differs-from-call-alone/{describe(comp, outcomes[idx])}",
                                     f"input {ident!r}: apply_to stored {got[1]} {str(comparable(got[2]))[:160]}; "
                                     f"the app called on that input alone gives {ref[0]} {str(comparable(ref[1]))[:160]}"))
    if not problems:
        return ("ok", any(o is not None for o in outcomes) or len(ids) > 1)
    problems.sort(key=lambda p: (p[0], p[1]))
    p = problems[0]
    shape = f"{comp['loader']}+{comp['g']}+{comp['writer']}"
    more = "; also: " + "; ".join(q[1] for q in problems[1:4]) if len(problems) > 1 else ""
    # what a record ends up as does not depend on the contract that saw it: one key space "apply/..." for all
    # three apply_to contracts; discrepancies between a scheduled and the serial run carry the contract's name
    head = prefix if p[0] == P_ORDER else "apply"
    return ("fail", f"{head}/{p[1]}", f"composition {shape}, ids {ids}, outcomes {outcomes}: {p[2]}{more}")


# ------------------------------------------------------------------------------------------------ serial
def outcome_space(comp):
    out = [None]
    out += [[0, k] for k in STAGE0_KINDS[comp["loader"]]]
    for j in range(1, comp["g"] + 1):
        out += [[j, k] for k in SCRIPTED_KINDS]
    return out


PLAIN = ["a", "b", "c", "d", "e"]


def gen_serial(tier, seed):
    rnd = random.Random(seed)
    thorough = tier == "thorough"
    comps = [{"loader": ld, "g": g, "writer": wr}
             for ld in ("scripted", "unaligned", "aligned", "db")
             for g in ((0, 1, 2, 3) if thorough else (0, 1, 2))
             for wr in ("seqs", "json", "db")]
    for comp in comps:
        space = outcome_space(comp)
        # n = 1: every outcome
        for o in space:
            yield {"comp": comp, "ids": ["a"], "out": [o], "form": "store", "log": False}
        # n = 2: every unordered pair of outcomes
        for i, o1 in enumerate(space):
            for o2 in space[i:]:
                if not thorough and comp["g"] == 2 and o1 is not None and o2 is not None \
                        and o1[0] == o2[0] and o1 != o2 and rnd.random() < 0.5:
                    continue
                yield {"comp": comp, "ids": ["a", "b"], "out": [o1, o2], "form": "store", "log": False}
        # n = 3: every unordered triple of outcomes for compositions with at most one step (thorough)
        if thorough and comp["g"] <= 1:
            for trip in itertools.combinations_with_replacement(space, 3):
                yield {"comp": comp, "ids": ["a", "b", "c"], "out": list(trip), "form": "store", "log": False}
        # n = 3..5: seeded sample
        for _ in range(150 if thorough else 6):
            n = rnd.choice((3, 4, 5)) if thorough else 3
            yield {"comp": comp, "ids": PLAIN[:n], "out": [rnd.choice(space) for _ in range(n)],
                   "form": "store", "log": False}
        if comp["loader"] != "db":
            # inputs given as a list of path strings; a run that also writes its log into the store
            for o in space[:: (1 if thorough else 2)]:
                yield {"comp": comp, "ids": ["a", "b"], "out": [o, None], "form": "paths", "log": False}
            for o in space[:: (2 if thorough else 5)]:
                yield {"comp": comp, "ids": ["a", "b"], "out": [None, o], "form": "store", "log": True}
        # identifiers that are suffixes of each other, contain dots, contain the output suffix text
        if comp["loader"] in ("scripted", "unaligned") and comp["g"] in (0, 1):
            sfx = OUT_SUFFIX.get(comp["writer"], "fasta")
            fail = [comp["g"], "raise"] if comp["g"] else [0, STAGE0_KINDS[comp["loader"]][0]]
            for ids in (["a", "ba", "cba"], ["g.1", "g.2", "h"], [f"x{sfx}1", "y"], ["a b", "A"]):
                for outs in itertools.product([None, fail], repeat=len(ids)):
                    yield {"comp": comp, "ids": ids, "out": list(outs), "form": "store", "log": False}


def contract_serial(case):
    comp, ids, outcomes = case["comp"], case["ids"], case["out"]
    with tmp_root() as root, as_user_process():
        try:
            exc, recs, lists = run_apply(Path(root) / "run", comp, ids, outcomes, form=case["form"], log=case["log"])
        except Exception as e:
            return ("fail", f"serial/checker-step-raises:{type(e).__name__}",
                    f"{case}: building inputs / reading the store back failed: {e}")
        return judge("serial", comp, ids, outcomes, exc, recs, lists, root, form=case["form"])


# ------------------------------------------------------------------------------------------------ schedules
class SchedulerStub:
    """stands in for cogent3.util.parallel inside composable: as_completed(f, s) yields f(x) exactly once per x in
    the completion order given (the assumed pool contract T), every value crossing a pickle boundary as it would
    between processes"""

    def __init__(self, order):
        self.order = order
        self.used = 0

    def as_completed(self, f, s, **kw):
        self.used += 1
        s = list(s)
        fb = pickle.dumps(f)
        order = [j for j in self.order if j < len(s)] + [j for j in range(len(s)) if j not in self.order]
        for j in order:
            f2 = pickle.loads(fb)
            yield pickle.loads(pickle.dumps(f2(pickle.loads(pickle.dumps(s[j])))))


SCHED_COMPS = [{"loader": "scripted", "g": 1, "writer": "seqs"}, {"loader": "unaligned", "g": 2, "writer": "db"},
               {"loader": "aligned", "g": 1, "writer": "json"}, {"loader": "db", "g": 1, "writer": "db"},
               {"loader": "scripted", "g": 0, "writer": "json"}, {"loader": "unaligned", "g": 1, "writer": "seqs"}]


def sched_vectors(comp, n, rnd, count):
    space = outcome_space(comp)
    vecs = [[None] * n]
    vecs.append([space[(i % (len(space) - 1)) + 1] for i in range(n)])          # all fail, differently
    vecs.append([None if i % 2 else space[-1 - (i % 3) % len(space)] for i in range(n)])
    while len(vecs) < count:
        vecs.append([rnd.choice(space) for _ in range(n)])
    return vecs[:count]


def gen_schedules(tier, seed):
    rnd = random.Random(seed + 1)
    thorough = tier == "thorough"
    for comp in SCHED_COMPS:
        for n in (1, 2, 3, 4, 5):
            perms = list(itertools.permutations(range(n)))
            if n == 5 and not thorough:
                perms = rnd.sample(perms, 24)
            if n == 4 and not thorough:
                perms = perms[::2]
            count = {1: 3, 2: 6, 3: (12 if thorough else 5), 4: (6 if thorough else 3), 5: (4 if thorough else 1)}[n]
            for vec in sched_vectors(comp, n, rnd, count):
                for perm in perms:
                    yield {"comp": comp, "ids": PLAIN[:n], "out": vec, "order": list(perm)}
        if thorough:
            for _ in range(40):          # beyond the frontier: 6..9 inputs, random order
                n = rnd.randint(6, 9)
                ids = [f"r{i}" for i in range(n)]
                order = list(range(n))
                rnd.shuffle(order)
                space = outcome_space(comp)
                yield {"comp": comp, "ids": ids, "out": [rnd.choice(space) for _ in range(n)], "order": order}


def contract_schedules(case):
    comp, ids, outcomes, order = case["comp"], case["ids"], case["out"], case["order"]
    with tmp_root() as root, as_user_process():
        try:
            ref_exc, ref, _ = run_apply(Path(root) / "serial", comp, ids, outcomes)
            stub = SchedulerStub(order)
            exc, recs, lists = run_apply(Path(root) / "run", comp, ids, outcomes, form="members",
                                         par={"max_workers": 2}, stub=stub)
        except Exception as e:
            return ("fail", f"schedules/checker-step-raises:{type(e).__name__}", f"{case}: {e}")
        if not stub.used:
            return ("fail", "schedules/parallel-path-not-taken", f"{case}: apply_to(parallel=True) never asked the pool")
        res = judge("schedules", comp, ids, outcomes, exc, recs, lists, root, alone=False, reference=(ref_exc, ref))
        if res[0] == "ok":
            return ("ok", len(ids) > 1 and order != sorted(order))
        return res


# ------------------------------------------------------------------------------------------------ real pool
def gen_pool(tier, seed):
    rnd = random.Random(seed + 2)
    thorough = tier == "thorough"
    cases = []
    for w in (2, 3, 4):
        for n in ((1, 2, 3, 4, 5) if thorough else (2, 3, 4)):
            orders = feasible_orders(n, w)
            for order in orders:
                cases.append({"fn": "as_completed", "n": n, "w": w, "order": order, "chunk": None, "dup": False})
            if n >= 3:
                cases.append({"fn": "as_completed", "n": n, "w": w, "order": orders[-1], "chunk": 2, "dup": True})
        # ordered variants: results must come back in input order whatever finishes first
        for n in ((3, 4, 5) if thorough else (3, 4)):
            orders = feasible_orders(n, w)
            picks = orders if thorough and n <= 4 else [orders[0], orders[-1], orders[len(orders) // 2]]
            for fn in ("imap", "map"):
                for chunk in (None, 1, 2, n):
                    for order in picks:
                        cases.append({"fn": fn, "n": n, "w": w, "order": order if chunk in (None, 1) else None,
                                      "chunk": chunk, "dup": False})
    if thorough:
        for _ in range(30):              # beyond the frontier: 8..30 tasks, random sleeps, no barrier
            n = rnd.randint(8, 30)
            cases.append({"fn": rnd.choice(["as_completed", "imap", "map"]), "n": n, "w": rnd.choice((2, 3, 4, 6)),
                          "order": None, "chunk": rnd.choice((None, 1, 3, 7)), "dup": rnd.random() < 0.5,
                          "sleeps": [rnd.choice((0, 0, 0.005, 0.02)) for _ in range(n)]})
    yield from cases


def contract_pool(case):
    from cogent3.util import parallel as PAR
    n, w, order, chunk = case["n"], case["w"], case["order"], case["chunk"]
    xs = [(i // 2 if case["dup"] else i) for i in range(n)]
    sleeps = case.get("sleeps") or [0] * n
    with tmp_root() as marks, as_user_process():
        pred = preds_of(order) if order else {}
        args = [[i, xs[i], pred.get(i), marks if order else None, sleeps[i]] for i in range(n)]
        kw = dict(max_workers=w)
        if chunk is not None:
            kw["chunksize"] = chunk
        try:
            got = list(getattr(PAR, case["fn"])(barrier_task, args, **kw))
        except Exception as e:
            return ("fail", f"pool/{case['fn']}/raises:{type(e).__name__}", f"{case}: {type(e).__name__}: {e}")
    want = [task_value(x) for x in xs]
    if case["fn"] == "as_completed":
        if sorted(got) != sorted(want):
            kind = "result-lost" if len(got) < len(want) else "result-repeated" if len(got) > len(want) else "result-wrong"
            return ("fail", f"pool/as_completed/{kind}", f"{case}: yielded {got}, one result per task is {want}")
        seen = [g[0] for g in got]
        return ("ok", n > 1 and seen != sorted(seen))
    if got != want:
        return ("fail", f"pool/{case['fn']}/not-in-input-order" if sorted(got) == sorted(want)
                else f"pool/{case['fn']}/result-wrong", f"{case}: returned {got}, expected {want}")
    return ("ok", n > 1)


# ------------------------------------------------------------------------------------------------ real parallel
PAR_COMPS = [{"loader": "scripted", "g": 1, "writer": "seqs"}, {"loader": "unaligned", "g": 2, "writer": "db"},
             {"loader": "scripted", "g": 0, "writer": "json"}, {"loader": "aligned", "g": 1, "writer": "seqs"}]


def gen_parallel(tier, seed):
    rnd = random.Random(seed + 3)
    thorough = tier == "thorough"
    cases = []
    total = 160 if thorough else 16
    k = 0
    while len(cases) < total:
        comp = PAR_COMPS[k % len(PAR_COMPS)]
        w = (2, 3, 4)[(k // len(PAR_COMPS)) % 3] if thorough else (2, 3)[(k // len(PAR_COMPS)) % 2]
        n = rnd.choice((3, 4, 5)) if thorough else rnd.choice((3, 4))
        order = rnd.choice(feasible_orders(n, w))
        space = [o for o in outcome_space(comp) if o is None or comp["loader"] == "scripted" or o[0] > 0]
        if k % 5 == 0:
            vec = [None] * n
        else:
            vec = [rnd.choice(space) for _ in range(n)]
        chunk = rnd.choice((None, 1, 2))
        cases.append({"comp": comp, "ids": PLAIN[:n], "out": vec, "order": order, "w": w, "chunk": chunk})
        k += 1
    yield from cases


def contract_parallel(case):
    comp, ids, outcomes, order, w = case["comp"], case["ids"], case["out"], case["order"], case["w"]
    with tmp_root() as root, as_user_process():
        marks = Path(root) / "marks"
        marks.mkdir()
        pred = preds_of(order)
        order_by_key = {f"k{i}": (None if pred[i] is None else f"k{pred[i]}") for i in range(len(ids))}
        par = {"max_workers": w}
        if case["chunk"] is not None:
            par["chunksize"] = case["chunk"]
        try:
            ref_exc, ref, _ = run_apply(Path(root) / "serial", comp, ids, outcomes)
            exc, recs, lists = run_apply(Path(root) / "run", comp, ids, outcomes, form="members", par=par,
                                         order=order_by_key, marks=str(marks))
        except Exception as e:
            return ("fail", f"parallel/checker-step-raises:{type(e).__name__}", f"{case}: {e}")
        res = judge("parallel", comp, ids, outcomes, exc, recs, lists, root, alone=False, reference=(ref_exc, ref))
        if res[0] != "ok":
            return res
        # non-trivial when the barrier realised the requested completion order and it is not the submission order
        done = sorted((p.stat().st_mtime_ns, p.name) for p in marks.glob("done-k*"))
        realised = [int(n[len("done-k"):]) for _, n in done]
        return ("ok", realised == list(order) and list(order) != sorted(order))


# ------------------------------------------------------------------------------------------------ call
CALL_INPUTS = {None: ["data", "none", "nc", "table", "dict"], "scripted": ["path", "none", "nc"]}


def gen_call(tier, seed):
    thorough = tier == "thorough"
    kinds = ["ok"] + SCRIPTED_KINDS
    for loader in (None, "scripted"):
        for g in ((1, 2, 3) if loader is None else (0, 1, 2)):
            for writer in (None, "seqs", "json"):
                comp = {"loader": loader, "g": g, "writer": writer}
                stages = g + (1 if loader else 0)
                if stages == 0:
                    continue
                if stages == 3 and not thorough:
                    vecs = [v for i, v in enumerate(itertools.product(kinds, repeat=3)) if i % 3 == 0 or "nc" in v]
                else:
                    vecs = list(itertools.product(kinds, repeat=stages))
                for inp in CALL_INPUTS[loader]:
                    for vec in (vecs if inp in ("data", "path") else vecs[:: max(1, len(vecs) // 6)]):
                        yield {"comp": comp, "input": inp, "out": list(vec)}


def contract_call(case):
    comp, inp, vec = case["comp"], case["input"], case["out"]
    names = stage_names(comp)
    producers = names[:-1] if comp["writer"] else names
    writer = WRITER_NAME[comp["writer"]] if comp["writer"] else None
    with tmp_root() as root, as_user_process():
        root = Path(root)
        out = out_path = None
        if comp["writer"]:
            out, out_path = open_out(root, comp["writer"])
        from cogent3 import get_app, make_table, make_unaligned_seqs
        app = None
        off = 0
        if comp["loader"]:
            app = loadx(script={"k0": vec[0]})
            off = 1
        for j in range(1, comp["g"] + 1):
            s = STEPS[j - 1](script={"k0": vec[off + j - 1]})
            app = s if app is None else app + s
        if comp["writer"]:
            app = app + get_app(writer, data_store=out, **({"format": "fasta"} if comp["writer"] == "seqs" else {}))
        a, b = seq_pair(0)
        nc_in = NotCompleted("ERROR", "caller", "scripted input", source="x.fasta")
        if inp == "path":
            (root / "x.fasta").write_text(file_text(0, "ok"))
            val = str(root / "x.fasta")
        else:
            val = {"data": make_unaligned_seqs({"k0": a, "b": b}, moltype="dna", info={"source": "x.fasta"}),
                   "none": None, "nc": nc_in, "table": make_table(header=["a"], data=[[0]]), "dict": {"x": 0}}[inp]
        # ---- spec: walk the stages
        v = {"data": "seqs", "path": "path", "none": "none", "nc": "nc", "table": "table", "dict": "dict"}[inp]
        invoked, tag = [], ""
        exp = None                       # expected NotCompleted description once the value is not-completed
        if v == "none":
            exp = {"origins": names, "token": None, "source": False}
        elif v == "nc":
            exp = {"exact": ["ERROR", "caller", "scripted input", "x.fasta"]}
        prev = "caller"
        for s, name in enumerate(producers):
            if exp is not None:
                break
            if name != "loadx" and v in ("table", "dict"):
                exp = {"origins": [prev, name], "token": None, "source": False}
                break
            invoked.append(name)
            kind = vec[s]
            if kind == "ok":
                v = "seqs"
                if name != "loadx":
                    tag += name[-1]
            elif kind == "raise":
                exp = {"origins": [name], "token": f"boom-{name}-k0", "source": True}
            elif kind == "none":
                exp = {"origins": [name], "token": None, "source": True}
            elif kind == "nc":
                exp = {"exact": ["FAIL", name, f"declined-{name}-k0", "x.fasta"]}
            else:
                v = "table" if kind == "wrong" else "dict"
            prev = name
        CALLS.clear()
        try:
            r = app(val)
        except Exception as e:
            return ("fail", f"call/raises:{type(e).__name__}/input:{inp}", f"{case}: app(value) raised {e!r}")
        ran = [c[0] for c in CALLS]
        for s in (out,):
            if s is not None:
                with contextlib.suppress(Exception):
                    s.close()
        stored = disk_view(out_path, comp["writer"]) if comp["writer"] else []
        stored = [[i, st, decode(st, raw, comp["writer"], i)] for i, st, raw in stored]
    first_fail = next((f"{vec[s]}@{role(n)}" for s, n in enumerate(producers) if s < len(vec) and vec[s] != "ok"), "all-ok")
    pat = f"input:{inp}/{first_fail}"
    if ran != invoked:
        extra = [x for x in ran if x not in invoked]
        sym = "step-run-after-not-completed" if extra else "step-not-run"
        return ("fail", f"call/{sym}/{pat}", f"{case}: main() ran in {ran}, the spec runs {invoked}")
    if exp is None and comp["writer"]:
        # a value reaches the writer
        content = ["seqs", {"k0": a, "b" + tag: b}] if v == "seqs" else None
        if v in ("table", "dict"):
            if isinstance(r, NotCompleted):
                if r.origin not in (prev, writer):
                    return ("fail", f"call/nc-origin-not-failing-step/{pat}", f"{case}: origin {r.origin!r}")
                if stored:
                    return ("fail", f"call/record-and-not-completed/{pat}", f"{case}: returned {r!r} but stored {stored}")
                return ("ok", True)
            if writer not in ACCEPTS_ANYTHING:
                return ("fail", f"call/wrong-type-written/{pat}", f"{case}: {writer} returned {r!r}, stored {stored}")
            content = ["table", {"a": [0]}] if v == "table" else ["dict", [["x", 0]]]
        if isinstance(r, NotCompleted):
            return ("fail", f"call/not-completed-for-valid-record/{pat}", f"{case}: {r!r}")
        if len(stored) != 1 or stored[0][1] != "completed" or stored[0][2] != content:
            return ("fail", f"call/stored-content-differs/{pat}", f"{case}: stored {stored}, expected one completed "
                    f"record {content}")
        return ("ok", True)
    if exp is None:
        got = abstract(r)
        want = {"seqs": ["seqs", {"k0": a, "b" + tag: b}], "table": ["table", {"a": [0]}],
                "dict": ["dict", [["x", 0]]]}[v]
        if got != want:
            return ("fail", f"call/result-differs/{pat}", f"{case}: returned {got}, expected {want}")
        return ("ok", True)
    # a not-completed value is expected at the end of the composition
    if not isinstance(r, NotCompleted):
        return ("fail", f"call/not-completed-swallowed/{pat}", f"{case}: returned {abstract(r)}, expected NotCompleted {exp}")
    if stored:
        return ("fail", f"call/record-and-not-completed/{pat}", f"{case}: returned {r!r} but stored {stored}")
    if exp.get("exact"):
        if [r.type, r.origin, r.message, r.source] != exp["exact"]:
            return ("fail", f"call/nc-not-passed-unchanged/{pat}",
                    f"{case}: got {[r.type, r.origin, r.message, r.source]}, the value was {exp['exact']}")
        return ("ok", True)
    if r.origin not in exp["origins"]:
        return ("fail", f"call/nc-origin-not-failing-step/{pat}", f"{case}: origin {r.origin!r} not in {exp['origins']}")
    if not str(r.message).strip() or (exp["token"] and exp["token"] not in r.message):
        return ("fail", f"call/nc-message-lost/{pat}", f"{case}: message {r.message!r}")
    if exp["source"] and not names_source(r.source, "x"):
        return ("fail", f"call/nc-source-not-named/{pat}", f"{case}: source {r.source!r}")
    return ("ok", True)


# ================================================================================================ falsy intermediate values
def gen_falsy(tier, seed):
    # (an empty list / tuple handed to a step is refused as "empty data" by design: _validate_data_type; not used here)
    for pipe in ("int", "dict"):
        for text in ("0", "1", "2", "3", "4", "7"):
            yield [pipe, text]


def contract_falsy(case):
    """a composed app returns what its steps compute, also when an intermediate value is falsy (0, [], {})"""
    from speclib import c14_falsy
    pipe, text = case
    r = c14_falsy.run(pipe, text)
    if r[0] == "raises":
        return ("fail", f"falsy/{pipe}/raises", f"{case}: {r[1]}")
    if r[0] == "not-completed":
        return ("fail", f"falsy/{pipe}/completed-value-turned-into-NotCompleted", f"{case}: {r[1]}; the steps compute {r[2]!r}")
    if r[1] != r[2]:
        return ("fail", f"falsy/{pipe}/wrong-value", f"{case}: composed app returned {r[1]!r}, the steps compute {r[2]!r}")
    return ("ok", True)


# ================================================================================================ caller-chosen identifiers
def _id_dir_stem(source):
    """identifier = <directory>-<stem>: inputs with the same file name in different directories stay distinct"""
    p = Path(str(getattr(source, "source", source)))
    return f"{p.parent.name}-{p.name.split('.')[0]}"


def gen_custom_ids(tier, seed):
    for writer in ("seqs", "json"):
        for mode in ("serial",):     # (the harness worker is a daemonic process and cannot start a pool; schedules: own contract)
            for failing in ([], ["d1/s2"], ["d1/s1", "d2/s1"]):
                yield [writer, mode, failing]


def contract_custom_ids(case):
    """apply_to(..., id_from_source=f): every input ends up as exactly one record under f(input), also when the default
    identifier (the file name) of two inputs coincides"""
    import tempfile

    from cogent3 import get_app, open_data_store
    writer, mode, failing = case
    inputs = ["d1/s1", "d1/s2", "d2/s1", "d2/s3"]
    with tempfile.TemporaryDirectory(prefix="c14ids_") as tmp:
        root = Path(tmp)
        paths = []
        for k, rel in enumerate(inputs):
            f = root / "in" / (rel + ".fasta")
            f.parent.mkdir(parents=True, exist_ok=True)
            seq = "AC" if rel in failing else "ACGTTGCA" + "ACGT"[k % 4] * (k + 1)      # shorter than min_length: not completed
            f.write_text(f">x\n{seq}\n>y\n{seq[::-1]}\n")
            paths.append(str(f))
        import cogent3.app.data_store as dsm
        old_master = dsm.is_master_process
        dsm.is_master_process = lambda: True      # the forked harness worker plays the user's main process
        kw = dict(parallel=True, par_kw=dict(max_workers=2)) if mode == "parallel" else {}
        try:
            out = open_data_store(root / "out", suffix="fasta" if writer == "seqs" else "json", mode="w")
            w = get_app("write_seqs", data_store=out, format="fasta") if writer == "seqs" else get_app("write_json", data_store=out)
            app = get_app("load_unaligned", format="fasta", moltype="dna") + get_app("min_length", length=5) + w
            app.apply_to(paths, id_from_source=_id_dir_stem, show_progress=False, logger=False, **kw)
        except Exception as e:
            return ("fail", f"custom-ids/{writer}/{mode}/apply_to-raises-{type(e).__name__}", f"{case}: {type(e).__name__}: {str(e)[:200]}")
        finally:
            dsm.is_master_process = old_master
        done = sorted(Path(str(m.unique_id)).name.split(".")[0] for m in out.completed)
        notc = sorted(Path(str(m.unique_id)).name.split(".")[0] for m in out.not_completed)
        want_done = sorted(rel.replace("/", "-") for rel in inputs if rel not in failing)
        want_nc = sorted(rel.replace("/", "-") for rel in failing)
        if done != want_done or notc != want_nc:
            what = "record-count" if len(done) + len(notc) != len(inputs) else "identifiers"
            return ("fail", f"custom-ids/{writer}/{mode}/{what}-differ",
                    f"{case}: inputs {inputs} with id = <dir>-<stem>: completed {done} (want {want_done}), not completed {notc} (want {want_nc})")
        return ("ok", True)


# ================================================================================================ mutable options
def gen_options(tier, seed):
    for kind in ("dict", "list"):
        for how in ("keyword", "positional"):
            for mode in ("calls", "as_completed", "composed"):
                for order in ("given", "reversed"):
                    if mode == "composed" and kind != "list":
                        continue
                    yield [kind, how, mode, order]


def contract_options(case):
    """an app built from a function with a mutable option processes every record as if it were the only one, and leaves
    the caller's option object as it was"""
    from cogent3.app.composable import NotCompleted
    from speclib import c14_mutable
    kind, how, mode, order = case
    try:
        r = c14_mutable.run(kind, how, mode, order)
    except Exception as e:
        return ("fail", f"options/{kind}/{how}/{mode}/raises-{type(e).__name__}", f"{case}: {type(e).__name__}: {e}")
    if r is None:
        return ("skip",)
    rows, opt, before = r
    for k, (rec, got, want) in enumerate(rows):
        val = getattr(got, "obj", got) if not isinstance(got, NotCompleted) else got
        if isinstance(got, NotCompleted):
            return ("fail", f"options/{kind}/{how}/{mode}/not-completed", f"{case}: record {k} ({rec!r}) -> {got}")
        if val != want:
            return ("fail", f"options/{kind}/{how}/{mode}/record-depends-on-earlier-records",
                    f"{case}: record {k} ({rec!r}) of {len(rows)} gives {val!r}; processed alone it gives {want!r}")
    if opt != before:
        return ("fail", f"options/{kind}/{how}/{mode}/callers-option-object-changed", f"{case}: the option given at construction is now {opt!r}, it was {before!r}")
    return ("ok", True)


BOUNDED = {
    "custom_ids": {
        "gen": gen_custom_ids, "contract": contract_custom_ids,
        "functions": ["composable._apply_to (id_from_source argument)", "io.write_seqs", "io.write_json", "DataStoreDirectory"],
        "bound": "4 inputs in 2 directories, two of them with the same file name; identifier function <dir>-<stem>; writers "
                 "write_seqs / write_json x {no, one, two} failing inputs; serial",
        "rule": "every input is exactly one completed or not-completed record under the identifier the caller's function gives it",
        "shards": 1,
    },
    "mutable_options": {
        "gen": gen_options, "contract": contract_options,
        "functions": ["app.composable._class_from_func (_init / _main of function-defined apps)", "define_app",
                      "composable._as_completed"],
        "bound": "2 function-defined apps that modify a dict / list option given at construction (keyword or positional) x "
                 "4 records in two orders x {direct calls on one instance, as_completed serial, composed after another app}",
        "rule": "every record's result equals the result of processing it alone (plain formula); the caller's option object "
                "is unchanged",
        "shards": 1,
    },
    "falsy_values": {
        "gen": gen_falsy, "contract": contract_falsy,
        "functions": ["app.composable._call (composition of three or four user-defined apps)", "define_app"],
        "bound": "2 pipelines over int / dict values x 6 inputs; each passes through an intermediate 0 or {} for some input",
        "rule": "the composed app's result equals the plain Python composition of its steps; a falsy intermediate value is a "
                "completed value",
        "shards": 1,
    },
    "call": {
        "gen": gen_call, "contract": contract_call, "shards": 8,
        "functions": ["composable._call (define_app __call__)", "composable._validate_data_type", "composable._add",
                      "NotCompleted", "io.write_seqs", "io.write_json"],
        "bound": "one value through [scripted loader] + 0..3 scripted steps [+ write_seqs | write_json]; every vector "
                 "of per-stage outcomes over {ok, raise, None, Table, dict, explicit NotCompleted} (3 stages: a "
                 "third of the vectors in quick); inputs {valid, None, NotCompleted, Table, dict | path}",
        "rule": "a case = (composition, input kind, outcome per stage); non-trivial always (each case runs the app)",
    },
    "serial": {
        "gen": gen_serial, "contract": contract_serial,
        "functions": ["composable._apply_to", "composable._as_completed", "composable._proxy_input",
                      "composable._source_wrapped", "io.load_unaligned", "io.load_aligned", "io.load_db",
                      "io.write_seqs", "io.write_json", "io.write_db", "data_store.DataStoreDirectory",
                      "sqlite_data_store.DataStoreSqlite", "data_store.get_unique_id"],
        "bound": "loader in {scripted, load_unaligned, load_aligned, load_db} x 0..2 (thorough 3) scripted steps x "
                 "writer in {write_seqs, write_json, write_db}; 1 input: every outcome (first failing stage x kind); "
                 "2 inputs: every unordered pair of outcomes (quick: half of the same-stage pairs at 2 steps); 3 inputs: "
                 "seeded sample (thorough: every unordered triple for <= 1 step, seeded sample of 3..5 inputs); inputs as "
                 "store or list of paths; with/without log; identifier sets {a,ba,cba}, {g.1,g.2,h}, "
                 "{x<suffix>1,y}, {'a b','A'} x {ok, fail}^n",
        "rule": "a case = (composition, identifiers, outcome per record, input form, log); non-trivial when some "
                "record fails or there are >= 2 inputs; store == spec == app(input) alone",
    },
    "schedules": {
        "gen": gen_schedules, "contract": contract_schedules,
        "functions": ["composable._apply_to(parallel=True)", "composable._as_completed", "composable._source_wrapped",
                      "composable.source_proxy.__getstate__/__setstate__", "NotCompleted.__getnewargs_ex__"],
        "bound": "6 compositions x 1..5 inputs x every completion order (5 inputs: 24 sampled orders in quick, all "
                 "120 in thorough) x 3..12 outcome vectors; the pool is an in-process scheduler meeting the assumed "
                 "contract T with a pickle boundary; thorough adds 6..9 inputs in random order",
        "rule": "a case = (composition, outcome per record, completion order over the inputs, which are passed as the "
                "list of members in identifier order); non-trivial when the order is not the submission order; "
                "store == serial run == spec",
    },
    "pool": {
        "gen": gen_pool, "contract": contract_pool, "shards": 8,
        "functions": ["util.parallel.as_completed", "util.parallel.imap", "util.parallel.map"],
        "bound": "real loky pool, 2..4 workers, 2..4 (thorough 1..5) tasks, every completion order a FIFO pool of "
                 "that size can realise (forced by a marker-file barrier), duplicate arguments, chunk sizes "
                 "{None,1,2,n}; thorough adds 8..30 tasks with random sleeps",
        "rule": "a case = (function, tasks, workers, completion order, chunk size); non-trivial when results arrive "
                "out of submission order (as_completed) / more than one task (imap, map)",
    },
    "parallel": {
        "gen": gen_parallel, "contract": contract_parallel, "shards": 8,
        "functions": ["composable._apply_to(parallel=True) on the real loky pool", "util.parallel.as_completed"],
        "bound": "4 compositions x 3..4 (thorough 3..5) inputs x 2..3 (thorough 2..4) workers x chunksize "
                 "{None,1,2} x a seeded feasible completion order forced by a marker-file barrier x seeded outcome "
                 "vectors: 16 cases quick, 160 thorough (each call starts fresh worker processes)",
        "rule": "a case = (composition, outcome per record, workers, chunk size, completion order); non-trivial when "
                "the marker files show the requested order was realised and it is not the submission order; store == "
                "serial run == spec",
    },
}
