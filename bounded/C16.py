"""Bounded run-time contracts for C16 (stand-in tier; never counted as proved).

Contract text (from the property statement, not from the code):

* init_nested   alt.initialise_from_nested(null)  ==>  alt.lnL == null.lnL (1e-9) and == the likelihood that the
                null's reported parameter values denote (own sum-product oracle, speclib.c16_spec); null untouched;
                alt keeps its free parameters (it is still the richer model) and its values lie within its bounds;
                a following alt.optimise(...) never ends below null.lnL (the LR of the pair is >= 0).
* optimise      lf.optimise(local | global | global+local, any max_evaluations, tolerances)  ==>
                lnL_after >= lnL_before - tol; every free parameter within its declared [lower, upper]; constants,
                bounds and the number of free parameters unchanged; the reported lnL is the likelihood of the
                reported parameter values (oracle).
* hypothesis    get_app("hypothesis", null, alt...)(aln) for nested model apps  ==>  LR >= -1e-6, lnL
                non-decreasing along a sequential chain, df > 0, parameters within the apps' bounds.

Tolerance: 1e-9 absolute on lnL, widened only where the *start or end point itself* is ill-conditioned in floating
point: with an edge of positive length t < 1e-5 the off-diagonal entries of P(t) (size ~t) carry a relative
rounding error ~eps/t, so a 1-ulp change of a parameter caused by the optimiser's transform round trip moves lnL
by ~1e-16/t per site (measured: 1.3e-7 at t = 1e-9).  tol = 1e-9 * max(1, 1e-5 / shortest positive length).
Accuracy of expm/eig is outside C16 (C02/C11); monotonicity of the optimiser is what is checked here.

Only *genuinely* nested pairs are generated (the nesting is stated in the tables below from the published
definitions of the models, not read from cogent3); the method's own precondition (strictly more free parameters
in the richer model) is evaluated in the contract and the case skipped when it does not hold.
"""
from __future__ import annotations

import copy
import itertools
import math
import random
import warnings

from speclib import c16_spec as X

LNL_TOL = 1e-9
LR_TOL = 1e-6
BOUND_SLACK = 1e-9          # relative slack on a bound: 1-ulp overshoot of exp(log(bound)) is not a violation

# ------------------------------------------------------------------------------------------------ data
TREES = {
    "t3": "(a:0.1,b:0.2,c:0.3);",
    "t4u": "((a:0.1,b:0.2):0.05,c:0.3,d:0.15);",
    "t4r": "((a:0.1,b:0.2):0.3,(c:0.3,d:0.05):0.4);",
    "t5": "((a:0.1,b:0.2):0.05,(c:0.3,d:0.15):0.1,e:0.25);",
}
TIPS = {"t3": "abc", "t4u": "abcd", "t4r": "abcd", "t5": "abcde"}
ALNS = {
    # baseline alignment of the design probe (ambiguity codes R, N, Y)
    "amb": {"a": "ACGTRATNACGAACGTTGCAACGT", "b": "ACGTAAYCACGTACGATGCAATGT", "c": "ATGTGACCTCGAACGTTGAAACGA",
            "d": "CCGTAAGCACTATCGTTGCTACGT", "e": "ACGTGATCACGAACGATGCTACGA"},
    # longer, canonical symbols only, unequal composition, more transitions than transversions
    "clean": {"a": "ATGGCGTTAACCGGATATTTAGCAGCGATAATTAGC", "b": "ATGGCATTGACCGAATACTTAGCGGCAATAATCAGT",
              "c": "ATGACGCTAACTGGGTATTTGGCAACGGTAGTTAAC", "d": "GTGGCGTTAATCGGATGTCTAGTAGCGATGATTAGC",
              "e": "ATAGCGTTGACCAGATATTTAACAGTGATAATTGGC"},
    # gaps and a fully missing column
    "gap": {"a": "ACG-TACGATT-GACCATGA", "b": "ACGATAC-ATTCGATCAT-A", "c": "AC-ATGCGACTCG-TCATGA",
            "d": "TCGAT-CGATTCGACC-TGA", "e": "ACGGTACG-TTC-ACCATAA"},
}
# the three sequences differ by transitions only: kappa-like parameters want to be as large as their bound allows
TS_ONLY = {"a": "ACGTACGTACGTACGTACGTACGTACGTACGTACGTACGT", "b": "GCGTACATACGCACGTGCGTACGTATGTACGTACGTACGC",
           "c": "ACATACGTACGTATGTACGTGCGTACGTACGCACGTACGT"}
# 300 columns on 4 taxa (GC rich, many substitutions): long enough for GeneralStationary fits to run into refused points
GS_ALN = {
    "a": "TATGGTTACTTCGCGCGGGTGTGACGACGGGGCGCGGTTCACGCATCAAGGGGGACGGGAGCGACTGGTGCCCGGTGTGCGGAGCTACCCGCCGCGGCCAGGGGGATGCCGGATCCTGGTGCTCGGTTGGCTACTCCCCCGCAGCCGCGCGTCCGCGTCGGCCTGTGGTCGGGTTCGCCCCCGTTGGGCGGCGGAATTCCACGCGGGGGATGTCGTCGGCCGCGCTGGTGTGGTGGTCTACCGGCTCCCGTCCCCGATCCGAGCCGCGGCACTCTGCGCCAGCCTGGCGGCCTGGGGGGA",
    "b": "CATGGTTTCCGTGCTGGGAGGTGCCTGCGGGGCGCGGGTTCTGTCCCAGGGGGCGTGGGGGCGACTGGCGCTCGGTGTGCGGAGCTACTTGCTGCGGCCAAAGGGATGCTGAATCGTGGCGCGCGACTTGCCACCCCACCGTAGCCGCTCGTCCACGTCGGCGTATGGACGGGCTCGCCCCCGCTGGGCGGCAGGACCCTACGTGGGGGGTGTCGACGGCCGCGCTAGTGAGGTGGGTCTCCATTTTCGGTACCCGATCCTAGCTTCGGCGGCCCGCGCGAGTCCGGCGGCCCGGCGGGA",
    "c": "CACGGTCGCGGCGCGTGGGGGCGGTCGTGGGGCTGGGTTCGTGCACCGAGGGGGGTGGAAGCGGCAGGTATTCGGTGCGCGAAGGCACTCGTTGCGGCCAGGGGGACGCAGTATCATGGCGTGCGGTGGGCTACCTTGCTTTGGCGGCCTGCCTGCGTCGGCCTATGGTCAGGCTCTTCCCCGCCGGGCAGCGGGACTGTAGGTGGGGTATGCCCGTTGCTGTGTAAACGAGGTGGGTTACCGTTCTTGGTACCCGGCTCTAGCCTTGACGGCTTGCGCCAGTCCGGCGGCCTGGGGGGA",
    "d": "CGCGGTCGCCGCGCGTGGGGTAGGGTGCGGGGCTCGGTTCGCGCATCGAGGGGGGTGGGGGCGGTCGGTGTTCCGTGCGCGAAGCCATTCGCTGCGGCCTGAGGGATGCAGAATCACGGTGTGCGGGTGGTCATCCCCCCACGGCCGCCTGCCCGCGCCGGCCCATGGTCGGGCTCGTCCCCGCCGGGCGGCGGGACTCTACGTGGGGGAGGTCGGTTGCCGTGCTAGTGAGGTGGTCCATTGTCCTTGGTAGCCGACTCTAACCCCGGCGGCCTGCGCCAATCCGGCGGCCTGGGGGGT",
}
CODON_ALN = {"a": "ATGCGTATTACGAACGTTGCAACG", "b": "ATGCGAATCACGTACGATGCAATG", "c": "ATGTCACCTCGAACGTTGAAACGA"}

# published nesting of the nucleotide families (transitively closed below).  JC69/K80 have equal frequencies.
_COVERS = [("JC69", "K80"), ("JC69", "F81"), ("K80", "HKY85"), ("F81", "HKY85"), ("HKY85", "TN93"), ("TN93", "GTR"),
           ("GTR", "GN"), ("ssGN", "GN"), ("K80", "ssGN")]
NUC = ["JC69", "K80", "F81", "HKY85", "TN93", "GTR", "ssGN", "GN"]
EQUAL_PI = {"JC69", "K80"}


def _closure(covers):
    lt = set(covers)
    changed = True
    while changed:
        changed = False
        for (a, b), (c, d) in itertools.product(list(lt), list(lt)):
            if b == c and (a, d) not in lt:
                lt.add((a, d))
                changed = True
    return lt


NESTED = sorted(_closure(_COVERS), key=lambda p: (NUC.index(p[0]), NUC.index(p[1])))
CODON_NESTED = [("MG94HKY", "MG94GTR"), ("CNFHKY", "CNFGTR")]

# scopes of the rate parameters, ordered by nesting: const < shared < ab < ab_ind < each
SCOPES = ["const", "shared", "ab", "ab_ind", "each"]
# scopes of the lengths: eq < clock_ab < free ; const_a < free
LEN_NESTED = [("eq", "clock_ab"), ("eq", "free"), ("clock_ab", "free"), ("const_a", "free")]


def rate_names(sm):
    return list(X.MODELS[sm][3])


def scope_rules(sm, scope, const_value=1.0):
    """set_param_rule keyword dicts that give every rate parameter of ``sm`` the scope"""
    out = []
    for p in rate_names(sm):
        if scope == "const":
            out.append({"par_name": p, "is_constant": True, "value": const_value})
        elif scope == "ab":
            out.append({"par_name": p, "edges": ["a", "b"], "is_independent": False})
        elif scope == "ab_ind":
            out.append({"par_name": p, "edges": ["a", "b"], "is_independent": True})
        elif scope == "each":
            out.append({"par_name": p, "is_independent": True})
    return out


def length_rules(scope):
    return {"eq": [{"par_name": "length", "is_independent": False}],
            "clock_ab": [{"par_name": "length", "edges": ["a", "b"], "is_independent": False}],
            "const_a": [{"par_name": "length", "edge": "a", "is_constant": True, "value": 0.1}],
            "free": []}[scope]


def seqs_for(aln, tree):
    return {n: ALNS[aln][n] for n in TIPS[tree]}


def random_alignment(rnd, tips, length):
    """a root sequence mutated independently per tip (transition-biased), a few ambiguity/gap symbols"""
    root = [rnd.choice("ACGT") for _ in range(length)]
    ts = {"A": "G", "G": "A", "C": "T", "T": "C"}
    out = {}
    for t in tips:
        s = []
        for ch in root:
            u = rnd.random()
            if u < 0.18:
                ch = ts[ch]
            elif u < 0.28:
                ch = rnd.choice("ACGT")
            elif u < 0.30:
                ch = rnd.choice("RYN-")
            s.append(ch)
        out[t] = "".join(s)
    return out


# ------------------------------------------------------------------------------------------------ real objects
def build_lf(spec, newick, seqs):
    from cogent3 import get_model, make_aligned_seqs, make_tree
    if spec["sm"] == "GS":       # the one supplied model whose calculation can refuse a point inside the declared bounds
        from cogent3.core.moltype import DNA
        from cogent3.evolve.ns_substitution_model import GeneralStationary
        sm = GeneralStationary(DNA.alphabet, optimise_motif_probs=bool(spec.get("omp", False)))
    else:
        sm = get_model(spec["sm"], optimise_motif_probs=bool(spec.get("omp", False)))
    lf = sm.make_likelihood_function(make_tree(newick))
    aln = make_aligned_seqs(dict(seqs), moltype="dna")
    lf.set_alignment(aln)
    lf._aln_for_c16 = aln            # (kept for starts that fit another model to the same data first)
    for r in spec.get("rules", []):
        lf.set_param_rule(**r)
    return lf


def edges_of(lf):
    return [n for n in lf.tree.get_node_names() if n != "root"]


def table_of(lf):
    return X.rule_table(lf.get_param_rules(), edges_of(lf))


def set_random_state(lf, seed, omp_free):
    """give every free scalar parameter a value drawn from a small table (inside its bounds), in rule order"""
    rnd = random.Random(seed)
    for r in lf.get_param_rules():
        if r["par_name"] == "mprobs" or r.get("is_constant"):
            continue
        table = (0.02, 0.1, 0.4, 1.2) if r["par_name"] == "length" else (0.3, 0.8, 1.0, 2.5, 6.0)
        rr = dict(r)
        rr["init"] = rnd.choice(table)
        lf.set_param_rule(**rr)
    if omp_free:
        w = [rnd.choice((1, 2, 3, 4)) for _ in range(4)]
        lf.set_motif_probs({m: x / sum(w) for m, x in zip("TCAG", w)})


def apply_state(lf, state, omp_free):
    kind = state["kind"]
    if kind == "opt":
        if state["evals"]:
            kw = {"seed": state["seed"]} if state.get("local", True) is not True else {}
            lf.optimise(show_progress=False, local=state.get("local", True), max_evaluations=state["evals"],
                        limit_action="ignore", **kw)
    elif kind == "values":
        set_random_state(lf, state["seed"], omp_free)
    elif kind == "rules":
        for r in state["rules"]:
            lf.set_param_rule(**r)
    elif kind == "gs_from_hky":
        from cogent3 import get_model
        null = get_model("HKY85").make_likelihood_function(lf.tree)
        null.set_alignment(lf._aln_for_c16)
        null.optimise(local=True, max_restarts=2, show_progress=False, max_evaluations=300, limit_action="ignore")
        lf.initialise_from_nested(null)
    elif kind == "on_bound":
        if state.get("prefit"):        # sensible branch lengths first, the rate parameters held at the bound
            for r in state["rules"]:
                lf.set_param_rule(par_name=r["par_name"], is_constant=True, value=r["init"])
            lf.optimise(show_progress=False, local=True, max_evaluations=200, limit_action="ignore")
        for r in state["rules"]:
            lf.set_param_rule(**r)
    else:
        raise ValueError(kind)


def cond_tol(*tables):
    """1e-9, widened when the smallest off-diagonal of some P(t) (~ shortest positive length x smallest rate
    multiplier below one) drops under 1e-5; capped at 1e-5"""
    lens = [v[0] for t in tables for k, v in t.items() if k[0] == "length" and v[0] > 0]
    rates = [v[0] for t in tables for k, v in t.items() if k[0] not in ("length", "mprobs") and 0 < v[0] < 1]
    scale = (min(lens) if lens else 1.0) * (min(rates) if rates else 1.0)
    return min(1e-5, LNL_TOL * max(1.0, 1e-5 / scale))


def oracle_tol(tol):
    """the oracle uses scipy's Pade expm, cogent3 an eigendecomposition: the two agree to ~1e-14 on ordinary points
    and to ~1e-8 on ill-conditioned ones; a stale or mis-attributed lnL is off by far more than this"""
    return max(1e-6, 1000 * tol)


def oracle(spec, lf, seqs):
    """lnL denoted by the lf's reported parameters; None for families outside the oracle table or scopes the
    plain rule reading does not cover"""
    if X.MODELS.get(spec["sm"], ("",))[0] != "nuc":
        return None
    return X.lnl_from_rules(spec["sm"], lf.tree.get_newick(with_node_names=True), seqs, lf.get_param_rules())


def _short(case, n=700):
    s = repr(case)
    return s if len(s) <= n else s[:n] + "..."


# ------------------------------------------------------------------------------------------------ init_nested
NON_STATIONARY = {"GN", "ssGN"}


_cells = X.param_cells


def unmapped_params(null_sm, alt_sm):
    """parameters of the richer model that no parameter of the nested model covers: they multiply cells that
    belong to the nested model's reference class, so the nested model is the richer one with these equal to 1"""
    if X.MODELS[alt_sm][0] != "nuc":
        return [p for p in rate_names(alt_sm) if p not in rate_names(null_sm)]
    null_cells = [_cells(q) for q in rate_names(null_sm)]
    return [p for p in rate_names(alt_sm) if not any(_cells(p) <= c for c in null_cells)]


def _stationarity(null_sm, alt_sm):
    a, b = null_sm in NON_STATIONARY, alt_sm in NON_STATIONARY
    return "" if a == b else "stationary-null-in-nonstationary-alt"


def pair_kind(null, alt):
    matrix = null["sm"] != alt["sm"] or bool(null.get("omp")) != bool(alt.get("omp"))
    scope = (null.get("rules") or []) != (alt.get("rules") or [])
    kind = "+".join(k for k, on in (("matrix", matrix), ("scope", scope)) if on) or "same"
    unmapped = set(unmapped_params(null["sm"], alt["sm"]))
    flags = []
    if any(r["par_name"] in unmapped and (r.get("edges") or r.get("edge") or r.get("is_independent"))
           for r in alt.get("rules") or []):
        flags.append("edge-scoped-param-in-null-reference-class")
        if _stationarity(null["sm"], alt["sm"]):
            flags.append(_stationarity(null["sm"], alt["sm"]))
    return kind, flags


def preset_flags(null, alt, preset):
    if not preset:
        return []
    unmapped = set(unmapped_params(null["sm"], alt["sm"]))
    if any(r["par_name"] in unmapped for r in preset):
        return ["alt-preset-on-param-in-null-reference-class"]
    return ["alt-preset-on-mapped-param"]


def gen_init(tier, seed):
    rnd = random.Random(seed)
    thorough = tier == "thorough"
    trees = ["t4r", "t4u", "t3"] + (["t5"] if thorough else [])
    alns = ["amb", "clean"] + (["gap"] if thorough else [])
    states = [{"kind": "opt", "evals": 25}, {"kind": "values", "seed": 1}]
    if thorough:
        states += [{"kind": "opt", "evals": 150}, {"kind": "opt", "evals": 0}, {"kind": "values", "seed": 2},
                   {"kind": "values", "seed": 3}, {"kind": "opt", "evals": 60, "local": None, "seed": 5}]

    def case(null, alt, tree, aln, state, preset=None, post=None):
        return {"null": null, "alt": alt, "tree": TREES[tree], "seqs": seqs_for(aln, tree) if isinstance(aln, str) else aln,
                "null_state": state, "alt_preset": preset or [], "post_opt": post or {"evals": 5, "local": True}}

    # (1) nesting by rate-matrix structure, every pair of the closure x frequency treatment
    for n, a in NESTED:
        for nomp, aomp in ((False, False), (False, True), (True, True)):
            if nomp and n in EQUAL_PI:
                continue
            if aomp and a in EQUAL_PI:
                continue
            for i, (tree, aln, state) in enumerate(itertools.product(trees, alns, states)):
                if (i + NUC.index(n) + NUC.index(a)) % 3:      # a third of the (tier-dependent) grid, offset by the pair
                    continue
                post = {"evals": (1, 5, 40)[i % 3], "local": (True, None)[i % 2], "seed": 3}
                yield case({"sm": n, "omp": nomp, "rules": []}, {"sm": a, "omp": aomp, "rules": []}, tree, aln, state,
                           post=post)
    # (2) nesting by parameter scoping, same family
    for sm in ("HKY85", "GTR", "GN", "TN93", "K80"):
        for i, j in itertools.combinations(range(len(SCOPES)), 2):
            for k, (tree, aln, state) in enumerate(itertools.product(trees, alns, states)):
                if not thorough and (sm not in ("HKY85", "GTR") or k % 4 != (i + j) % 4):
                    continue
                if thorough and k % (2 if sm in ("HKY85", "GTR") else 4) != (i + j) % 2:
                    continue
                cv = 1.0 if (i + j + k) % 2 else 2.0
                yield case({"sm": sm, "omp": False, "rules": scope_rules(sm, SCOPES[i], cv)},
                           {"sm": sm, "omp": bool(k % 2) and sm not in EQUAL_PI, "rules": scope_rules(sm, SCOPES[j])},
                           tree, aln, state)
    for sm in ("F81", "HKY85", "GN"):
        for ln, la in LEN_NESTED:
            for k, (tree, aln, state) in enumerate(itertools.product(trees, alns, states)):
                if k % (2 if thorough else 3):
                    continue
                yield case({"sm": sm, "omp": False, "rules": length_rules(ln)},
                           {"sm": sm, "omp": False, "rules": length_rules(la)}, tree, aln, state)
    # (3) richer matrix AND wider scope at once
    for n, a in NESTED:
        if not rate_names(a) or (not thorough and (n, a) not in (("F81", "HKY85"), ("HKY85", "GTR"), ("JC69", "K80"),
                                                                 ("HKY85", "GN"), ("GTR", "GN"), ("K80", "GTR"))):
            continue
        for nscope, ascope in (("shared", "each"), ("shared", "ab"), ("ab", "ab"), ("ab", "each"), ("const", "ab_ind")):
            if nscope != "shared" and not rate_names(n):
                continue
            for k, (tree, aln) in enumerate(itertools.product(trees[:2], alns[:2])):
                if not thorough and k not in (0, 3):
                    continue
                yield case({"sm": n, "omp": False, "rules": scope_rules(n, nscope, 2.0)},
                           {"sm": a, "omp": False, "rules": scope_rules(a, ascope)}, tree, aln, states[k % 2])
    # (4) the richer model was given starting values before the initialisation
    presets = [("HKY85", "GTR", [{"par_name": "A/C", "init": 2.0}]),
               ("F81", "HKY85", [{"par_name": "kappa", "init": 3.0}]),
               ("GTR", "GN", [{"par_name": "T>A", "init": 0.5}]),
               ("JC69", "K80", [{"par_name": "kappa", "init": 4.0}]),
               ("HKY85", "GTR", [{"par_name": "length", "init": 1.0}]),          # shared parameter: must be overwritten
               ("HKY85", "TN93", [{"par_name": "length", "edge": "a", "init": 2.0}])]
    for n, a, preset in presets:
        for k, (tree, aln) in enumerate(itertools.product(trees[:2], alns[:2])):
            if not thorough and k not in (0, 3):
                continue
            yield case({"sm": n, "omp": False, "rules": []}, {"sm": a, "omp": False, "rules": []}, tree, aln,
                       states[k % 2], preset=preset)
    yield case({"sm": "HKY85", "omp": False, "rules": scope_rules("HKY85", "const", 2.0)},
               {"sm": "HKY85", "omp": False, "rules": []}, "t4r", "amb", states[0], preset=[{"par_name": "kappa", "init": 5.0}])
    # (5) codon families (slow to build: few cases)
    codon = [({"sm": n, "rules": []}, {"sm": a, "rules": []}) for n, a in CODON_NESTED]
    codon += [({"sm": "CNFGTR", "rules": [{"par_name": "omega", "is_constant": True, "value": 1.0}]}, {"sm": "CNFGTR", "rules": []}),
              ({"sm": "MG94HKY", "rules": []}, {"sm": "MG94HKY", "rules": [{"par_name": "omega", "is_independent": True}]}),
              ({"sm": "MG94HKY", "rules": []}, {"sm": "MG94GTR", "rules": [{"par_name": "omega", "is_independent": True}]}),
              ({"sm": "Y98", "rules": []}, {"sm": "Y98", "rules": [{"par_name": "omega", "edges": ["a"], "is_independent": True}]})]
    for null, alt in codon[:None if thorough else 4]:
        yield {"null": null, "alt": alt, "tree": TREES["t3"], "seqs": CODON_ALN, "null_state": {"kind": "opt", "evals": 12},
               "alt_preset": [], "post_opt": {"evals": 3, "local": True}}
    # (6) thorough: seeded sample beyond the grid -- random alignments, random null values, 5 tips
    if thorough:
        for k in range(600):
            n, a = rnd.choice(NESTED)
            tree = rnd.choice(list(TREES))
            aln = random_alignment(rnd, TIPS[tree], rnd.choice((12, 30, 60)))
            aomp = a not in EQUAL_PI and rnd.random() < 0.5
            nomp = aomp and n not in EQUAL_PI and rnd.random() < 0.5
            ns = rnd.choice(SCOPES[:3]) if rate_names(n) else "shared"
            as_ = rnd.choice(SCOPES[max(1, SCOPES.index(ns)):])      # a constant in the alt would not contain the null
            state = rnd.choice([{"kind": "values", "seed": rnd.randrange(10 ** 6)}, {"kind": "opt", "evals": rnd.choice((10, 40, 120))}])
            yield case({"sm": n, "omp": nomp, "rules": scope_rules(n, ns, rnd.choice((0.5, 1.0, 3.0)))},
                       {"sm": a, "omp": aomp, "rules": scope_rules(a, as_)}, tree, aln, state,
                       post={"evals": rnd.choice((1, 7, 30)), "local": rnd.choice((True, None)), "seed": k})


def contract_init(case):
    null_spec, alt_spec = case["null"], case["alt"]
    seqs = case["seqs"]
    kind, flags = pair_kind(null_spec, alt_spec)
    flags = flags + preset_flags(null_spec, alt_spec, case["alt_preset"])
    tag = "/".join([kind] + flags)
    with warnings.catch_warnings():
        warnings.simplefilter("ignore")
        null = build_lf(null_spec, case["tree"], seqs)
        try:
            apply_state(null, case["null_state"], bool(null_spec.get("omp")) and null_spec["sm"] not in EQUAL_PI)
        except Exception as e:      # noqa: BLE001 - fitting the nested model is an optimise() call on a legal start
            return ("fail", f"init/fit-of-nested-model-raises-{type(e).__name__}", f"{_short(case)}: {type(e).__name__}: {str(e)[:200]}")
        alt = build_lf(alt_spec, case["tree"], seqs)
        for r in case["alt_preset"]:
            alt.set_param_rule(**r)
        null_lnl = float(null.lnL)
        if not math.isfinite(null_lnl):
            return ("skip",)
        if not alt.get_num_free_params() > null.get_num_free_params():
            return ("skip",)                      # the method's own precondition
        null_table = table_of(null)
        alt_before = table_of(alt)
        alt_nfp = alt.get_num_free_params()
        alt_lnl_before = float(alt.lnL)
        # genuinely nested includes the declared bounds: the null's fitted point must be representable by the richer
        # model with every parameter inside its bounds (same-named parameters directly, rate parameters through
        # the published rate-matrix definitions)
        for (name, edge), (v, lo, hi, const) in null_table.items():
            a = alt_before.get((name, edge))
            if a is not None and not a[3] and a[1] is not None and a[2] is not None and not (a[1] <= v <= a[2]):
                return ("skip",)
        alt_bounds = {k: (v[1], v[2]) for k, v in alt_before.items() if not v[3] and k[0] not in ("mprobs", "length")}
        if X.outside_bounds(X.projected_values(null_spec["sm"], alt_spec["sm"], null.get_param_rules(), edges_of(null)), alt_bounds):
            return ("skip",)
        expected = oracle(null_spec, null, seqs)
        tol = cond_tol(null_table)
        if expected is not None and abs(expected - null_lnl) > oracle_tol(tol):
            return ("fail", "init/null-lnL-is-not-the-likelihood-of-its-reported-parameters",
                    f"{_short(case)}: null.lnL={null_lnl!r}, oracle on null.get_param_rules() gives {expected!r}")
        try:
            alt.initialise_from_nested(null)
        except Exception as e:      # noqa: BLE001 - any exception is a failure to initialise a genuinely nested pair
            return ("fail", f"init/raises-{type(e).__name__}/{tag}",
                    f"{_short(case)}: initialise_from_nested raised {type(e).__name__}: {str(e)[:200]}")
        got = float(alt.lnL)
        if float(null.lnL) != null_lnl or table_of(null) != null_table:
            return ("fail", f"init/nested-model-modified/{tag}",
                    f"{_short(case)}: null.lnL {null_lnl!r} -> {float(null.lnL)!r} after initialising the richer model from it")
        if not abs(got - null_lnl) <= tol:
            return ("fail", f"init/lnL-differs-from-nested/{tag}",
                    f"{_short(case)}: alt.lnL={got!r} after initialise_from_nested, null.lnL={null_lnl!r}, "
                    f"difference {got - null_lnl:.3e} (alt.lnL before the call {alt_lnl_before!r})")
        if expected is not None and abs(got - expected) > oracle_tol(tol):
            return ("fail", f"init/lnL-differs-from-oracle/{tag}",
                    f"{_short(case)}: alt.lnL={got!r}, oracle on the null's parameters {expected!r}")
        if alt.get_num_free_params() != alt_nfp:
            return ("fail", f"init/free-parameter-count-changed/{tag}",
                    f"{_short(case)}: alt nfp {alt_nfp} -> {alt.get_num_free_params()} (null nfp {null.get_num_free_params()})")
        alt_table = table_of(alt)
        bad = X.bounds_violations(alt_table, BOUND_SLACK)
        if bad:
            return ("fail", f"init/value-outside-bounds/{bad[0][0][0]}/{tag}", f"{_short(case)}: {bad[:3]}")
        own = oracle(alt_spec, alt, seqs)
        if own is not None and abs(own - got) > oracle_tol(cond_tol(alt_table)):
            return ("fail", f"init/alt-lnL-is-not-the-likelihood-of-its-reported-parameters/{tag}",
                    f"{_short(case)}: alt.lnL={got!r}, oracle on alt.get_param_rules() gives {own!r}")
        post = case["post_opt"]
        if post and post["evals"]:
            kw = {} if post.get("local", True) is True else {"seed": post.get("seed", 1)}
            try:
                alt.optimise(show_progress=False, local=post.get("local", True), max_evaluations=post["evals"],
                             limit_action="ignore", **kw)
            except Exception as e:      # noqa: BLE001
                return ("fail", f"init/optimise-after-init-raises-{type(e).__name__}/{tag}",
                        f"{_short(case)}: {type(e).__name__}: {str(e)[:200]}")
            after = float(alt.lnL)
            t2 = max(tol, cond_tol(table_of(alt)))
            if not after >= null_lnl - t2:
                return ("fail", f"init/LR-negative-after-optimise/{tag}",
                        f"{_short(case)}: alt.lnL={after!r} after optimise({post}), null.lnL={null_lnl!r}")
    return ("ok", abs(alt_lnl_before - null_lnl) > 1e-6)


# ------------------------------------------------------------------------------------------------ optimise
def start_rules(sm, kind):
    names = rate_names(sm)
    if kind == "default":
        return []
    if kind == "len0_a":
        return [{"par_name": "length", "edge": "a", "init": 0.0}]
    if kind == "len_upper":
        return [{"par_name": "length", "init": 10.0}]
    if kind == "len_tiny":
        return [{"par_name": "length", "init": 1e-9}]
    if kind == "len_mixed":
        return [{"par_name": "length", "init": 1.5}, {"par_name": "length", "edge": "b", "init": 1e-4}]
    if kind == "rates_lower":
        return [{"par_name": p, "init": 1e-6} for p in names]
    if kind == "rates_upper":
        return [{"par_name": p, "init": 1e6} for p in names]
    if kind == "tight":
        return [{"par_name": p, "init": 2.0, "lower": 1.9, "upper": 2.1} for p in names[:1]] + \
               [{"par_name": "length", "edge": "a", "init": 0.2, "lower": 0.15, "upper": 0.25}]
    if kind == "narrow_at_edge":
        return [{"par_name": p, "init": 0.5, "lower": 0.5, "upper": 3.0} for p in names[:1]] + \
               [{"par_name": "length", "edge": "b", "init": 0.3, "lower": 0.01, "upper": 0.3}]
    raise ValueError(kind)


START_KINDS = ["default", "len0_a", "len_upper", "len_tiny", "len_mixed", "rates_lower", "rates_upper", "tight",
               "narrow_at_edge"]


def opt_settings(thorough):
    out = []
    for ev in (1, 2, 5, 50):
        out.append({"local": True, "max_evaluations": ev})
        out.append({"local": None, "max_evaluations": ev, "seed": 1})
        out.append({"local": False, "max_evaluations": ev, "seed": 2})
    out += [{"local": True, "max_evaluations": None, "tolerance": 1e-6},
            {"local": True, "max_evaluations": None, "tolerance": 1e-2, "max_restarts": 2},
            {"local": True, "max_evaluations": 400, "tolerance": 1e-8, "max_restarts": 3},
            {"local": None, "max_evaluations": 400, "seed": 3, "global_tolerance": 0.5},
            {"local": False, "max_evaluations": 400, "seed": 4, "tolerance": 1e-3},
            {"local": True, "max_evaluations": 5, "limit_action": "raise"},
            {"local": True, "max_evaluations": 5, "limit_action": "warn"},
            {"local": None, "max_evaluations": 30, "seed": 5, "limit_action": "raise"},
            {"local": True, "max_evaluations": 0}]
    if thorough:
        out += [{"local": None, "max_evaluations": 2000, "seed": 7},
                {"local": False, "max_evaluations": 1500, "seed": 8, "tolerance": 1e-2},
                {"local": True, "max_evaluations": 17, "tolerance": 1e-10},
                {"local": None, "max_evaluations": 120, "seed": 9, "temp_reduction": 0.8, "init_temp": 1.0}]
    return out


def gen_optimise(tier, seed):
    rnd = random.Random(seed + 1)
    thorough = tier == "thorough"
    settings = opt_settings(thorough)
    models = [("HKY85", False), ("HKY85", True), ("F81", True), ("GTR", False), ("GN", False), ("K80", False),
              ("TN93", True), ("ssGN", True), ("JC69", False)]
    trees = ["t4r", "t3"] + (["t5"] if thorough else [])
    alns = ["amb", "clean"] + (["gap"] if thorough else [])
    n = 0
    for (sm, omp), tree, aln in itertools.product(models, trees, alns):
        for sk in START_KINDS:
            rules = start_rules(sm, sk)
            if sk != "default" and not rules:
                continue
            if sk.startswith("rates") or sk in ("tight", "narrow_at_edge"):
                if not rate_names(sm):
                    continue
            for si, opt in enumerate(settings):
                n += 1
                core = sm == "HKY85" and not omp and tree == "t4r" and aln == "amb"
                if (n % (3 if thorough else 8)) and not core:
                    continue
                yield {"model": {"sm": sm, "omp": omp, "rules": []}, "tree": TREES[tree], "seqs": seqs_for(aln, tree),
                       "start": {"kind": "rules", "rules": rules, "name": sk}, "opt": opt}
    # scoped models and starts that are themselves the result of an earlier (partial) fit
    scoped = [("HKY85", "each"), ("HKY85", "ab"), ("GTR", "ab"), ("HKY85", "const"), ("GN", "ab_ind")]
    for (sm, scope), tree in itertools.product(scoped, trees[:2]):
        for k, opt in enumerate(settings):
            if not thorough and k % 2:
                continue
            start = [{"kind": "opt", "evals": 30, "name": "prefit30"}, {"kind": "values", "seed": k, "name": "random"},
                     {"kind": "opt", "evals": 40, "local": None, "seed": 11, "name": "prefit-global40"}][k % 3]
            yield {"model": {"sm": sm, "omp": bool(k % 2), "rules": scope_rules(sm, scope, 2.0) + length_rules(("free", "eq", "clock_ab")[k % 3])},
                   "tree": TREES[tree], "seqs": seqs_for("amb", tree), "start": start, "opt": opt}
    # starts exactly ON a declared bound, with data that push the parameter outward (the situation of an alternative
    # hypothesis initialised from a null in which the parameter was a constant equal to the alternative's bound); bounds
    # 3, 10, 30, 100 are those where exp(log(bound)) exceeds the bound by an ulp
    for sm, u in itertools.product(("HKY85", "K80", "TN93", "GTR"), (3.0, 10.0, 30.0, 100.0, 50.0)):
        if not thorough and (sm, u) not in (("HKY85", 10.0), ("HKY85", 100.0), ("K80", 3.0), ("TN93", 30.0), ("GTR", 10.0), ("HKY85", 50.0)):
            continue
        rules = [{"par_name": p, "init": u, "lower": 1e-6, "upper": u} for p in rate_names(sm)]
        for opt in ({"local": True, "max_evaluations": None, "tolerance": 1e-6, "max_restarts": 2},
                    {"local": True, "max_evaluations": 50}, {"local": None, "max_evaluations": 400, "seed": 3}):
            for prefit in (False, True):
                yield {"model": {"sm": sm, "omp": False, "rules": []}, "tree": TREES["t3"], "seqs": TS_ONLY,
                       "start": {"kind": "on_bound", "rules": rules, "prefit": prefit, "name": f"on_upper_{u:g}" + ("_prefit" if prefit else "")},
                       "opt": opt}
    # GeneralStationary: evaluations can be refused (ParameterOutOfBoundsError inside the calculation) and are retried by
    # the local optimiser; started from the default point and from the point of a fitted HKY85 (kappa on the transitions)
    for tree, aln in (("t4r", "clean"), ("t3", "amb"), ("t4u", "gs")):
        for start in ({"kind": "rules", "rules": [], "name": "default"}, {"kind": "gs_from_hky", "name": "from-fitted-HKY85"}):
            for opt in ({"local": True, "max_evaluations": 200}, {"local": True, "max_evaluations": 400},
                        {"local": True, "max_evaluations": 700}, {"local": True, "max_evaluations": None, "tolerance": 1e-6},
                        {"local": None, "max_evaluations": 300, "seed": 3}):
                if not thorough and aln != "gs" and opt.get("max_evaluations") in (200, 700):
                    continue
                yield {"model": {"sm": "GS", "omp": False, "rules": []}, "tree": TREES[tree],
                       "seqs": GS_ALN if aln == "gs" else seqs_for(aln, tree), "start": start, "opt": opt}
    # codon family (few)
    for k, opt in enumerate([{"local": True, "max_evaluations": 1}, {"local": True, "max_evaluations": 12},
                             {"local": None, "max_evaluations": 12, "seed": 1}, {"local": False, "max_evaluations": 8, "seed": 2}]):
        yield {"model": {"sm": ("MG94HKY", "CNFGTR")[k % 2], "rules": []}, "tree": TREES["t3"], "seqs": CODON_ALN,
               "start": {"kind": "rules", "rules": [], "name": "default"}, "opt": opt}
    if thorough:
        for k in range(1200):
            sm, omp = rnd.choice(models)
            tree = rnd.choice(list(TREES))
            scope = rnd.choice(SCOPES) if rate_names(sm) else "shared"
            opt = dict(rnd.choice(settings))
            if "seed" in opt:
                opt["seed"] = rnd.randrange(10 ** 6)
            if opt.get("max_evaluations"):
                opt["max_evaluations"] = rnd.choice((1, 2, 3, 4, 6, 9, 13, 25, 80, 250))
            yield {"model": {"sm": sm, "omp": omp, "rules": scope_rules(sm, scope, rnd.choice((0.5, 2.0))) + length_rules(rnd.choice(("free", "free", "eq", "clock_ab", "const_a")))},
                   "tree": TREES[tree], "seqs": random_alignment(rnd, TIPS[tree], rnd.choice((10, 30, 80))),
                   "start": {"kind": "values", "seed": rnd.randrange(10 ** 6), "name": "random"}, "opt": opt}


def _mode(opt):
    return {True: "local", None: "global+local", False: "global"}[opt.get("local", True)]


def _limit(opt):
    ev = opt.get("max_evaluations")
    if ev is None:
        return "no-limit"
    return "evals=0" if ev == 0 else "evals=1" if ev == 1 else "evals<=5" if ev <= 5 else "evals<=50" if ev <= 50 else "evals>50"


def contract_optimise(case):
    spec, seqs, opt = case["model"], case["seqs"], dict(case["opt"])
    limit_action = opt.pop("limit_action", "ignore")
    where = f"{_mode(opt)}/{_limit(opt)}"       # the start kind is in the message, not in the key
    if opt.get("local", True) is True:
        opt.pop("seed", None)
    with warnings.catch_warnings():
        warnings.simplefilter("ignore")
        lf = build_lf(spec, case["tree"], seqs)
        try:
            apply_state(lf, case["start"], bool(spec.get("omp")) and spec["sm"] not in EQUAL_PI)
        except Exception as e:      # noqa: BLE001 - a start of kind "opt" is itself an optimise() call from the default start
            return ("fail", f"optimise/raises-{type(e).__name__}/while-preparing-the-start", f"{_short(case)}: {type(e).__name__}: {str(e)[:200]}")
        before = float(lf.lnL)
        if not math.isfinite(before):
            return ("skip",)                  # the optimiser documents a finite start as its precondition
        t_before = table_of(lf)
        if X.bounds_violations(t_before, 0.0):
            return ("skip",)                  # start outside the declared bounds: not a legal start
        nfp = lf.get_num_free_params()
        raised = None
        try:
            lf.optimise(show_progress=False, limit_action=limit_action, **opt)
        except ArithmeticError as e:
            if limit_action == "raise" and opt.get("max_evaluations") is not None and "FORCED EXIT" in str(e):
                raised = e                    # the documented way to report that the limit was reached
            else:
                return ("fail", f"optimise/raises-{type(e).__name__}/{where}", f"{_short(case)}: {type(e).__name__}: {str(e)[:200]}")
        except Exception as e:      # noqa: BLE001
            return ("fail", f"optimise/raises-{type(e).__name__}/{where}", f"{_short(case)}: {type(e).__name__}: {str(e)[:200]}")
        after = float(lf.lnL)
        t_after = table_of(lf)
        tol = cond_tol(t_before, t_after)
        suffix = "/state-after-limit-exception" if raised is not None else ""
        if not after >= before - tol:
            return ("fail", f"optimise/lnL-decreased/{where}{suffix}",
                    f"{_short(case)}: lnL before {before!r}, after {after!r} (difference {after - before:.3e}, tolerance {tol:.1e})")
        bad = X.bounds_violations(t_after, BOUND_SLACK)
        if bad:
            return ("fail", f"optimise/value-outside-bounds/{bad[0][0][0]}/{where}{suffix}", f"{_short(case)}: {bad[:3]}")
        if set(t_after) != set(t_before):
            return ("fail", f"optimise/parameter-set-changed/{where}", f"{_short(case)}: {sorted(set(t_after) ^ set(t_before))[:6]}")
        for key, (v, lo, hi, const) in t_before.items():
            v2, lo2, hi2, const2 = t_after[key]
            if const != const2 or (const and v != v2):
                return ("fail", f"optimise/constant-changed/{key[0]}/{where}", f"{_short(case)}: {key}: {(v, const)} -> {(v2, const2)}")
            if (lo, hi) != (lo2, hi2):
                return ("fail", f"optimise/bounds-changed/{key[0]}/{where}", f"{_short(case)}: {key}: {(lo, hi)} -> {(lo2, hi2)}")
        mp = [v[0] for k, v in t_after.items() if k[0] == "mprobs"]
        if mp and (abs(sum(mp) - 1.0) > 1e-9 or min(mp) < 0.0):
            return ("fail", f"optimise/motif-probs-not-a-distribution/{where}", f"{_short(case)}: {mp}")
        if lf.get_num_free_params() != nfp:
            return ("fail", f"optimise/free-parameter-count-changed/{where}", f"{_short(case)}: {nfp} -> {lf.get_num_free_params()}")
        own = oracle(spec, lf, seqs)
        if own is not None and abs(own - after) > oracle_tol(tol):
            return ("fail", f"optimise/lnL-is-not-the-likelihood-of-the-reported-parameters/{where}",
                    f"{_short(case)}: lf.lnL={after!r}, oracle on lf.get_param_rules() gives {own!r}")
    return ("ok", after > before + 1e-9 or (opt.get("max_evaluations") or 99) <= 2)


# ------------------------------------------------------------------------------------------------ hypothesis app
def make_app(spec, tree, name, opt_args):
    from cogent3 import get_app
    kw = {}
    for k in ("time_het", "param_rules", "lower", "upper"):
        if spec.get(k) is not None:
            kw[k] = copy.deepcopy(spec[k])
    return get_app("model", spec["sm"], tree=tree, name=name, optimise_motif_probs=bool(spec.get("omp", False)),
                   opt_args=dict(opt_args), show_progress=False, **kw)


def app_kind(null, alt):
    matrix = null["sm"] != alt["sm"] or bool(null.get("omp")) != bool(alt.get("omp"))
    scope = (null.get("time_het"), null.get("param_rules")) != (alt.get("time_het"), alt.get("param_rules"))
    kind = "+".join(k for k, on in (("matrix", matrix), ("scope", scope)) if on) or "same"
    flags = []
    if alt.get("time_het") and unmapped_params(null["sm"], alt["sm"]):      # time_het scopes every rate parameter
        flags.append("edge-scoped-param-in-null-reference-class")
        if _stationarity(null["sm"], alt["sm"]):
            flags.append(_stationarity(null["sm"], alt["sm"]))
    return "/".join([kind] + flags)


def gen_hypothesis(tier, seed):
    rnd = random.Random(seed + 2)
    thorough = tier == "thorough"
    ab = [{"edges": ["a", "b"], "is_independent": False}]
    ab_ind = [{"edges": ["a", "b"], "is_independent": True}]
    chains = []
    for n, a in NESTED:
        for nomp, aomp in ((False, False), (False, True), (True, True)):
            if (nomp and n in EQUAL_PI) or (aomp and a in EQUAL_PI):
                continue
            if n in EQUAL_PI and a not in EQUAL_PI and not aomp:
                continue        # equal frequencies are not inside a model whose frequencies are fixed elsewhere
            chains.append([{"sm": n, "omp": nomp}, {"sm": a, "omp": aomp}])
    chains += [
        [{"sm": "F81"}, {"sm": "HKY85"}, {"sm": "GTR"}, {"sm": "GN"}],
        [{"sm": "JC69"}, {"sm": "K80"}, {"sm": "HKY85", "omp": True}, {"sm": "GTR", "omp": True}],
        [{"sm": "HKY85"}, {"sm": "HKY85", "time_het": "max"}],
        [{"sm": "HKY85"}, {"sm": "HKY85", "time_het": ab}],
        [{"sm": "HKY85"}, {"sm": "HKY85", "time_het": ab}, {"sm": "HKY85", "time_het": ab_ind}, {"sm": "HKY85", "time_het": "max"}],
        [{"sm": "GTR"}, {"sm": "GTR", "time_het": "max"}],
        [{"sm": "GN"}, {"sm": "GN", "time_het": ab}],
        [{"sm": "HKY85", "param_rules": [{"par_name": "kappa", "is_constant": True, "value": 1.0}]}, {"sm": "HKY85"}],
        [{"sm": "HKY85", "param_rules": [{"par_name": "kappa", "is_constant": True, "value": 1.0}]}, {"sm": "HKY85", "time_het": "max"}],
        [{"sm": "HKY85", "param_rules": [{"par_name": "length", "is_independent": False}]}, {"sm": "HKY85"}],
        [{"sm": "F81"}, {"sm": "HKY85", "time_het": "max"}],
        [{"sm": "F81"}, {"sm": "HKY85", "time_het": ab}],
        [{"sm": "HKY85"}, {"sm": "GTR", "time_het": "max"}],
        [{"sm": "HKY85"}, {"sm": "GN", "time_het": "max"}],
        [{"sm": "JC69"}, {"sm": "K80", "time_het": ab}],
        [{"sm": "HKY85", "lower": 1e-3, "upper": 20}, {"sm": "GTR", "lower": 1e-3, "upper": 20}],
    ]
    opts = [{"max_evaluations": 1}, {"max_evaluations": 5}, {"max_evaluations": 50},
            {"max_evaluations": 25, "local": None, "seed": 1}]
    if thorough:
        opts += [{"max_evaluations": 200}, {"max_evaluations": 12, "local": False, "seed": 2}, {"max_evaluations": 120, "local": None, "seed": 3},
                 {"max_evaluations": 600, "tolerance": 1e-4}]
    trees = ["t4r", "t3"] + (["t4u", "t5"] if thorough else [])
    alns = ["amb", "clean"] + (["gap"] if thorough else [])
    n = 0
    for chain, tree, aln, opt in itertools.product(chains, trees, alns, opts):
        n += 1
        if n % 2 and len(chain) == 2 and not any(m.get("time_het") for m in chain) and (not thorough or n % 4 == 1):
            continue
        yield {"models": chain, "tree": TREES[tree], "seqs": seqs_for(aln, tree), "opt_args": dict(opt, limit_action="ignore")}
    if thorough:
        for k in range(300):
            chain = rnd.choice(chains)
            tree = rnd.choice(list(TREES))
            opt = {"max_evaluations": rnd.choice((1, 2, 3, 8, 20, 70)), "limit_action": "ignore"}
            if rnd.random() < 0.3:
                opt.update(local=None, seed=rnd.randrange(1000))
            yield {"models": chain, "tree": TREES[tree], "seqs": random_alignment(rnd, TIPS[tree], rnd.choice((15, 40))), "opt_args": opt}


def contract_hypothesis(case):
    from cogent3 import get_app, make_aligned_seqs
    models = case["models"]
    with warnings.catch_warnings():
        warnings.simplefilter("ignore")
        apps = [make_app(m, case["tree"], f"m{i}", case["opt_args"]) for i, m in enumerate(models)]
        hyp = get_app("hypothesis", apps[0], *apps[1:])
        aln = make_aligned_seqs(dict(case["seqs"]), moltype="dna")
        aln.info.source = "c16"
        try:
            result = hyp(aln)
        except Exception as e:      # noqa: BLE001
            return ("fail", f"hypothesis/raises-{type(e).__name__}", f"{_short(case)}: {type(e).__name__}: {str(e)[:200]}")
        if not result:
            msg = getattr(result, "message", "")
            if "bounds error" in msg:
                return ("skip",)      # the app documents this refusal
            return ("fail", "hypothesis/not-completed", f"{_short(case)}: {msg[:300]}")
        lnls = [float(result[f"m{i}"].lnL) for i in range(len(models))]
        nfps = [int(result[f"m{i}"].nfp) for i in range(len(models))]
        for i in range(1, len(models)):
            if not nfps[i] > nfps[i - 1]:
                return ("skip",)      # not a strictly richer model: outside the method's precondition
        for i in range(1, len(models)):
            # nested includes the apps' bounds: the fitted point of m(i-1) must be representable by m(i) inside them
            lf0 = result[f"m{i - 1}"].lf
            proj = X.projected_values(models[i - 1]["sm"], models[i]["sm"], lf0.get_param_rules(), edges_of(lf0))
            lo, hi = models[i].get("lower", 1e-6), models[i].get("upper", 50)
            if X.outside_bounds(proj, {k: (lo, hi) for k in proj}):
                return ("skip",)
        for i in range(1, len(models)):
            tabs = [X.rule_table(result[f"m{j}"].lf.get_param_rules(), edges_of(result[f"m{j}"].lf)) for j in (i - 1, i)]
            t = max(LR_TOL / 2, cond_tol(*tabs))
            if not lnls[i] >= lnls[i - 1] - t:
                return ("fail", f"hypothesis/LR-negative/{app_kind(models[i - 1], models[i])}",
                        f"{_short(case)}: lnL(m{i - 1})={lnls[i - 1]!r} (nfp {nfps[i - 1]}), lnL(m{i})={lnls[i]!r} (nfp {nfps[i]}), "
                        f"2*difference = {2 * (lnls[i] - lnls[i - 1]):.6f}")
        lr, df, pvalue = float(result.LR), int(result.df), result.pvalue
        if not lr >= -LR_TOL:
            return ("fail", "hypothesis/LR-property-negative", f"{_short(case)}: LR={lr!r} lnLs={lnls}")
        if abs(lr - 2 * (max(lnls[1:]) - lnls[0])) > 1e-9:
            return ("fail", "hypothesis/LR-is-not-twice-the-lnL-difference", f"{_short(case)}: LR={lr!r} lnLs={lnls}")
        # a rounding-level negative LR (inside the tolerance) has no p-value by the documented convention
        if df <= 0 or (pvalue is None and lr >= 0) or (pvalue is not None and not (0.0 <= float(pvalue) <= 1.0)):
            return ("fail", "hypothesis/df-or-pvalue", f"{_short(case)}: LR={lr!r} df={df} pvalue={pvalue!r}")
        for i, m in enumerate(models):
            lf = result[f"m{i}"].lf
            bad = X.bounds_violations(X.rule_table(lf.get_param_rules(), edges_of(lf)), BOUND_SLACK)
            if bad:
                return ("fail", f"hypothesis/value-outside-bounds/{bad[0][0][0]}", f"{_short(case)}: model m{i}: {bad[:3]}")
            lo, hi = m.get("lower", 1e-6), m.get("upper", 50)
            for (name, edge), (v, l, h, const) in X.rule_table(lf.get_param_rules(), edges_of(lf)).items():
                if name != "mprobs" and not const and not (lo * (1 - BOUND_SLACK) <= v <= hi * (1 + BOUND_SLACK)):
                    return ("fail", f"hypothesis/value-outside-app-bounds/{name}", f"{_short(case)}: m{i} {name}[{edge}]={v!r} not in [{lo}, {hi}]")
    return ("ok", lr > 1e-9 or case["opt_args"]["max_evaluations"] <= 5)


BOUNDED = {
    "init_nested": {
        "gen": gen_init, "contract": contract_init,
        "functions": ["LikelihoodFunction.initialise_from_nested", "likelihood_function._ParamProjection",
                      "likelihood_function.update_scoped_rules", "ParameterController.apply_param_rules",
                      "ParameterController.optimise (after the initialisation)"],
        "bound": "all 23 pairs of the published nesting order on {JC69,K80,F81,HKY85,TN93,GTR,ssGN,GN} x frequency treatment "
                 "(fixed/fixed, fixed/free, free/free); rate scopes const<shared<{a,b}<{a},{b}<per-edge (all 10 pairs) on "
                 "HKY85/GTR (thorough +GN,TN93,K80); length scopes equal<clock(a,b)<free, const<free; richer matrix with wider "
                 "scope; alt preset with starting values; 4-6 codon pairs; trees of 3-4 tips (thorough 5), 2 alignments "
                 "(thorough 3 + random), null state = 25-evaluation fit or table-drawn values (thorough: 0/60/150 evaluations, "
                 "global fit, 3 value seeds; a third to a half of each grid, offset per pair); follow-up optimise of 1-40 "
                 "evaluations; thorough adds 600 seeded random cases",
        "rule": "a case = (null spec, alt spec, tree, alignment, null state, alt preset, follow-up optimiser); skipped when the "
                "method's precondition nfp(alt) > nfp(null) fails or the null's fitted point is not representable inside the "
                "alt's declared bounds (projection by the published rate-matrix definitions); non-trivial when the alt's lnL before the call differs from "
                "the null's; distinct by hash of the case",
    },
    "optimise": {
        "gen": gen_optimise, "contract": contract_optimise,
        "functions": ["ParameterController.optimise", "Calculator.optimise", "optimisers.maximise", "optimisers.limited_use",
                      "optimisers.bounded_function", "optimisers.bounds_exception_catching_function", "scipy_optimisers.Powell",
                      "simannealingoptimiser.SimulatedAnnealing", "ParameterController.update_from_calculator"],
        "bound": "9 model/frequency settings x 2 trees x 2 alignments (thorough 4 x 3) x 9 starts (default, a zero length, "
                 "lengths at the upper bound, lengths 1e-9, mixed, rates at either bound, tight bounds, start on a bound) x 21 "
                 "optimiser settings (local / global / global+local x max_evaluations 0,1,2,5,50,400,none x tolerances, "
                 "restarts, limit_action ignore/warn/raise); scoped models started from an earlier partial fit; 4 codon cases; "
                 "thorough adds 1200 seeded random (model, scope, alignment, start, setting) cases",
        "rule": "a case = (model spec, tree, alignment, start, optimiser keywords); skipped when the start has no finite lnL or "
                "lies outside its bounds; non-trivial when lnL strictly improved or the limit is <= 2 evaluations; distinct by "
                "hash of the case",
    },
    "hypothesis": {
        "gen": gen_hypothesis, "contract": contract_hypothesis,
        "functions": ["app.evo.hypothesis", "app.evo.model", "app.evo._InitFrom", "app.result.hypothesis_result.LR",
                      "app.result.hypothesis_result.df", "app.result.hypothesis_result.pvalue"],
        "bound": "every nested pair x frequency treatment as a two-model hypothesis, two four-model chains, 14 scoping "
                 "hypotheses (time_het max / edge set, constant vs free, equal lengths vs free, richer matrix with time_het, "
                 "custom app bounds) x 2 trees x 2 alignments (thorough 4 x 3) x max_evaluations 1,5,50 local and 25 "
                 "global+local (thorough +4 settings, +300 seeded random cases)",
        "rule": "a case = (chain of model app specs, tree, alignment, opt_args); skipped when the fitted models are not "
                "strictly increasing in nfp or a fitted point is not representable inside the next app's bounds; non-trivial when LR > 0 or the limit is <= 5; distinct by hash of the case",
    },
}
