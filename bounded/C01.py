"""Bounded run-time contracts for C01 (stand-in for the carriers outside the proof tier; never counted as
proved).  Contract text: str(op(x)) == op_spec(str(x)); every read-only method answers on a view as on a
sequence rebuilt from the view's string; parent coordinates name the displayed segment."""
from __future__ import annotations

import itertools
import random

import numpy

DNA_COMP = dict(zip("ACGTRYMKSWNBVDH-?", "TGCAYRKMSWNVBHD-?"))
RNA_COMP = dict(zip("ACGURYMKSWNBVDH-?", "UGCAYRKMSWNVBHD-?"))


def comp(s, mt):
    t = DNA_COMP if mt == "dna" else RNA_COMP
    return "".join(t[c] for c in s)


# ------------------------------------------------------------------------------------------------ spec
def spec_apply(s, mt, op):
    k = op[0]
    if k == "s":
        a, b, c = op[1:]
        r = s[a:b:c]
        if c is not None and c < 0 and mt in ("dna", "rna"):
            r = comp(r, mt)
        return r, mt
    if k == "i":
        return s[op[1]], mt
    if k == "rc":
        return comp(s[::-1], mt), mt
    if k == "rna":
        return s.replace("T", "U"), "rna"
    if k == "dna":
        return s.replace("U", "T"), "dna"
    if k == "cp":
        return s, mt
    raise ValueError(op)


def real_apply(x, op):
    k = op[0]
    if k == "s":
        return x[op[1]:op[2]:op[3]]
    if k == "i":
        return x[op[1]]
    if k == "rc":
        return x.rc()
    if k == "rna":
        return x.to_rna()
    if k == "dna":
        return x.to_dna()
    if k == "cp":
        return x.copy()
    raise ValueError(op)


def make(parent, mt, new, off=0, name="s1"):
    """new: False (old-style), True (new-style, make_seq), "coll" (new-style sequence handed out by a SequenceCollection:
    its view is a SeqDataView over the collection's storage, another class than the one make_seq builds)"""
    from cogent3 import make_seq, make_unaligned_seqs
    kw = {"annotation_offset": off} if off else {}
    if new == "coll":
        coll = make_unaligned_seqs({name: parent, "zz": "ACGTAC"[:max(1, len(parent))] if mt in ("dna", "text") else parent}, moltype=mt, new_type=True)
        return coll.get_seq(name)
    return make_seq(parent, name=name, moltype=mt, new_type=new, **kw)


def impl(new):
    return "new.coll" if new == "coll" else "new" if new else "old"


def slice_ops(L, rich):
    if rich:
        ab = [None] + list(range(-L - 1, L + 2))
        cs = [None, 1, 2, 3, -1, -2, -3]
    else:
        ab = [None, -L - 1, -2, -1, 0, 1, 2, L, L + 1]
        cs = [None, 1, -1, 2, -2]
    return [["s", a, b, c] for a in ab for b in ab for c in cs]


PARENTS = {"dna": ["", "A", "AG", "ACG", "AGCTR", "ACGGTYA", "TG-CANR"],
           "rna": ["ACGUR", "UG-CAY"],
           "protein": ["MKV", "MKVLQ"],
           "text": ["ABCDE"]}


def gen_chain(tier, seed):
    rnd = random.Random(seed)
    thorough = tier == "thorough"
    for new in (False, True, "coll"):
        for mt, parents in PARENTS.items():
            if new == "coll" and mt == "text":
                continue
            for parent in parents:
                L = len(parent)
                if new == "coll" and L == 0:
                    continue
                offs = (0, 5) if mt == "dna" and L in (3, 5) and new != "coll" else (0,)
                nuc = mt in ("dna", "rna")
                first = slice_ops(L, rich=True)
                extra = [["rc"], ["rna"], ["dna"]] if nuc else []
                second = slice_ops(L, rich=False)
                for off in offs:
                    for op1 in first + extra:
                        yield [new, mt, parent, off, [op1]]
                    if L < 2:
                        continue
                    # depth 2: reduced set x reduced set (the integer algebra at every depth is in the proof tier)
                    lvl1 = slice_ops(L, rich=False)[::(2 if thorough else 3)] + extra
                    lvl2 = slice_ops(L, rich=False)[::(2 if thorough else 2)] + extra
                    for op1 in lvl1:
                        for op2 in lvl2:
                            yield [new, mt, parent, off, [op1, op2]]
                    # depth 3 (thorough 3-4), seeded sample
                    n3 = 1500 if thorough else 100
                    for _ in range(n3):
                        ops = [rnd.choice(lvl1) for _ in range(3 if not thorough else rnd.choice((3, 4)))]
                        yield [new, mt, parent, off, ops]


def displayed_segment_ok(x, root_parent, mt, off, seqids=("s1",)):
    """parent coordinates name exactly the displayed segment"""
    seqid, start, stop, strand = x.parent_coordinates()
    s = str(x)
    if len(s) == 0:
        return True, ""
    if not (off <= start <= stop <= off + len(root_parent)):
        return False, f"parent coordinates ({start},{stop}) outside parent [{off},{off + len(root_parent)}]"
    seg = root_parent[start - off:stop - off]
    step = abs(x._seq.step)
    if strand == -1:
        if mt in ("dna", "rna"):
            seg = comp(seg, mt)
        shown = seg[::-step]
    else:
        shown = seg[::step]
    if shown != s:
        return False, f"parent_coordinates {(seqid, start, stop, strand)} name {shown!r}, view displays {s!r}"
    if step == 1 and stop - start != len(s):
        return False, f"interval length {stop - start} != displayed length {len(s)}"
    if seqid not in seqids:
        return False, f"seqid {seqid!r}"
    return True, ""


def contract_chain(case):
    new, mt, parent, off, ops = case
    x = make(parent, mt, new, off)
    s, cur_mt = parent, mt
    root, root_off, rooted_len, seqids = parent, off, len(parent), ("s1",)
    for op in ops:
        cur_mt_before = cur_mt
        if op[0] in ("rna", "dna", "rc") and cur_mt not in ("dna", "rna"):
            return ("skip",)
        try:
            s2, mt2 = spec_apply(s, cur_mt, op)
        except IndexError:
            return ("skip",)
        prev_x, prev_s = x, s
        try:
            x = real_apply(x, op)
        except Exception as e:
            return ("fail", f"chain/{impl(new)}/{op[0]}/raises", f"{case}: {type(e).__name__}: {e}")
        if str(prev_x) != prev_s:            # every operation of the algebra returns a new object
            return ("fail", f"chain/{impl(new)}/{op[0]}/receiver-changed",
                    f"{case}: after {op} the object it was applied to reads {str(prev_x)!r}, it read {prev_s!r}")
        s, cur_mt = s2, mt2
        got = str(x)
        if got != s:
            kind = op[0] + ("(neg)" if op[0] == "s" and op[3] is not None and op[3] < 0 else "")
            prev = [o[0] for o in ops[:ops.index(op)]]
            return ("fail", f"chain/{impl(new)}/str after {kind} following {prev}",
                    f"{case}: str gives {got!r}, plain-string chain gives {s!r}")
        if len(x) != len(s) or "".join(str(c) for c in x) != s:
            return ("fail", f"chain/{impl(new)}/len-iter", f"{case}: len/iter disagree with {s!r}")
        # integer indexing, from both ends
        for i_ in range(-len(s), len(s)):
            try:
                ch = str(x[i_])
            except Exception as e:
                return ("fail", f"chain/{impl(new)}/getitem-int/raises", f"{case}: view {s!r}[{i_}] raises {type(e).__name__}: {e}")
            if ch != s[i_]:
                return ("fail", f"chain/{impl(new)}/getitem-int/{'negative' if i_ < 0 else 'non-negative'}-index",
                        f"{case}: view {s!r}[{i_}] gives {ch!r}, the string gives {s[i_]!r}")
        if op[0] in ("rna", "dna") and mt2 != cur_mt_before:
            # a moltype conversion builds a new sequence: its parent is the converted string itself
            root, root_off, rooted_len = s, int(getattr(x, "annotation_offset", 0) or 0), len(s)
            seqids = (None, "s1")
        if hasattr(x, "parent_coordinates") and hasattr(x, "_seq") and getattr(x._seq, "seq_len", None) == rooted_len:
            ok, msg = displayed_segment_ok(x, root, cur_mt, root_off, seqids)
            if not ok:
                return ("fail", f"chain/{impl(new)}/parent_coordinates after {[o[0] for o in ops]}", f"{case}: {msg}")
    return ("ok", len(s) > 0 and len(ops) >= 1)


# ------------------------------------------------------------------------------------------------ methods
EXCLUDE = {
    # mutators, IO/plotting, random, annotation machinery (C04), serialisation (C10), by-design different
    "add_feature", "annotate_from_gff", "annotate_matches_to", "annotation_db", "annotation_offset",
    "copy_annotations", "replace_annotation_db", "get_drawable", "get_drawables", "to_html", "shuffle",
    "to_json", "to_rich_dict", "from_rich_dict", "parent_coordinates", "get_features", "make_feature",
    "is_annotated", "with_masked_annotations", "gapped_by_map", "gapped_by_map_motif_iter",
    "gapped_by_map_segment_iter", "matrix_distance", "info", "name", "moltype", "line_wrap", "alphabet",
    "gap_maps",
}

ARGS = {
    "count": [("A",), ("AC",), ("-",)],
    "get_kmers": [(1,), (2,)], "iter_kmers": [(2,)],
    "sliding_windows": [(2, 1)], "get_in_motif_size": [(1,), (2,), (3,)],
    "replace": [("A", "G"), ("C", "-")],
    "to_moltype": [("rna",), ("dna",)],
    "frac_similar": "other+pairs",
}
OTHER_METHODS = {"can_match", "can_mismatch", "can_mispair", "can_pair", "diff", "distance", "frac_diff",
                 "frac_diff_gaps", "frac_diff_non_gaps", "frac_same", "frac_same_gaps", "frac_same_non_gaps",
                 "must_match", "must_pair"}


def norm(v, depth=0):
    if v is None or isinstance(v, (bool, int, str, bytes)):
        return v
    if isinstance(v, float):
        return round(v, 9)
    if isinstance(v, numpy.ndarray):
        return ("array", v.tolist())
    if isinstance(v, numpy.generic):
        return norm(v.item())
    if hasattr(v, "moltype") and hasattr(v, "__str__") and hasattr(v, "__len__") and not isinstance(v, (list, tuple, dict)):
        return ("seq", str(v), getattr(getattr(v, "moltype", None), "label", getattr(getattr(v, "moltype", None), "name", None)))
    if hasattr(v, "get_gap_coordinates"):
        return ("indelmap", [list(map(int, g)) for g in v.get_gap_coordinates()], len(v))
    if isinstance(v, dict):
        return ("dict", sorted((repr(norm(k)), norm(x, depth + 1)) for k, x in v.items()))
    if isinstance(v, (set, frozenset)):
        return ("set", sorted(repr(norm(x)) for x in v))
    if isinstance(v, (list, tuple)):
        return [norm(x, depth + 1) for x in v]
    if hasattr(v, "to_dict") and depth < 3:
        try:
            return ("to_dict", norm(v.to_dict(), depth + 1))
        except Exception:
            pass
    if hasattr(v, "__iter__") and depth < 3:
        return [norm(x, depth + 1) for x in v]
    return ("obj", type(v).__name__)


def method_table(x):
    out = []
    for n in sorted(dir(type(x))):
        if n.startswith("_") or n in EXCLUDE:
            continue
        attr = getattr(type(x), n, None)
        if isinstance(attr, property):
            out.append((n, "prop", ()))
        elif callable(attr):
            if n in OTHER_METHODS:
                out.append((n, "other", ()))
            elif n in ARGS:
                if ARGS[n] == "other+pairs":
                    out.append((n, "other+pairs", ()))
                else:
                    for a in ARGS[n]:
                        out.append((n, "call", a))
            else:
                out.append((n, "call", ()))
    # further read-only protocols of the same object (not public names, but how other code reads a sequence)
    for r in ("@array", "@bytes", "@list", "@contains", "@eq-rebuilt", "@hash-stable", "@json-roundtrip", "@copy-sliced",
              "@gapped-by-map", "@map-segments", "@map-motifs", "@getitem-featuremap"):
        out.append((r, "reading", ()))
    return out


def gen_methods(tier, seed):
    thorough = tier == "thorough"
    for new in (False, True, "coll"):
        for mt, parents in (("dna", ["AGCTR", "TG-CANR", "ATGAAATAG", "AC?GTN"]), ("rna", ["UG-CAY"]), ("protein", ["MKVLQ"])):
            for parent in parents:
                L = len(parent)
                nuc = mt in ("dna", "rna")
                views = [[["s", None, None, None]], [["s", 1, None, None]], [["s", None, -1, 2]], [["s", 1, L - 1, 1]],
                         [["s", None, None, -1]], [["s", -2, 0, -2]]]
                # views that display nothing: every method must answer as on an empty sequence, not for the parent
                views += [[["s", L, None, None]], [["s", 2, 2, None]], [["s", 3, 1, None]], [["s", L + 5, None, None]],
                          [["s", None, 0, None]], [["s", 1, None, 2], ["s", 9, None, None]]]
                if nuc:
                    views += [[["rc"]], [["s", 1, None, None], ["rc"]], [["rc"], ["s", None, None, 2]], [["rc"], ["s", 4, 2, None]]]
                if thorough:
                    views += [[op] for op in slice_ops(L, rich=False)[::3]]
                x0 = make(parent, mt, new)
                for ops in views:
                    for (n, kind, args) in method_table(x0):
                        yield [new, mt, parent, ops, n, kind, list(args)]
                # the same object built with an annotation offset: serialisation, copies and coordinates must still read alike
                if new != "coll" and parent in ("AGCTR", "UG-CAY"):
                    for off in (3, 7):
                        for ops in views:
                            for (n, kind, args) in method_table(x0):
                                if kind == "reading" or n in ("copy", "deepcopy", "to_json", "to_rich_dict", "parent_coordinates", "to_rna", "to_dna", "rc", "complement"):
                                    yield [new, mt, parent, ops, n, kind, list(args), off]


def _invoke(obj, n, kind, args, other):
    if kind == "reading":
        if n == "@array":
            return numpy.array(obj)
        if n == "@bytes":
            return bytes(obj)
        if n == "@list":
            return [str(c) for c in obj]
        if n == "@contains":
            return [(m in obj) for m in ("A", "AC", "-", "U", "T", str(obj)[1:3])]
        if n == "@eq-rebuilt":
            return obj == type(obj)(str(obj), name=obj.name) if not hasattr(obj, "_seq") else str(obj) == str(obj[:])
        if n == "@hash-stable":
            return hash(obj) == hash(obj)
        if n in ("@gapped-by-map", "@map-segments", "@map-motifs", "@getitem-featuremap"):
            # the methods that read the object through a map of its own positions (how alignments and features read it)
            from cogent3.core.location import FeatureMap, IndelMap
            L = len(obj)
            if L < 3:
                raise ValueError("too short for a two-segment map")
            if n == "@getitem-featuremap":
                fm = FeatureMap.from_locations(locations=[(0, 1), (2, L)], parent_length=L)
                return str(obj[fm])
            import numpy as _np
            im = IndelMap(gap_pos=_np.array([1, L - 1]), cum_gap_lengths=_np.array([2, 3]), parent_length=L)
            if n == "@gapped-by-map":
                return str(obj.gapped_by_map(im))
            if n == "@map-segments":
                return [str(x) for x in obj.gapped_by_map_segment_iter(im)]
            return [str(x) for x in obj.gapped_by_map_motif_iter(im)]
        if n == "@json-roundtrip":       # what the serialised form of this object reads as
            from cogent3.util.deserialise import deserialise_object
            return str(deserialise_object(obj.to_json()))
        if n == "@copy-sliced":
            c = obj.copy(sliced=True) if "sliced" in obj.copy.__code__.co_varnames else obj.copy()
            return (str(c), str(obj))
    if kind == "prop":
        return getattr(obj, n)
    if kind == "other":
        return getattr(obj, n)(other)
    if kind == "other+pairs":
        return getattr(obj, n)(other, {("A", "G"): 1, ("G", "A"): 1})
    return getattr(obj, n)(*args)


def contract_methods(case):
    new, mt, parent, ops, n, kind, args = case[:7]
    off = case[7] if len(case) > 7 else 0
    x = make(parent, mt, new, off)
    try:
        for op in ops:
            x = real_apply(x, op)
    except Exception:
        return ("skip",)
    cur_mt = mt
    s = str(x)
    y = make(s, cur_mt, new)             # a new sequence built from the view's string
    other_src = make(parent[::-1] if mt == "protein" else parent, mt, new, name="o")
    other_v = other_src[:len(s)] if len(s) <= len(parent) else other_src
    other_y = make(str(other_v), mt, new, name="o")

    def run(obj, oth):
        try:
            return ("ret", norm(_invoke(obj, n, kind, args, oth)))
        except Exception as e:
            return ("exc", type(e).__name__)
    a = run(x, other_v)
    b = run(y, other_y)
    if a != b:
        viewkind = "+".join(o[0] + ("-" if o[0] == "s" and o[3] is not None and o[3] < 0 else "") for o in ops)
        return ("fail", f"method/{impl(new)}{'/offset' if off else ''}/{n}/{viewkind}",
                f"{case}: on view {s!r} -> {str(a)[:200]}; on rebuilt sequence -> {str(b)[:200]}")
    return ("ok", a[0] == "ret")


BOUNDED = {
    "chain": {
        "gen": gen_chain, "contract": contract_chain,
        "functions": ["Sequence.__getitem__", "Sequence.__str__", "Sequence.__len__", "Sequence.__iter__",
                      "NucleicAcidSequence.rc", "Sequence.to_rna", "Sequence.to_dna", "Sequence.to_moltype",
                      "Sequence.copy", "Sequence.parent_coordinates (old and new types)"],
        "bound": "parents of length 0..7 (dna/rna/protein/text, fixed contents incl. degenerate and gap symbols), "
                 "annotation offsets {0,5}; depth 1: every slice a,b in [-L-1,L+1]+None, c in {None,+-1,+-2,+-3}, rc, "
                 "to_rna, to_dna, copy; depth 2: reduced slice set x reduced slice set + rc/to_rna/to_dna/copy; "
                 "depth 3 (thorough 3-4) seeded sample",
        "rule": "a case = (type, moltype, parent, offset, op chain); non-trivial when the final string is non-empty; "
                "distinct by hash of the case",
    },
    "methods": {
        "gen": gen_methods, "contract": contract_methods,
        "functions": ["every public attribute of old/new Sequence classes from dir() minus the exclusion list in "
                      "bounded/C01.py:EXCLUDE"],
        "bound": "3 dna + 1 rna + 1 protein parents x 6-9 views (forward, strided, reversed, rc, rc-of-slice) x every "
                 "listed method with a fixed argument table",
        "rule": "a case = (type, moltype, parent, view ops, method, args); non-trivial when the method returns "
                "(not raises) on the view; distinct by hash of the case",
    },
}
