"""Bounded run-time contracts for C02 (stand-in tier; never counted as proved).

Contract text (every contract below):  for the likelihood function ``lf`` that cogent3 builds for
(model, tree, alignment, parameter values)

    lf.get_full_length_likelihoods()[s] == L(site s)          for every site s       (rtol 1e-9, atol 1e-13)
    lf.get_log_likelihood()             == sum_s log L(site s)                        (same tolerance, propagated)

where L is the sum-product of speclib/c02_spec.py: own newick reader, own rate matrix written from the
published definition of the model, scipy.linalg.expm, explicit compatibility sets for degenerate symbols and
gaps.  ``sums_to_one`` needs no oracle: the per-column likelihoods of all |states|^k columns add up to one.

A case is a JSON dict (see ``_case``); ``contract(case)`` rebuilds model, tree, alignment and lf from it.
"""
from __future__ import annotations

import functools
import itertools
import math
import random
import warnings

import numpy

from speclib import c02_spec as S

RTOL = 1e-9
ATOL = 1e-13

# ------------------------------------------------------------------------------------------------ model table
# name -> (family, weighting of the spec, pi kind, parameter names)
#   pi kind: "equal" (fixed by the model), "state" (over model states), "nuc" (over nucleotides)
GTR_P = ["A/C", "A/G", "A/T", "C/G", "C/T"]
GN_P = ["A>C", "A>T", "A>G", "C>A", "C>T", "C>G", "T>A", "T>C", "G>A", "G>C", "G>T"]
SSGN_P = ["(A>G | T>C)", "(A>T | T>A)", "(C>G | G>C)", "(C>T | G>A)", "(G>T | C>A)"]
MODELS = {
    "JC69": ("nuc", "tuple", "equal", []),
    "F81": ("nuc", "tuple", "state", []),
    "K80": ("nuc", "tuple", "equal", ["kappa"]),
    "HKY85": ("nuc", "tuple", "state", ["kappa"]),
    "TN93": ("nuc", "tuple", "state", ["kappa_y", "kappa_r"]),
    "GTR": ("nuc", "tuple", "state", GTR_P),
    "GN": ("nuc", None, "state", GN_P),
    "ssGN": ("nuc", None, "state", SSGN_P),
    # dinucleotide models built from the supplied classes: kappa + a CpG term
    "DINUC-tuple": ("dinuc", "tuple", "state", ["kappa", "CpG"]),
    "DINUC-conditional": ("dinuc", "conditional", "state", ["kappa", "CpG"]),
    "DINUC-monomer": ("dinuc", "monomer", "nuc", ["kappa", "CpG"]),
    "DINUC-nonrev": ("dinuc", None, "state", ["A>G", "C>T", "CpG"]),
    "MG94HKY": ("codon", "monomer", "nuc", ["kappa", "omega"]),
    "MG94GTR": ("codon", "monomer", "nuc", GTR_P + ["omega"]),
    "GY94": ("codon", "tuple", "state", ["kappa", "omega"]),
    "Y98": ("codon", "tuple", "state", ["kappa", "omega"]),
    "CNFGTR": ("codon", "conditional", "state", GTR_P + ["omega"]),
    "CNFHKY": ("codon", "conditional", "state", ["kappa", "omega"]),
    "GNC": ("codon", None, "state", GN_P + ["omega"]),
    # Huttley 2004: G multiplies substitutions to or from a CpG, G.K those that are also transitions
    "H04G": ("codon", "tuple", "state", ["G", "kappa", "omega"]),
    "H04GK": ("codon", "tuple", "state", ["G.K", "kappa", "omega"]),
    "H04GGK": ("codon", "tuple", "state", ["G", "G.K", "kappa", "omega"]),
    "MG94HKY:gc2": ("codon:2", "monomer", "nuc", ["kappa", "omega"]),      # vertebrate mitochondrial code
    "GY94:gc2": ("codon:2", "tuple", "state", ["kappa", "omega"]),
    "GY94:gc4": ("codon:4", "tuple", "state", ["kappa", "omega"]),
    "GY94:gc15": ("codon:15", "tuple", "state", ["kappa", "omega"]),
    "JTT92": ("protein", "tuple", "state", []),
    "DSO78": ("protein", "tuple", "state", []),
    "WG01": ("protein", "tuple", "state", []),
    "AH96": ("protein", "tuple", "state", []),
    "AH96_mtmammals": ("protein", "tuple", "state", []),
}
# the mprob_model option of the supplied word-alphabet classes (how motif probabilities enter Q and the word
# distribution): every accepted value, on codon (61 of 64 words), full dinucleotide and `motifs=` sub-alphabets
DINUC_SUB = [a + b for a in "ACGT" for b in "ACGT" if a + b not in ("CG", "TA")]
MPROB_OPTIONS = {      # option -> (weighting of the spec, pi kind)
    "tuple": ("tuple", "state"), "word": ("tuple", "state"), "conditional": ("conditional", "state"),
    "default": ("conditional", "state"),            # mprob_model=None on a word alphabet means "conditional"
    "monomer": ("monomer", "nuc"), "monomers": ("monomers", "posn"),
}
for _mp, (_w, _pk) in MPROB_OPTIONS.items():
    MODELS[f"CODON-{_mp}"] = ("codon", _w, _pk, ["kappa", "omega"])
    MODELS[f"CODON-nonrev-{_mp}"] = ("codon", None, _pk, ["A>G", "C>T", "omega"])
    MODELS.setdefault(f"DINUC-{_mp}", ("dinuc", _w, _pk, ["kappa", "CpG"]))
    MODELS[f"DINUCSUB-{_mp}"] = ("dinuc:" + ",".join(DINUC_SUB), _w, _pk, ["kappa"])
    MODELS[f"DINUCSUB-nonrev-{_mp}"] = ("dinuc:" + ",".join(DINUC_SUB), None, _pk, ["A>G", "C>T"])
PI_KIND_OF = {"nuc": "monomer", "posn": "monomers"}
# "to or from CpG" can be read two ways for the one codon pair CCG <-> CGG (a CG is destroyed and another one
# created by the same change); the statement does not choose, so both readings are accepted
CPG_READINGS = ("CpG", "CpG-one-window")

# a few entries of the published PAML tables (jones.dat, dayhoff.dat) the data arrays must agree with
_PAML_SPOT = {"JTT92": {("A", "R"): 58, ("A", "N"): 54, ("R", "N"): 45, ("A", "D"): 81, ("R", "D"): 16, ("N", "D"): 528},
              "DSO78": {("A", "R"): 27, ("A", "N"): 98, ("R", "N"): 32, ("A", "D"): 120, ("R", "D"): 0, ("N", "D"): 905}}


@functools.lru_cache(maxsize=None)
def _protein_data(name):
    """published exchangeability table and frequencies: data arrays only, keyed here by residue letter"""
    from cogent3.evolve import models as M
    mat = numpy.asarray(getattr(M, f"{name}_matrix"), float)
    freqs = dict(getattr(M, f"{name}_freqs"))
    assert mat.shape == (20, 20) and numpy.allclose(mat, mat.T) and not mat.diagonal().any()
    assert sorted(freqs) == sorted(S.AMINO) and abs(sum(freqs.values()) - 1) < 1e-6
    ex = {(a, b): float(mat[i, j]) for i, a in enumerate(S.AMINO) for j, b in enumerate(S.AMINO)}
    for (a, b), v in _PAML_SPOT.get(name, {}).items():
        assert ex[(a, b)] == v == ex[(b, a)], (name, a, b)
    tot = sum(freqs.values())
    return ex, {k: v / tot for k, v in freqs.items()}


def make_model(case):
    """the cogent3 substitution model of a case"""
    from cogent3 import get_model
    from cogent3.evolve import ns_substitution_model as NS
    from cogent3.evolve import substitution_model as SM
    from cogent3.evolve.predicate import MotifChange
    name = case["model"]
    kw = dict(case.get("mkw") or {})
    if case.get("pi_via") == "model" and case.get("pi") and isinstance(case["pi"], dict):
        kw["motif_probs"] = dict(case["pi"])
    if name.split("-")[0] in ("CODON", "DINUCSUB") or (name.startswith("DINUC-") and name.split("-")[1] in
                                                       ("word", "default", "monomers")):
        from cogent3.evolve.predicate import omega
        parts = name.split("-")
        mp = None if parts[-1] == "default" else parts[-1]
        nonrev = "nonrev" in parts
        kappa = (MotifChange("T", "C") | MotifChange("A", "G")).aliased("kappa")
        ag, ct = MotifChange("A", "G", forward_only=True), MotifChange("C", "T", forward_only=True)
        common = dict(recode_gaps=True, model_gaps=False, mprob_model=mp, name=name, **kw)
        if parts[0] == "CODON":
            if nonrev:
                return NS.NonReversibleCodon(predicates=[ag, ct, omega], **common)
            return SM.TimeReversibleCodon(predicates=[kappa, omega], **common)
        if parts[0] == "DINUCSUB":
            if nonrev:
                return NS.NonReversibleDinucleotide(predicates=[ag, ct], motifs=list(DINUC_SUB), **common)
            return SM.TimeReversibleDinucleotide(predicates=[kappa], motifs=list(DINUC_SUB), **common)
        return SM.TimeReversibleDinucleotide(predicates=[kappa, MotifChange("CG").aliased("CpG")], **common)
    if name.startswith("DINUC-"):
        kappa = (MotifChange("T", "C") | MotifChange("A", "G")).aliased("kappa")
        cpg = MotifChange("CG").aliased("CpG")
        kind = name.split("-")[1]
        if kind == "nonrev":
            preds = [MotifChange("A", "G", forward_only=True), MotifChange("C", "T", forward_only=True), cpg]
            return NS.NonReversibleDinucleotide(predicates=preds, recode_gaps=True, model_gaps=False,
                                                mprob_model="tuple", name=name, **kw)
        return SM.TimeReversibleDinucleotide(predicates=[kappa, cpg], recode_gaps=True, model_gaps=False,
                                             mprob_model=kind, name=name, **kw)
    if ":gc" in name:
        return get_model(name.split(":")[0], gc=int(name.split(":gc")[1]), **kw)
    return get_model(name, **kw)


# ------------------------------------------------------------------------------------------------ spec side
def _rule_edges(tree, scope):
    if "edge" in scope:
        return [scope["edge"]]
    if "edges" in scope:
        return list(scope["edges"])
    if "tip_names" in scope:
        a, b = scope["tip_names"]
        stem = bool(scope.get("stem", False))
        clade = scope.get("clade")
        clade = (not stem) if clade is None else bool(clade)
        if scope.get("outgroup_name"):
            return S.scope_edges_outgroup(tree, a, b, scope["outgroup_name"], clade=clade, stem=stem)[0]
        return S.scope_edges(tree, a, b, clade=clade, stem=stem)
    return S.edge_names(tree)


def _bin_names(case):
    b = (case.get("lfkw") or {}).get("bins")
    if not b:
        return ["bin0"]
    return [f"bin{i}" for i in range(b)] if isinstance(b, int) else list(b)


class Expected:
    """parameter table of a case by the rules' plain reading: a rule assigns its value to the edges (and bins)
    it names, later rules override earlier ones"""

    def __init__(self, case, cpg_reading="CpG"):
        self.case = case
        self.cpg_reading = cpg_reading
        self.family, self.weighting, self.pikind, self.pnames = MODELS[case["model"]]
        self.tree = S.parse_newick(case["tree"])
        self.edges = S.edge_names(self.tree)
        self.bins = _bin_names(case)
        self.length = {e: 1.0 for e in self.edges}
        self.par = {(p, e, b): 1.0 for p in self.pnames for e in self.edges for b in self.bins}
        self.bprobs = [1.0 / len(self.bins)] * len(self.bins)
        self.rate_shape = 1.0
        self.rate_partition = [1.0 / len(self.bins)] * len(self.bins)
        self.factor_partition = {}
        self.exchange = None
        if self.family == "protein":
            self.exchange, default_pi = _protein_data(case["model"])
        if self.pikind == "equal":
            st = S.states_of(self.family)
            self.pi = {s: 1.0 / len(st) for s in st}
        elif case.get("pi") and self.pikind == "posn":
            # position-specific nucleotide probabilities: given per position, or one vector for every position,
            # or a distribution over the words (then its per-position marginals)
            pi = case["pi"]
            if isinstance(pi, list):
                self.pi = [dict(d) for d in pi]
            elif all(len(k_) == 1 for k_ in pi):
                self.pi = [dict(pi)] * S.word_length(self.family)
            else:
                self.pi = S.position_marginals(self.family, pi)
        elif case.get("pi"):
            self.pi = dict(case["pi"])
        elif self.family == "protein":
            self.pi = default_pi
        else:
            raise ValueError("case without motif probabilities")
        for n in S.nodes(self.tree)[1:]:
            if n["length"] is not None and case.get("len_via") == "tree":
                self.length[n["name"]] = n["length"]
        for rule in case.get("rules", []):
            self.apply(rule)

    def apply(self, rule):
        par, scope, value = rule
        if par == "__time_het__":
            # every rate parameter that is not excluded gets the given value on each listed edge set
            names = [p for p in self.pnames if p not in (scope.get("exclude_params") or [])]
            sets = scope.get("edge_sets") or [{"edges": [e]} for e in self.edges]
            for es in sets:
                v = es.get("init", value)
                for p in names:
                    for e in es["edges"]:
                        for b in self.bins:
                            self.par[(p, e, b)] = float(v)
        elif par == "length":
            for e in _rule_edges(self.tree, scope):
                self.length[e] = float(value)
        elif par == "bprobs":
            self.bprobs = [float(v) for v in value]
        elif par == "rate_shape":
            self.rate_shape = float(value)
        elif par == "rate_partition":
            self.rate_partition = [float(v) for v in value]
        elif par == "mprobs":
            self.pi = dict(value)
        elif par.endswith("_factor_partition") or par.endswith("_factor_partn_partition"):
            self.factor_partition[par.split("_factor_")[0]] = [float(v) for v in value]
        else:
            assert par in self.pnames, par
            bins = [scope["bin"]] if "bin" in scope else (list(scope["bins"]) if "bins" in scope else self.bins)
            for e in _rule_edges(self.tree, scope):
                for b in bins:
                    self.par[(par, e, b)] = float(value)

    def rates(self):
        mode = (self.case.get("mkw") or {}).get("distribution")
        if (self.case.get("mkw") or {}).get("ordered_param") != "rate" or len(self.bins) == 1:
            return [1.0] * len(self.bins)
        if mode == "gamma":
            return list(S.gamma_median_rates(self.rate_shape, self.bprobs))
        return list(S.monotonic_rates(self.rate_partition, self.bprobs))

    def factor(self, p, b):
        """a parameter split across bins is (per-edge value) x (bin factor); the factors have bin-probability
        weighted mean one; for the ordered parameter they are cumulative sums (increasing)"""
        mkw = self.case.get("mkw") or {}
        if len(self.bins) == 1 or p not in self.factor_partition:
            return 1.0
        part = self.factor_partition[p]
        if mkw.get("ordered_param") == p:
            f = S.monotonic_rates(part, self.bprobs)
        else:
            v = numpy.asarray(part, float)
            f = v / (v * numpy.asarray(self.bprobs)).sum()
        return float(f[self.bins.index(b)])

    def q(self, edge, b, cache):
        key = tuple(self.par[(p, edge, b)] * self.factor(p, b) for p in self.pnames)
        if key not in cache:
            spec_names = [{"G": self.cpg_reading, "G.K": self.cpg_reading + " & kappa"}.get(p, p) for p in self.pnames]
            cache[key] = S.rate_matrix(self.family, self.weighting, self.pi, dict(zip(spec_names, key)),
                                       exchange=self.exchange, pi_kind=PI_KIND_OF.get(self.pikind, "state"))
        return cache[key]

    def site_likelihoods(self, seqs):
        cache = {}
        per_bin = []
        rates = self.rates()
        for b, r in zip(self.bins, rates):
            root = self.q(self.edges[0], b, cache)[1]
            per_bin.append(S.site_likelihoods(self.tree, seqs, self.family, lambda e: self.q(e, b, cache)[0],
                                              lambda e: self.length[e], root, rate=r))
        return S.mixture_site_likelihoods(per_bin, self.bprobs)


# ------------------------------------------------------------------------------------------------ alignments
def alignment_rows(case):
    """name -> string, from the alignment description of a case"""
    a = case["aln"]
    tips = S.tip_names(S.parse_newick(case["tree"]))
    if "rows" in a:
        return {t: a["rows"][t] for t in tips}
    if "columns" in a:                       # list of columns, one word per tip
        cols = a["columns"]
    else:
        words = a["words"]
        cols = [list(c) for c in itertools.product(words, repeat=len(tips))]
        if a.get("stride"):
            cols = cols[a.get("offset", 0)::a["stride"]]
        dup = a.get("dup", 0)
        if dup:                              # repeated columns, out of order: site pattern counts matter
            cols = cols + cols[:dup][::-1] + cols[:3] * 2
    return {t: "".join(c[i] for c in cols) for i, t in enumerate(tips)}


def _col_feature(words, family):
    plain = set(S.AMINO) if family == "protein" else set("ACGT")
    if any(ch in "-?" for w in words for ch in w):
        return "gap-column"
    if any(ch not in plain for w in words for ch in w):
        return "degenerate-column"
    return "plain-column"


# ------------------------------------------------------------------------------------------------ real side
def build_lf(case):
    from cogent3 import make_aligned_seqs, make_tree
    fam = MODELS[case["model"]][0]
    tree = make_tree(case["tree"])
    for other in case.get("after", []):        # models built AND used earlier in the same process (another genetic code, another
        om = make_model({"model": other})     # family): nothing they leave behind may change the model of this case
        if MODELS[other][0].startswith("codon"):
            tips = [n.name for n in tree.tips()]
            olf = om.make_likelihood_function(tree)
            olf.set_alignment(make_aligned_seqs({t: "ATGTGTTGCTTTCCC"[3 * (i % 2):] + "ATG" * (i % 2) for i, t in enumerate(tips)}, moltype="dna"))
            float(olf.lnL)
    model = make_model(case)
    lf = model.make_likelihood_function(tree, **(case.get("lfkw") or {}))
    rows = alignment_rows(case)
    order = case.get("seq_order")
    if order:
        rows = {k: rows[k] for k in order}
    aln = make_aligned_seqs(rows, moltype="protein" if fam == "protein" else "dna",
                            array_align=case.get("aln_class", "array") == "array")
    set_pi = case.get("pi") and case.get("pi_via", "lf") == "lf" and MODELS[case["model"]][2] != "equal"
    per_position = isinstance(case.get("pi"), list)
    if case.get("aln_first") or per_position:
        lf.set_alignment(aln)
    if per_position:        # one parameter rule per word position (set_motif_probs takes no per-position values)
        for k_, d in enumerate(case["pi"]):
            lf.set_param_rule("psmprobs", position=str(k_), value=dict(d), is_constant=True)
    elif set_pi:
        lf.set_motif_probs(dict(case["pi"]))
    if not (case.get("aln_first") or per_position):
        lf.set_alignment(aln)
    for rule in case.get("rules", []):
        apply_rule(lf, rule)
    return lf, rows


def apply_rule(lf, rule):
    par, scope, value = rule
    if par == "__time_het__":
        kw = {k: ([dict(d) for d in v] if k == "edge_sets" else v) for k, v in scope.items()}
        lf.set_time_heterogeneity(init=value, **kw)
        return
    kw = {k: v for k, v in scope.items() if k != "independent"}
    if "independent" in scope:
        kw["is_independent"] = scope["independent"]
    if par == "bprobs" or par.endswith("_partition"):
        lf.set_param_rule(par, init=numpy.array(value, float), **kw)
    elif par == "mprobs":
        lf.set_motif_probs(dict(value))
    elif scope.get("const"):
        kw.pop("const")
        lf.set_param_rule(par, is_constant=True, value=value, **kw)
    else:
        lf.set_param_rule(par, init=value, **kw)


def _stage(lf, exp, case):
    """where does the real computation first leave the definition: rate matrix, transition matrix, or later"""
    try:
        states = S.states_of(exp.family)
        cache = {}
        bins = exp.bins
        rates = exp.rates()
        for b, r in zip(bins, rates):
            kw = {"bin": b} if len(bins) > 1 else {}
            for e in exp.edges:
                q, _ = exp.q(e, b, cache)
                try:
                    got = lf.get_rate_matrix_for_edge(e, calibrated=True, **kw)
                    gq = numpy.array([[got[x][y] for y in states] for x in states], float)
                    if not numpy.allclose(gq, q, rtol=1e-8, atol=1e-11):
                        return "rate-matrix-differs"
                except Exception:
                    pass
                gp = lf.get_psub_for_edge(e, **kw)
                gp = numpy.array([[gp[x][y] for y in states] for x in states], float)
                p = S.expm(q * exp.length[e] * r)
                if not numpy.allclose(gp, p, rtol=1e-8, atol=1e-11):
                    # rounding-level disagreement of the exponentiator (accepted eigendecomposition of a nearly
                    # defective Q, cf. finding C05-K2) vs. a grossly wrong transition matrix
                    err = float(numpy.abs(gp - p).max())
                    return "psub-differs" + ("[<1e-5]" if err < 1e-5 else "")
        return "sum-product-differs"
    except Exception as e:  # diagnosis only
        return f"stage-unknown({type(e).__name__})"


def compare(lf, exp, rows, case, cname, phase):
    model = case["model"]
    fam = exp.family
    k = S.word_length(fam)
    tips = S.tip_names(exp.tree)
    want = numpy.asarray(exp.site_likelihoods(rows), float)
    try:
        got = numpy.asarray(lf.get_full_length_likelihoods(), float)
        lnl = float(lf.get_log_likelihood())
    except Exception as e:
        return ("fail", f"{cname}/{model}/{phase}/raises {type(e).__name__}",
                f"{_short(case)}: {type(e).__name__}: {e}")
    nsites = len(rows[tips[0]]) // k
    if got.shape != (nsites,):
        return ("fail", f"{cname}/{model}/{phase}/site-likelihoods/shape",
                f"{_short(case)}: {got.shape} site likelihoods for {nsites} sites")
    bad = ~(numpy.abs(got - want) <= RTOL * numpy.abs(want) + ATOL)
    if bad.any():
        # witness: the simplest failing column (plain < degenerate < gap), largest relative error within its class
        rel = numpy.where(bad, numpy.abs(got - want) / (numpy.abs(want) + ATOL), 0)
        order = ["plain-column", "degenerate-column", "gap-column"]
        pick = None
        for s_ in numpy.argsort(-rel)[:min(int(bad.sum()), 3000)]:
            f_ = _col_feature([rows[t][s_ * k:(s_ + 1) * k] for t in tips], fam)
            if pick is None or order.index(f_) < order.index(pick[1]):
                pick = (int(s_), f_)
            if f_ == "plain-column":
                break
        s, feature = pick
        words = [rows[t][s * k:(s + 1) * k] for t in tips]
        stage = _stage(lf, exp, case)
        return ("fail", f"{cname}/{model}/{phase}/site-likelihood/{stage}/{feature}",
                f"{_short(case)}: site {s} column {dict(zip(tips, words))}: lf gives {got[s]!r}, sum-product gives "
                f"{want[s]!r} ({int(bad.sum())} of {nsites} sites differ)")
    if (want <= 0).any():
        ok = lnl == -math.inf or math.isnan(lnl) or lnl < math.log(ATOL) * 0.9
        want_lnl = -math.inf
    else:
        want_lnl = S.log_likelihood(want)
        tol = RTOL * abs(want_lnl) + float((ATOL / want).sum()) + 1e-12
        ok = abs(lnl - want_lnl) <= tol
    if not ok:
        return ("fail", f"{cname}/{model}/{phase}/lnL/site-likelihoods-agree-but-sum-differs",
                f"{_short(case)}: lnL {lnl!r}, sum of log site likelihoods {want_lnl!r}")
    return None


def _short(case):
    c = dict(case)
    a = c.get("aln", {})
    if "columns" in a and len(a["columns"]) > 12:
        c["aln"] = {"columns": a["columns"][:12] + ["..."]}
    if c.get("pi") and len(c["pi"]) > 16:
        c["pi"] = "<%d values>" % len(c["pi"])
    return str(c)


def run_case(case, cname):
    if case["model"].startswith("H04"):
        first = None
        for reading in CPG_READINGS:
            r = _run_case(case, cname, reading)
            if r[0] == "ok":
                return r
            first = first or r
        return first
    return _run_case(case, cname, "CpG")


def _run_case(case, cname, cpg_reading):
    warnings.filterwarnings("ignore")
    exp = Expected(case, cpg_reading)
    try:
        lf, rows = build_lf(case)
    except Exception as e:
        return ("fail", f"{cname}/{case['model']}/build/raises {type(e).__name__}",
                f"{_short(case)}: {type(e).__name__}: {e}")
    r = compare(lf, exp, rows, case, cname, "initial")
    if r:
        return r
    for i, upd in enumerate(case.get("updates", [])):
        try:
            for rule in upd:
                if rule[0] == "alignment":       # the same lf is given another alignment
                    from cogent3 import make_aligned_seqs
                    rows = alignment_rows(dict(case, aln=rule[2]))
                    lf.set_alignment(make_aligned_seqs(rows, moltype="protein" if exp.family == "protein" else "dna"))
                    continue
                apply_rule(lf, rule)
                exp.apply(rule)
        except Exception as e:
            return ("fail", f"{cname}/{case['model']}/update/raises {type(e).__name__}",
                    f"{_short(case)}: update {upd}: {type(e).__name__}: {e}")
        r = compare(lf, exp, rows, case, cname, "after-update")
        if r:
            return r
    nontrivial = any(v > 0 for v in exp.length.values())
    return ("ok", nontrivial)


# ------------------------------------------------------------------------------------------------ generators
def _int_partitions(n, maxpart=None):
    maxpart = maxpart or n
    if n == 0:
        yield ()
        return
    for p in range(min(n, maxpart), 0, -1):
        for rest in _int_partitions(n - p, p):
            yield (p,) + rest


@functools.lru_cache(maxsize=None)
def shapes(n):
    """all rooted tree shapes on n tips, every internal node with >= 2 children (polytomies included)"""
    if n == 1:
        return ((),)
    out = set()
    for parts in _int_partitions(n):
        if len(parts) < 2:
            continue
        for combo in itertools.product(*[shapes(p) for p in parts]):
            out.add(tuple(sorted(combo, key=repr)))
    return tuple(sorted(out, key=repr))


def newick_of(shape, lengths=None):
    tips = iter("abcdefgh")
    counter = itertools.count(1)
    names = []

    def rec(s, is_root):
        if s == ():
            nm = next(tips)
        elif s == "unary":
            raise ValueError
        else:
            inner = ",".join(rec(c, False) for c in s)
            nm = "" if is_root else f"n{next(counter)}"
            if is_root:
                return f"({inner})"
            names.append(nm)
            return f"({inner}){nm}" + (f":{lengths[nm]}" if lengths else "")
        names.append(nm)
        return nm + (f":{lengths[nm]}" if lengths else "")

    text = rec(shape, True) + ";"
    return text, names


def shape_edges(shape):
    return newick_of(shape)[1]


V_LEN = [0.0, 1e-3, 0.1, 1.5]
UNARY = "(a,(b)n1);"        # an internal node with a single child
SHAPES = [s for n in (2, 3, 4, 5) for s in shapes(n)]


def length_assignments(edges, rnd, nrandom):
    E = len(edges)
    out = []
    if 4 ** E <= 256:
        out = [dict(zip(edges, v)) for v in itertools.product(V_LEN, repeat=E)]
    else:
        for v in V_LEN:
            out.append({e: v for e in edges})
        for r in range(4):
            out.append({e: V_LEN[(i + r) % 4] for i, e in enumerate(edges)})
        for e in edges:
            for v in (0.0, 1.5):
                d = {x: 0.1 for x in edges}
                d[e] = v
                out.append(d)
    for _ in range(nrandom):
        out.append({e: rnd.choice(V_LEN + [round(rnd.uniform(0.001, 3.0), 4)]) for e in edges})
    return out


PI_NUC = [{"A": 0.25, "C": 0.25, "G": 0.25, "T": 0.25}, {"A": 0.1, "C": 0.2, "G": 0.3, "T": 0.4},
          {"A": 0.55, "C": 0.05, "G": 0.25, "T": 0.15}]
KAPPAS = [3.7, 0.3, 1.0, 25.0]
PARAM_GRID = {
    "JC69": [{}], "F81": [{}],
    "K80": [{"kappa": k} for k in KAPPAS], "HKY85": [{"kappa": k} for k in KAPPAS],
    "TN93": [{"kappa_y": 2.0, "kappa_r": 7.0}, {"kappa_y": 0.5, "kappa_r": 1.0}, {"kappa_y": 12.0, "kappa_r": 0.2}],
    "GTR": [dict(zip(GTR_P, v)) for v in ([0.5, 2.5, 0.8, 1.7, 4.2], [1, 1, 1, 1, 1], [3.0, 0.1, 1.0, 8.0, 0.6])],
    "GN": [dict(zip(GN_P, v)) for v in ([0.7, 1.9, 3.1, 0.4, 2.2, 0.9, 1.3, 4.5, 2.8, 0.6, 1.1], [1] * 11,
                                        [5.0, 0.05, 0.3, 2.0, 0.1, 6.0, 0.8, 0.2, 3.3, 1.5, 0.07])]
          # rate matrices with a repeated eigenvalue and too few eigenvectors (defective): only an exponentiator that
          # checks its eigendecomposition (the default 'either') gets P(t) right there
          + [{n: (1.0 if n in ("G>C", "C>A") else 0.1) for n in GN_P}, {n: (3.0 if n in ("T>A", "A>G") else 1.0) for n in GN_P}],
    "ssGN": [dict(zip(SSGN_P, v)) for v in ([2.4, 0.6, 1.2, 3.5, 0.8], [1] * 5, [0.1, 4.0, 0.3, 0.9, 6.0])],
}
NUC_MODELS = ["JC69", "F81", "K80", "HKY85", "TN93", "GTR", "GN", "ssGN"]
SOLVED_MODELS = ("JC69", "F81", "K80", "HKY85", "TN93")      # get_model(..., rate_matrix_required=False) is accepted


def _rules(lengths, params, via="rule"):
    r = [] if via == "tree" else [["length", {"edge": e}, t] for e, t in lengths.items()]
    r += [[p, {}, v] for p, v in params.items()]
    return r


def _words_for(ntips, thorough):
    if ntips <= 4:
        return {"words": list("ACGTNRY-"), "dup": 40} if (ntips <= 3 or thorough) else \
            {"words": list("ACGTNRY-"), "stride": 3, "dup": 40}
    return {"words": list("ACGTNRY-"), "dup": 40} if thorough else {"words": list("ACGTNRY-"), "stride": 61, "dup": 40}


IUPAC = "ACGTRYMKSWBDHVN-?"
RENAME = {"a": "Human", "b": "t10", "c": "t2", "d": "Zebra_fish", "e": "x.1"}


def _rename(case, mapping):
    """the same case with other tip names (sorting order, digits, punctuation)"""
    import re
    c = dict(case)
    c["tree"] = re.sub(r"(?<=[(,])([a-e])(?=[:,)])", lambda m: mapping[m.group(1)], case["tree"])

    def sc(scope):
        d = dict(scope)
        if "edge" in d:
            d["edge"] = mapping.get(d["edge"], d["edge"])
        if "edges" in d:
            d["edges"] = [mapping.get(e, e) for e in d["edges"]]
        return d
    c["rules"] = [[p, sc(s_), v] for p, s_, v in case.get("rules", [])]
    if "updates" in case:
        c["updates"] = [[[p, sc(s_), v] for p, s_, v in u] for u in case["updates"]]
    return c


def _random_tree(rnd, ntips):
    """random rooted shape with polytomies, tips t1..tn, internal nodes n1..  -> (newick, {edge: length});
    the lengths are applied by rules (a zero length inside a newick means 'use the default' to cogent3)"""
    parts = [f"t{i + 1}" for i in range(ntips)]
    lengths = {}
    k = 0

    def child(g):
        nm = g[g.rindex(")") + 1:] if g.endswith(tuple("0123456789")) and ")" in g else g
        lengths[nm] = rnd.choice([0.0, 1e-3, 0.1, 1.5, round(rnd.uniform(0.001, 2.5), 4)])
        return f"{g}:1.0"
    while True:
        if len(parts) <= 3 and rnd.random() < 0.5:
            take = len(parts)
        else:
            take = min(len(parts), rnd.choice([2, 2, 2, 3]))
        rnd.shuffle(parts)
        grp, parts = parts[:take], parts[take:]
        inner = "(" + ",".join(child(g) for g in grp) + ")"
        if not parts:
            return inner + ";", lengths
        k += 1
        parts.append(f"{inner}n{k}")


def gen_nucleotide(tier, seed):
    rnd = random.Random(seed)
    thorough = tier == "thorough"
    i = 0
    trees = [(sh, None) for sh in SHAPES] + [("unary", UNARY)]
    for sh, text in trees:
        if sh == "unary":
            edges, ntips = ["a", "b", "n1"], 2
        else:
            edges = shape_edges(sh)
            ntips = sum(1 for e in edges if not e.startswith("n"))
        las = length_assignments(edges, rnd, 12 if thorough else 0)
        if ntips == 5 and not thorough:
            las = las[:8] + las[8::8]
        elif len(edges) == 4 and not thorough:
            las = las[::2]
        for la in las:
            for model in NUC_MODELS:
                grid = PARAM_GRID[model]
                pis = [None] if MODELS[model][2] == "equal" else PI_NUC
                combos = [(p, q) for p in grid for q in pis]
                if not thorough or ntips >= 5:
                    combos = [combos[i % len(combos)]]
                elif ntips == 4:
                    combos = [combos[(i + j * 5) % len(combos)] for j in range(min(2, len(combos)))]
                elif len(combos) > 4:
                    combos = [combos[(i + j * 5) % len(combos)] for j in range(4)]
                for params, pi in combos:
                    i += 1
                    via = "tree" if (i % 5 == 0 and all(v > 0 for v in la.values())) else "rule"
                    anonymous = via == "tree" and i % 10 == 0 and sh != "unary"
                    if sh == "unary":
                        tr = "(a:%s,(b:%s)n1:%s);" % (la["a"] or 1, la["b"] or 1, la["n1"] or 1)
                    else:
                        tr = newick_of(sh, {e: (v if via == "tree" else 1.0) for e, v in la.items()})[0]
                    case = {"model": model, "tree": tr, "len_via": via, "rules": _rules(la, params, via),
                            "aln": _words_for(ntips, thorough)}
                    if model in SOLVED_MODELS and i % 2:
                        # the closed-form P(t) of the predefined nucleotide models (no rate matrix, no exponentiation)
                        case["mkw"] = {"rate_matrix_required": False}
                    if pi:
                        case["pi"] = pi
                        case["pi_via"] = "model" if i % 7 == 0 else "lf"
                    if i % 3 == 0:      # re-evaluate after a parameter change (cached intermediates must follow)
                        e0 = edges[i % len(edges)]
                        upd = [["length", {"edge": e0}, V_LEN[(i // 3) % 4]]]
                        if params:
                            p0 = sorted(params)[i % len(params)]
                            upd.append([p0, {}, round(params[p0] * 1.7 + 0.1, 4)])
                        case["updates"] = [upd]
                    if i % 9 == 5:
                        case.setdefault("updates", []).append(
                            [["alignment", {}, {"words": list("TGCARN-"), "stride": 1 if ntips <= 3 else 11, "dup": 5}]])
                    if i % 9 == 7 and pi and case["pi_via"] == "lf":
                        case.setdefault("updates", []).append([["mprobs", {}, PI_NUC[(PI_NUC.index(pi) + 1) % 3]]])
                    if i % 4 == 1:
                        case["aln_first"] = True
                    if i % 6 == 2:
                        case["aln_class"] = "standard"
                    if i % 8 == 3:
                        case["seq_order"] = sorted("abcde"[:ntips], reverse=True)
                    if anonymous:       # unnamed internal nodes: lengths come with the tree, no rule names them
                        import re
                        case["tree"] = re.sub(r"\)n\d+", ")", case["tree"])
                        case["updates"] = [[["length", {"edge": "a"}, 0.33]]]
                    if i % 11 == 4 and not anonymous and sh != "unary":
                        case = _rename(case, RENAME)
                        case.pop("seq_order", None)
                    yield case
    if thorough:
        # beyond the frontier: random trees on 6-8 tips, random lengths, random columns over every IUPAC symbol
        for j in range(1200):
            ntips = rnd.choice([6, 7, 8])
            tr, la = _random_tree(rnd, ntips)
            model = NUC_MODELS[j % len(NUC_MODELS)]
            names = MODELS[model][3]
            params = {p: round(math.exp(rnd.uniform(math.log(0.05), math.log(20))), 4) for p in names}
            w = [rnd.uniform(0.05, 1) for _ in range(4)]
            pi = {b: round(x / sum(w), 6) for b, x in zip("ACGT", w)}
            pi["T"] = round(1 - pi["A"] - pi["C"] - pi["G"], 6)
            cols = [[rnd.choice(IUPAC if rnd.random() < 0.4 else "ACGT") for _ in range(ntips)] for _ in range(60)]
            case = {"model": model, "tree": tr, "len_via": "rule", "rules": _rules(la, params),
                    "aln": {"columns": cols + cols[:7]}}
            if MODELS[model][2] != "equal":
                case["pi"] = pi
            yield case
    # every IUPAC symbol, small trees
    for j, (tr, nt) in enumerate((("(a:0.3,b:0.1);", 2), ("(a:0.1,b:0.0,c:0.25);", 3), ("((a:0.1,b:0.3)n1:0.2,c:0.4);", 3))):
        for model in NUC_MODELS:
            case = {"model": model, "tree": tr, "len_via": "rule",
                    "rules": _rules({n["name"]: n["length"] for n in S.nodes(S.parse_newick(tr))[1:]},
                                    PARAM_GRID[model][0]),
                    "aln": {"words": list(IUPAC), "stride": 1 if (nt == 2 or thorough) else 5, "dup": 20}}
            if MODELS[model][2] != "equal":
                case["pi"] = PI_NUC[1 + j % 2]
            yield case


def contract_nucleotide(case):
    return run_case(case, "nucleotide")


# ---- bounds of the parameters themselves
def gen_bounds(tier, seed):
    tr = "((a:1,b:1)n1:1,c:1,d:1);"
    edges = ["a", "b", "n1", "c", "d"]
    aln = {"words": list("ACGTNRY-"), "stride": 5}
    vals = [1e-6, 1e-3, 1e3, 1e6]
    for model in ("K80", "HKY85", "TN93", "GTR", "GN", "ssGN"):
        names = MODELS[model][3]
        for pi in ([None] if model == "K80" else PI_NUC[1:]):
            for t in (0.05, 1.0, 10.0):
                la = {e: t for e in edges}
                for j, p in enumerate(names if tier == "thorough" else names[:3]):
                    for v in vals:
                        params = {q: 1.0 + 0.3 * ((j + n) % 3) for n, q in enumerate(names)}
                        params[p] = v
                        case = {"model": model, "tree": tr, "rules": _rules(la, params), "aln": aln}
                        if pi:
                            case["pi"] = pi
                        yield case


def contract_bounds(case):
    return run_case(case, "bounds")


# ---- short alignments: every alignment of <= 3 columns over a small column set (site pattern bookkeeping)
def gen_short(tier, seed):
    rnd = random.Random(seed)
    thorough = tier == "thorough"
    for tr, ntips, symbols in (("(a:0.3,b:0.1);", 2, "ATR-"), ("(a:0.3,b:0.1,c:0.6);", 3, "AG-")):
        cols = ["".join(c) for c in itertools.product(symbols, repeat=ntips)]
        for L in (0, 1, 2, 3):
            alns = list(itertools.product(cols, repeat=L))
            if L == 3 and not thorough:
                alns = rnd.sample(alns, 400)
            elif L == 3 and ntips == 3:
                alns = rnd.sample(alns, 4000)
            for j, a in enumerate(alns):
                yield {"model": "HKY85" if j % 2 else "GN", "tree": tr, "len_via": "tree", "pi": PI_NUC[1],
                       "rules": [["kappa", {}, 2.5]] if j % 2 else [["A>G", {}, 3.0], ["C>T", {}, 0.4]],
                       "aln": {"columns": [list(c) for c in a]}}


def contract_short(case):
    return run_case(case, "short-alignment")


# ---- per-edge scopes
def gen_scoped(tier, seed):
    rnd = random.Random(seed)
    thorough = tier == "thorough"
    trees = [
        ("((a:0.1,b:0.3)n1:0.2,(c:0.4,d:0.05)n2:0.6);", ["a", "b", "n1", "c", "d", "n2"]),
        ("(a:0.1,b:0.3,(c:0.4,d:0.05)n1:0.6);", ["a", "b", "c", "d", "n1"]),
        ("(((a:0.1,b:0.3)n1:0.2,c:0.4)n2:0.15,d:0.05,e:0.7);", ["a", "b", "n1", "c", "n2", "d", "e"]),
        ("(a:0.2,b:0.1,c:0.3,d:0.5);", ["a", "b", "c", "d"]),
    ]
    pvals = [0.2, 1.0, 2.0, 6.5, 14.0]
    i = 0
    for tr, edges in trees:
        tips = [e for e in edges if not e.startswith("n")]
        ntips = len(tips)
        aln = {"words": list("ACGTNRY-"), "stride": 7 if ntips == 4 else 61, "dup": 10}
        scopes = [{"edge": e} for e in edges]
        scopes += [{"edges": list(c)} for c in itertools.combinations(edges, 2)]
        scopes += [{"edges": list(c)} for c in itertools.combinations(edges, 3)][::(1 if thorough else 4)]
        for a, b in itertools.combinations(tips, 2):
            anc = S.mrca(S.parse_newick(tr), a, b)
            for clade, stem in ((True, False), (None, None), (False, True), (True, True), (None, True)):
                if stem and anc["name"] == "root":
                    continue
                sc = {"tip_names": [a, b]}
                if clade is not None:
                    sc["clade"] = clade
                if stem is not None:
                    sc["stem"] = stem
                scopes.append(sc)
            for o in tips:          # the same tip pair read on the unrooted tree, away from an outgroup tip
                if o in (a, b):
                    continue
                for clade, stem in ((True, False), (False, True), (True, True)):
                    _, ambiguous = S.scope_edges_outgroup(S.parse_newick(tr), a, b, o, clade=clade, stem=stem)
                    if ambiguous:
                        continue
                    scopes.append({"tip_names": [a, b], "outgroup_name": o, "clade": clade, "stem": stem})
        for model, par in (("HKY85", "kappa"), ("GTR", "A/G"), ("GN", "C>T"), ("TN93", "kappa_r"), ("ssGN", SSGN_P[3])):
            for sc in scopes:
                i += 1
                if not thorough and model not in ("HKY85", "GN") and i % 3:
                    continue
                base = {p: 1.0 + 0.5 * (n % 3) for n, p in enumerate(MODELS[model][3])}
                rules = [[p, {}, v] for p, v in base.items()]
                sc1 = dict(sc)
                if i % 4 == 0:
                    sc1["independent"] = True
                rules.append([par, sc1, pvals[i % 5]])
                if i % 2:                    # a second, overlapping override
                    rules.append([par, scopes[(i * 7) % len(scopes)], pvals[(i + 2) % 5]])
                if i % 5 == 0:
                    rules.append([par, {"edge": edges[i % len(edges)], "const": True}, pvals[(i + 3) % 5]])
                case = {"model": model, "tree": tr, "len_via": "tree", "pi": PI_NUC[1 + i % 2], "rules": rules,
                        "aln": aln}
                if i % 3 == 0:
                    case["updates"] = [[[par, scopes[(i * 3) % len(scopes)], pvals[(i + 1) % 5]]]]
                if i % 7 == 0:
                    case["rules"].append(["length", {"independent": False}, 0.3])
                yield case
        # set_time_heterogeneity: all (but the excluded) rate parameters, per edge set
        for model in ("HKY85", "TN93", "GTR", "GN"):
            names = MODELS[model][3]
            for j, c in enumerate(itertools.combinations(edges, 2)):
                i += 1
                if not thorough and j % 3:
                    continue
                rest = [e for e in edges if e not in c]
                th = {"edge_sets": [{"edges": list(c)}, {"edges": rest[:2], "init": pvals[(j + 1) % 5]}]}
                if len(names) > 1 and j % 2:
                    th["exclude_params"] = [names[-1]]
                if j % 4 == 0:
                    th["is_independent"] = True
                rules = [[p, {}, 1.0 + 0.5 * (n % 3)] for n, p in enumerate(names)]
                rules.append(["__time_het__", th, pvals[j % 5]])
                if j % 5 == 0:
                    rules.append(["__time_het__", {}, 2.2])         # no edge sets: every edge on its own
                yield {"model": model, "tree": tr, "len_via": "tree", "pi": PI_NUC[1 + j % 2], "rules": rules, "aln": aln}


def contract_scoped(case):
    return run_case(case, "scoped")


# ---- rate heterogeneity bins
def gen_bins(tier, seed):
    thorough = tier == "thorough"
    trees = ["(a:0.3,b:0.1);", "(a:0.1,b:0.3,c:0.25);", "((a:0.1,b:0.3)n1:0.2,c:0.4,d:0.05);",
             "((a:0.1,b:1.3)n1:0.2,(c:0.4,d:0.05)n2:0.6);"]
    i = 0
    for tr in trees:
        ntips = len(S.tip_names(S.parse_newick(tr)))
        aln = {"words": list("ACGTNRY-"), "dup": 10}
        if ntips == 4:
            aln["stride"] = 5
        for model in ("HKY85", "GTR", "GN", "F81", "JC69"):
            base = PARAM_GRID[model][0]
            for nb in (2, 4, 3):
                if nb == 3 and not thorough:
                    continue
                bps = [None, [round(x, 4) for x in numpy.array([1, 2, 3, 4][:nb]) / sum([1, 2, 3, 4][:nb])]]
                configs = []
                for shape in (0.3, 1.0, 4.0):
                    for bp in bps:
                        configs.append(("gamma", shape, bp))
                for part in ([0.1, 0.2, 0.3, 0.4][:nb], [0.4, 0.3, 0.2, 0.1][:nb]):
                    part = [round(p / sum(part), 6) for p in part]
                    part[-1] = round(1 - sum(part[:-1]), 6)
                    for bp in bps:
                        configs.append(("free", part, bp))
                if MODELS[model][3]:
                    configs.append(("perbin", None, None))
                    configs.append(("perbin", None, bps[1]))
                    part = [round(p_ / sum([0.15, 0.2, 0.3, 0.35][:nb]), 6) for p_ in [0.15, 0.2, 0.3, 0.35][:nb]]
                    part[-1] = round(1 - sum(part[:-1]), 6)
                    for bp in bps:
                        configs.append(("ordered", part, bp))
                        configs.append(("partitioned", part[::-1], bp))
                for kind, arg, bp in configs:
                    i += 1
                    if not thorough and i % 2 and model not in ("HKY85",):
                        continue
                    case = {"model": model, "tree": tr, "len_via": "tree", "aln": aln, "lfkw": {"bins": nb}}
                    if MODELS[model][2] != "equal":
                        case["pi"] = PI_NUC[1 + i % 2]
                    rules = [[p, {}, v] for p, v in base.items()]
                    if bp:
                        rules.append(["bprobs", {}, bp])
                    if kind == "gamma":
                        case["mkw"] = {"ordered_param": "rate", "distribution": "gamma"}
                        rules.append(["rate_shape", {}, arg])
                    elif kind == "free":
                        case["mkw"] = {"ordered_param": "rate", "distribution": "free"}
                        rules.append(["rate_partition", {}, arg])
                    elif kind in ("ordered", "partitioned"):
                        p0 = MODELS[model][3][0]
                        case["mkw"] = {"ordered_param": p0} if kind == "ordered" else {"partitioned_params": [p0]}
                        rules.append([p0 + ("_factor_partition" if kind == "ordered" else "_factor_partn_partition"),
                                      {}, arg])
                        rules.append([p0, {"edge": "a"}, 6.0])
                    else:
                        p0 = MODELS[model][3][0]
                        for b in range(nb):
                            rules.append([p0, {"bin": f"bin{b}"}, [0.4, 2.0, 5.5, 11.0][b]])
                    case["rules"] = rules
                    if i % 4 == 0:
                        case["updates"] = [[["length", {"edge": "a"}, 0.77]] +
                                           ([["rate_shape", {}, 2.2]] if kind == "gamma" else [])]
                    yield case


def contract_bins(case):
    return run_case(case, "bins")


# ---- dinucleotide
def _pseudo_probs(keys, salt, lo=0.3):
    """deterministic positive probabilities, rounded so the case text carries exactly what is used"""
    w = [lo + ((i * 7919 + salt * 104729) % 1000) / 1000.0 for i in range(len(keys))]
    tot = sum(w)
    p = [round(x / tot, 8) for x in w]
    p[-1] = round(1.0 - sum(p[:-1]), 8)
    return dict(zip(keys, p))


DINUC_WORDS = ["AA", "CG", "TG", "CA", "GT", "AN", "RC", "-A", "C-", "--", "YG", "NN"]
PI_POSN = [PI_NUC[1], PI_NUC[2], {"A": 0.3, "C": 0.3, "G": 0.15, "T": 0.25}]


def _pi_for(model, salt):
    """motif probabilities in the form the model's mprob option takes; the position-specific option ("posn") is
    fed in its three forms: one vector per position, one vector for all positions, a word distribution"""
    fam, _, pikind, _ = MODELS[model]
    if pikind == "nuc":
        return PI_NUC[(salt + 1) % 3]
    if pikind == "posn":
        k = S.word_length(fam)
        form = salt % 3
        if form == 0:
            return [PI_POSN[(j + salt // 3) % 3] for j in range(k)]
        if form == 1:
            return PI_NUC[1 + (salt // 3) % 2]
    return _pseudo_probs(S.states_of(fam), salt + 1)


def _dinuc_models(thorough):
    base = ["DINUC-tuple", "DINUC-conditional", "DINUC-monomer", "DINUC-nonrev", "DINUC-monomers", "DINUCSUB-monomers",
            "DINUCSUB-monomer"]
    if thorough:
        base += ["DINUC-word", "DINUC-default"] + [f"DINUCSUB-{m}" for m in ("tuple", "word", "conditional", "default")] \
            + [f"DINUCSUB-nonrev-{m}" for m in MPROB_OPTIONS]
    return base


def gen_dinucleotide(tier, seed):
    thorough = tier == "thorough"
    trees = ["(a:0.3,b:0.1);", "(a:0.1,b:0.0,c:0.25);", "((a:0.1,b:0.3)n1:0.2,c:0.4,d:0.001);"]
    states = S.states_of("dinuc")
    i = 0
    for tr in trees:
        tree = S.parse_newick(tr)
        ntips = len(S.tip_names(tree))
        edges = S.edge_names(tree)
        for model in _dinuc_models(thorough):
            names = MODELS[model][3]
            states = S.states_of(MODELS[model][0])
            words = [w for w in DINUC_WORDS if S.compatible(w, MODELS[model][0])]
            old = model in ("DINUC-tuple", "DINUC-conditional", "DINUC-monomer", "DINUC-nonrev")
            for salt in range(3 if (thorough or MODELS[model][2] == "posn") else 2):
                for pv in ([2.5, 4.0, 1.7], [0.4, 9.0, 0.2], [1.0, 1.0, 1.0])[:3 if thorough else (2 if old else 1)]:
                    i += 1
                    pi = _pi_for(model, salt)
                    if ntips == 2:
                        aln = {"words": states + words[5:]} if thorough else \
                            {"words": states + words[5:], "stride": 3}
                    else:
                        aln = {"words": words, "stride": 1 if ntips == 3 else (5 if thorough else 37), "dup": 9}
                    la = {n["name"]: n["length"] for n in S.nodes(tree)[1:]}
                    rules = _rules(la, dict(zip(names, pv)))
                    case = {"model": model, "tree": tr, "pi": pi, "rules": rules, "aln": aln}
                    if i % 3 == 0:
                        case["updates"] = [[[names[0], {"edge": edges[0]}, 6.0]]]
                    if i % 5 == 0 and isinstance(pi, dict):
                        case["pi_via"] = "model"
                    yield case


def contract_dinucleotide(case):
    return run_case(case, "dinucleotide")


# ---- codon
CODON_WORDS = ["ATG", "TGG", "CGA", "AGA", "TTA", "CTG", "GCC", "TAC", "ACN", "TAN", "---", "A-G", "RTG", "NNN",
               "TGY", "CCG", "CGG"]


CODON_WORDS_GC2 = ["ATG", "TGA", "CGA", "ATA", "TTA", "CTG", "GCC", "TAC", "ACN", "TAN", "---", "A-G", "RTG", "NNN",
                   "TGR", "AGN", "CGG"]


def gen_codon(tier, seed):
    thorough = tier == "thorough"
    trees = ["(a:0.3,b:0.1);", "(a:0.1,b:0.3,c:0.25);", "((a:0.1,b:0.0)n1:0.2,c:0.4,d:1.5);"]
    states = S.states_of("codon")
    models = ["MG94HKY", "GY94", "CNFGTR", "MG94GTR", "CNFHKY", "Y98", "GNC", "H04G", "H04GK", "H04GGK",
              "MG94HKY:gc2", "GY94:gc2"] + [f"CODON-{m}" for m in MPROB_OPTIONS] \
        + [f"CODON-nonrev-{m}" for m in MPROB_OPTIONS] \
        if thorough else ["MG94HKY", "CNFGTR", "CODON-monomers"]
    i = 0
    for model in models:
        names = MODELS[model][3]
        states = S.states_of(MODELS[model][0])
        words = CODON_WORDS_GC2 if model.endswith(":gc2") else CODON_WORDS
        for tr in (trees if thorough else trees[1:2]):
            tree = S.parse_newick(tr)
            ntips = len(S.tip_names(tree))
            edges = S.edge_names(tree)
            for salt in range(3 if thorough else 1):
                for om in ((0.25, 2.0) if thorough else (0.25,)):
                    i += 1
                    pi = _pi_for(model, salt) if model.startswith("CODON-") else (
                        PI_NUC[1 + salt % 2] if MODELS[model][2] == "nuc" else _pseudo_probs(states, salt + 3))
                    params = {p: [2.9, 0.6, 1.4, 3.3, 0.8, 1.9, 0.45, 2.2, 1.2, 0.7, 5.0][(n + salt) % 11]
                              for n, p in enumerate(names)}
                    params["omega"] = om
                    if ntips == 2:
                        aln = {"words": states + words[8:], "stride": 7 if thorough else 41, "offset": i % 7}
                    elif ntips == 3:
                        aln = {"words": words, "stride": 5 if thorough else 23, "dup": 7}
                    else:
                        aln = {"words": words, "stride": 97, "dup": 7}
                    la = {n["name"]: n["length"] for n in S.nodes(tree)[1:]}
                    case = {"model": model, "tree": tr, "pi": pi, "rules": _rules(la, params), "aln": aln}
                    if i % 2 == 0:
                        case["rules"].append(["omega", {"edge": edges[-1]}, 4.0])
                    if i % 3 == 0:
                        case["updates"] = [[["omega", {}, 0.9], ["length", {"edge": edges[0]}, 0.5]]]
                    yield case
    # a codon model of one genetic code built after a model of another code in the same process (and the other way round)
    for model, after in (("GY94:gc2", ["GY94"]), ("GY94", ["GY94:gc2"]), ("MG94HKY:gc2", ["MG94HKY", "Y98"]), ("Y98", ["MG94HKY:gc2"]),
                         # two codes with the same NUMBER of sense codons (62) but different sets
                         ("GY94:gc15", ["GY94:gc4"]), ("GY94:gc4", ["GY94:gc15"])):
        names = MODELS[model][3]
        states = S.states_of(MODELS[model][0])
        words = CODON_WORDS_GC2 if model.endswith(":gc2") else CODON_WORDS
        if model.endswith(":gc4"):
            words = CODON_WORDS + ["TGA", "TGT", "TGC", "TTT"]
        elif model.endswith(":gc15"):
            words = CODON_WORDS + ["TAG", "TGT", "TGC", "TTT"]
        for salt in range(2 if thorough else 1):
            pi = PI_NUC[1 + salt % 2] if MODELS[model][2] == "nuc" else _pseudo_probs(states, salt + 3)
            params = {p: [2.9, 0.6, 1.4][(n + salt) % 3] for n, p in enumerate(names)}
            params["omega"] = 0.25
            tree = S.parse_newick(trees[1])
            la = {n["name"]: n["length"] for n in S.nodes(tree)[1:]}
            yield {"model": model, "tree": trees[1], "pi": pi, "rules": _rules(la, params), "after": after,
                   "aln": {"words": words, "stride": 5 if thorough else 11, "dup": 7}}
    # omega site classes (two bins with their own omega)
    for model in (["MG94HKY", "GY94"] if thorough else []):
        names = MODELS[model][3]
        pi = PI_NUC[1] if MODELS[model][2] == "nuc" else _pseudo_probs(S.states_of("codon"), 5)
        rules = [[p, {}, 2.0] for p in names if p != "omega"]
        rules += [["omega", {"bin": "bin0"}, 0.1], ["omega", {"bin": "bin1"}, 3.0], ["bprobs", {}, [0.7, 0.3]]]
        yield {"model": model, "tree": trees[1], "len_via": "tree", "pi": pi, "rules": rules, "lfkw": {"bins": 2},
               "aln": {"words": CODON_WORDS, "stride": 11, "dup": 7}}


def contract_codon(case):
    return run_case(case, "codon")


# ---- protein
PROT_WORDS = list("ACDEFGHIKLMNPQRSTVWY") + ["B", "Z", "X", "-"]


def gen_protein(tier, seed):
    thorough = tier == "thorough"
    trees = ["(a:0.3,b:0.1);", "(a:0.1,b:0.0,c:0.25);", "((a:0.1,b:0.3)n1:0.2,c:0.4,d:1.5);"]
    i = 0
    for model in (["JTT92", "DSO78", "WG01", "AH96", "AH96_mtmammals"] if thorough else ["JTT92", "DSO78"]):
        for tr in trees:
            tree = S.parse_newick(tr)
            ntips = len(S.tip_names(tree))
            la = {n["name"]: n["length"] for n in S.nodes(tree)[1:]}
            for pi in (None, _pseudo_probs(list(S.AMINO), 2), _pseudo_probs(list(S.AMINO), 9, lo=0.02)):
                i += 1
                if ntips == 2:
                    aln = {"words": PROT_WORDS, "dup": 15}
                elif ntips == 3:
                    aln = {"words": PROT_WORDS, "stride": 3 if thorough else 17, "dup": 15}
                else:
                    aln = {"words": PROT_WORDS, "stride": 101 if thorough else 401, "dup": 15}
                case = {"model": model, "tree": tr, "rules": _rules(la, {}), "aln": aln}
                if pi:
                    case["pi"] = pi
                    case["pi_via"] = "lf"
                if i % 2 == 0:
                    case["updates"] = [[["length", {"edge": "a"}, 2.5]]]
                yield case


def contract_protein(case):
    return run_case(case, "protein")


# ---- the likelihoods of all columns add up to one (no oracle needed)
def gen_sums(tier, seed):
    thorough = tier == "thorough"
    i = 0
    for sh in SHAPES:
        edges = shape_edges(sh)
        ntips = sum(1 for e in edges if not e.startswith("n"))
        for r in range(4 if thorough else 2):
            la = {e: [0.0, 1e-3, 0.1, 1.5, 0.4][(k + r) % 5] for k, e in enumerate(edges)}
            tr = newick_of(sh, {e: 1.0 for e in edges})[0]
            for model in NUC_MODELS:
                i += 1
                grid = PARAM_GRID[model]
                case = {"model": model, "tree": tr, "rules": _rules(la, grid[i % len(grid)]),
                        "aln": {"words": list("ACGT")}}
                if MODELS[model][2] != "equal":
                    case["pi"] = PI_NUC[i % 3]
                if i % 4 == 0 and MODELS[model][3]:
                    p0 = MODELS[model][3][0]
                    case["lfkw"] = {"bins": 2}
                    case["rules"] += [[p0, {"bin": "bin0"}, 0.5], [p0, {"bin": "bin1"}, 4.0], ["bprobs", {}, [0.35, 0.65]]]
                elif i % 4 == 1:
                    case["lfkw"] = {"bins": 4}
                    case["mkw"] = {"ordered_param": "rate", "distribution": "gamma"}
                    case["rules"] += [["rate_shape", {}, 0.5]]
                yield case
    others = [("DINUC-tuple", "(a:0.3,b:0.1);"), ("DINUC-conditional", "(a:0.3,b:0.1,c:0.7);"),
              ("DINUC-monomer", "(a:0.3,b:0.0);"), ("DINUC-nonrev", "(a:0.3,b:0.1);"),
              ("JTT92", "(a:0.3,b:0.1);"), ("DSO78", "(a:0.3,b:0.1,c:0.2);"), ("MG94HKY", "(a:0.3,b:0.1);"),
              # the mprob_model option on alphabets that are not all k-mers (61 sense codons, a motifs= subset)
              ("CODON-monomers", "(a:0.3,b:0.1);"), ("DINUCSUB-monomers", "(a:0.3,b:0.1,c:0.7);"),
              ("DINUCSUB-monomer", "(a:0.3,b:0.1);"), ("DINUCSUB-conditional", "(a:0.3,b:0.0);"),
              ("DINUCSUB-nonrev-monomers", "(a:0.3,b:0.1);"), ("DINUC-monomers", "(a:0.3,b:0.1,c:0.2);")]
    if thorough:
        others += [("GY94", "(a:0.3,b:0.1);"), ("CNFGTR", "(a:0.3,b:0.1);"), ("GNC", "(a:0.3,b:0.1);"),
                   ("WG01", "(a:0.3,b:0.1);"), ("AH96", "(a:0.3,b:0.1,c:0.2);")]
        others += [(f"CODON-{m}", "(a:0.3,b:0.1);") for m in MPROB_OPTIONS]
        others += [(f"CODON-nonrev-{m}", "(a:0.2,b:0.0);") for m in MPROB_OPTIONS]
        others += [(f"DINUCSUB-{m}", "(a:0.3,b:0.1,c:0.7);") for m in MPROB_OPTIONS]
        others += [(f"DINUCSUB-nonrev-{m}", "(a:0.3,b:0.1);") for m in MPROB_OPTIONS]
        others += [(f"DINUC-{m}", "(a:0.3,b:0.1);") for m in ("word", "default")]
    seen = set()
    for model, tr in others:
        fam, _, pikind, names = MODELS[model]
        states = S.states_of(fam)
        tree = S.parse_newick(tr)
        la = {n["name"]: n["length"] for n in S.nodes(tree)[1:]}
        params = {p: [2.9, 0.6, 1.4, 3.3, 0.8, 1.9, 0.45, 2.2, 1.2, 0.7, 5.0, 0.3][n % 12] for n, p in enumerate(names)}
        for salt in (range(3) if pikind == "posn" else (3,)):     # "monomers": all three ways of giving the probs
            if (model, tr, salt) in seen or (salt and not thorough and fam == "codon"):
                continue
            seen.add((model, tr, salt))
            case = {"model": model, "tree": tr, "rules": _rules(la, params), "aln": {"words": states}}
            if fam != "protein":
                case["pi"] = _pi_for(model, salt) if pikind == "posn" else (
                    PI_NUC[1] if pikind == "nuc" else _pseudo_probs(states, 4))
            yield case


def contract_sums(case):
    warnings.filterwarnings("ignore")
    model = case["model"]
    try:
        lf, rows = build_lf(case)
        got = numpy.asarray(lf.get_full_length_likelihoods(), float)
    except Exception as e:
        return ("fail", f"sums-to-one/{model}/raises {type(e).__name__}", f"{_short(case)}: {type(e).__name__}: {e}")
    fam = MODELS[model][0]
    ntips = len(rows)
    n = len(S.states_of(fam)) ** ntips
    if got.shape != (n,):
        return ("fail", f"sums-to-one/{model}/shape", f"{_short(case)}: {got.shape} likelihoods for {n} columns")
    tot = float(got.sum())
    if not (abs(tot - 1.0) <= 1e-9) or (got < -ATOL).any():
        kind = "bins" if (case.get("lfkw") or {}).get("bins") else "single-process"
        return ("fail", f"sums-to-one/{model}/{kind}/total-differs-from-one",
                f"{_short(case)}: the likelihoods of all {n} columns add up to {tot!r}")
    return ("ok", True)


# ================================================================================================ read-only calls leave lnL alone
RO_CALLS = ["get_statistics", "get_param_rules", "get_motif_probs", "get_lengths_as_ens", "get_annotated_tree", "to_rich_dict",
            "get_full_length_likelihoods", "get_bin_probs", "reconstruct_ancestral_seqs", "likely_ancestral_seqs",
            "get_rate_matrix_for_edge", "get_psub_for_edge", "get_all_psubs", "get_all_rate_matrices", "get_num_free_params",
            "get_log_likelihood", "get_aic", "get_bic", "get_ens"]


def gen_readonly(tier, seed):
    for model in ("HKY85", "GN", "HKY85+bins"):
        for loci in (1, 2):
            for call in RO_CALLS:
                yield [model, loci, call]


def contract_readonly(case):
    """a read-only call -- whether it succeeds or raises (e.g. for want of a locus argument on a multi-locus function) --
    leaves the reported log-likelihood where it was"""
    import warnings
    warnings.filterwarnings("ignore")
    from cogent3 import get_model, make_aligned_seqs, make_tree
    model, loci, call = case
    tree = make_tree("((a:0.1,b:0.25)x:0.3,c:0.2,d:0.05);")
    rows1 = {"a": "ACGTRAACGTAGCTAAGC", "b": "ACGTAAYCGTAGTTAAGC", "c": "ATGTGACCGTCGCTAAGA", "d": "CCGTAAGCG-AGCTNAGC"}
    rows2 = {"a": "TTGACCAGTACA", "b": "TTGACCAGAACA", "c": "TCGACTAGTACA", "d": "TTGCCCAGTACG"}
    kw = {}
    if model == "HKY85+bins":
        sm = get_model("HKY85", ordered_param="rate", distribution="gamma")
        kw["bins"] = 2
    else:
        sm = get_model(model)
    try:
        if loci == 1:
            lf = sm.make_likelihood_function(tree, **kw)
            lf.set_alignment(make_aligned_seqs(rows1, moltype="dna"))
        else:
            lf = sm.make_likelihood_function(tree, loci=["l1", "l2"], **kw)
            lf.set_alignment([make_aligned_seqs(rows1, moltype="dna"), make_aligned_seqs(rows2, moltype="dna")])
        for i, p_ in enumerate(sorted(sm.get_param_list())):
            lf.set_param_rule(p_, init=(2.5, 0.6, 1.7, 3.1)[i % 4])
        before = float(lf.lnL)
    except Exception:
        return ("skip",)
    outcome = "returns"
    try:
        fn = getattr(lf, call)
        if call in ("get_rate_matrix_for_edge", "get_psub_for_edge"):
            fn("a")
        elif call in ("get_aic", "get_bic"):
            fn()
        else:
            fn()
    except AttributeError:
        return ("skip",)
    except Exception as e:
        outcome = f"raises-{type(e).__name__}"
    try:
        after = float(lf.lnL)
    except Exception as e:
        return ("fail", f"readonly/{call}/lnL-raises-afterwards/{outcome}/loci={loci}", f"{case}: lnL was {before!r}; after {call}() ({outcome}) "
                f"reading lnL raises {type(e).__name__}: {str(e)[:160]}")
    if abs(after - before) > 1e-9 * max(1.0, abs(before)):
        return ("fail", f"readonly/{call}/lnL-changed/{outcome}/loci={loci}", f"{case}: lnL was {before!r}; after {call}() ({outcome}) it is {after!r}")
    return ("ok", True)


BOUNDED = {
    "readonly_calls": {
        "gen": gen_readonly, "contract": contract_readonly,
        "functions": ["LikelihoodFunction.reconstruct_ancestral_seqs / likely_ancestral_seqs / get_full_length_likelihoods / "
                      "get_statistics / get_param_rules / to_rich_dict / get_all_psubs / ... (19 read-only methods)"],
        "bound": "HKY85, GN, HKY85 with 2 gamma rate classes x 1 or 2 loci x 19 read-only methods, each called once without "
                 "arguments (edge 'a' where an edge is required)",
        "rule": "whether the call returns or raises, the log-likelihood reported afterwards equals the one reported before "
                "(relative 1e-9)",
        "shards": 8,
    },
    "nucleotide": {
        "gen": gen_nucleotide, "contract": contract_nucleotide,
        "functions": ["LikelihoodFunction.get_log_likelihood", "LikelihoodFunction.get_full_length_likelihoods",
                      "likelihood_calculation.make_total_loglikelihood_defn", "likelihood_tree.LikelihoodTreeEdge",
                      "likelihood_tree.make_likelihood_tree_leaf", "likelihood_tree_numba.*",
                      "substitution_model.Parametric.calcQ / StationaryQ.calcQ", "models.JC69..ssGN",
                      "parameter_controller.set_param_rule / set_motif_probs / set_alignment"],
        "bound": "all 20 rooted tree shapes on 2-5 tips (polytomies at and below the root) + one unary internal node; "
                 "branch lengths from {0,1e-3,0.1,1.5}: all assignments up to 4 edges, else constant/rotated/one-edge-"
                 "special (+12 random, thorough); models JC69 F81 K80 HKY85 TN93 GTR GN ssGN x 3-4 parameter settings x "
                 "3 motif-probability vectors (rotated through in quick, partly crossed in thorough); every column over "
                 "ACGTNRY- for <=3 tips (4 and 5 tips: every 3rd / 61st column in quick, all 4096 / 32768 in thorough; "
                 "quick also halves the length assignments of the 4-edge trees), "
                 "with repeated out-of-order columns; every IUPAC symbol ACGTRYMKSWBDHVN-? on 2-3 tips; every third case "
                 "re-evaluated after changing a length and a rate parameter, some after replacing the alignment or the "
                 "motif probs; call-shape variants: lengths through the tree or through rules, motif probs through the "
                 "model or the lf, alignment before/after motif probs, Alignment/ArrayAlignment, reversed sequence "
                 "order, other tip names, unnamed internal nodes; thorough: + 1200 seeded random cases on random trees "
                 "with 6-8 tips (polytomies, random lengths incl. 0), log-uniform parameters in [0.05,20], random motif "
                 "probs, 60 random columns over all IUPAC symbols",
        "rule": "a case = (model, tree with lengths, parameter rules, motif probs, alignment description); non-trivial "
                "when some branch length is positive; distinct by hash of the case",
    },
    "bounds": {
        "gen": gen_bounds, "contract": contract_bounds,
        "functions": ["same entry points; rate parameters at their documented bounds 1e-6 / 1e6 and lengths at 10"],
        "bound": "4-tip tree, lengths {0.05,1,10}, each rate parameter of K80/HKY85/TN93/GTR/GN/ssGN in turn at "
                 "{1e-6,1e-3,1e3,1e6}, 2 motif-probability vectors, every 5th column over ACGTNRY-",
        "rule": "as nucleotide",
    },
    "short_alignments": {
        "gen": gen_short, "contract": contract_short,
        "functions": ["likelihood_tree._indexed", "LikelihoodTreeEdge.get_log_sum_across_sites / get_full_length_likelihoods"],
        "bound": "every alignment of 0-3 columns over symbols ATR- (2 tips) and AG- (3 tips); length 3 sampled in quick "
                 "(400) and for 3 tips (4000); HKY85 and GN alternate",
        "rule": "as nucleotide",
    },
    "scoped": {
        "gen": gen_scoped, "contract": contract_scoped,
        "functions": ["parameter_controller._LikelihoodParameterController.set_param_rule / _process_scope_info",
                      "PhyloNode.get_edge_names (clade / stem scopes)"],
        "bound": "4 trees (4-5 tips, rooted/unrooted/nested/star); a rate parameter of HKY85 GTR GN TN93 ssGN overridden "
                 "on every single edge, every pair of edges, (every 4th) triple of edges, and every clade/stem scope of "
                 "every tip pair, also read on the unrooted tree away from an outgroup tip (outgroup_name); optional "
                 "second overlapping override, constant override, is_independent, shared length, and update; "
                 "set_time_heterogeneity over pairs of edge sets (exclude_params, is_independent, no edge sets)",
        "rule": "as nucleotide",
    },
    "bins": {
        "gen": gen_bins, "contract": contract_bins,
        "functions": ["likelihood_calculation.BinnedSiteDistribution / BinnedLikelihood",
                      "substitution_model._ContinuousSubstitutionModel.make_rate_params / make_distance_defn",
                      "recalculation.definition.GammaDefn / MonotonicDefn",
                      "LikelihoodFunction._getLikelihoodValuesSummedAcrossAnyBins"],
        "bound": "4 trees (2-4 tips) x HKY85 GTR GN F81 JC69 x 2 and 4 bins (3 in thorough) x {gamma rates with shape "
                 "0.3/1/4, free ordered rates (2 partitions), a rate parameter per bin, an ordered_param / "
                 "partitioned_params rate parameter (bin factor x per-edge value)} x equal / unequal bin probabilities; "
                 "all columns over ACGTNRY- (every 5th for 4 tips)",
        "rule": "as nucleotide",
    },
    "dinucleotide": {
        "gen": gen_dinucleotide, "contract": contract_dinucleotide,
        "functions": ["substitution_model.TimeReversibleDinucleotide", "ns_substitution_model.NonReversibleDinucleotide",
                      "motif_prob_model.SimpleMotifProbModel / ConditionalMotifProbModel / MonomerProbModel / "
                      "PosnSpecificMonomerProbModel", "_SubstitutionModel(motifs=...)"],
        "bound": "3 trees (2-4 tips, one zero and one 1e-3 length) x {tuple, conditional, monomer, non-reversible} "
                 "dinucleotide models with kappa and a CpG term x 2-3 motif-probability vectors x 2-3 parameter settings; "
                 "2 tips: all 16+7 words squared; 3-4 tips: columns over 12 words incl. AN RC -A C- -- YG NN; the "
                 "mprob_model option: monomers (position-specific; probs given per position / one vector / a word "
                 "distribution) on the full alphabet and, with monomer, on a motifs= sub-alphabet of 14 words in quick; "
                 "thorough: every accepted value (tuple word conditional None monomer monomers) on the sub-alphabet, "
                 "reversible and non-reversible",
        "rule": "as nucleotide",
    },
    "codon": {
        "gen": gen_codon, "contract": contract_codon, "shards": 16,
        "functions": ["substitution_model.TimeReversibleCodon", "ns_substitution_model.NonReversibleCodon",
                      "models.MG94HKY MG94GTR GY94 Y98 CNFGTR CNFHKY GNC H04G H04GK H04GGK", "motif_prob_model.*"],
        "bound": "quick: MG94HKY, CNFGTR and TimeReversibleCodon(mprob_model='monomers') on a 3-tip tree; thorough: "
                 "TimeReversibleCodon / NonReversibleCodon with every accepted mprob_model (tuple word conditional None "
                 "monomer monomers; monomers fed per position / one vector / word distribution), and 10 codon models (H04G/H04GK/H04GGK: either reading of the "
                 "CpG term for CCG<->CGG accepted) + MG94HKY, GY94 under genetic code 2 "
                 "x 3 trees (2-4 tips, one zero length) x 3 motif-probability vectors x omega {0.25,2} with optional "
                 "per-edge omega and update, plus two-bin omega site classes; columns over the sense codons + ACN TAN "
                 "--- A-G RTG NNN TGY (strided)",
        "rule": "as nucleotide",
    },
    "protein": {
        "gen": gen_protein, "contract": contract_protein,
        "functions": ["substitution_model.Empirical / EmpiricalProteinMatrix", "models.JTT92 DSO78 WG01 AH96 AH96_mtmammals"],
        "bound": "JTT92, DSO78 (+WG01, AH96, AH96_mtmammals thorough) x 3 trees (2-4 tips) x {published, 2 other} frequency vectors; "
                 "columns over 20 residues + B Z X - (all for 2 tips, strided above)",
        "rule": "as nucleotide",
    },
    "sums_to_one": {
        "gen": gen_sums, "contract": contract_sums,
        "functions": ["LikelihoodFunction.get_full_length_likelihoods"],
        "bound": "all 20 tree shapes on 2-5 tips x 2 (4 thorough) length assignments from {0,1e-3,0.1,0.4,1.5} x 8 "
                 "nucleotide models (every 4th with 2 per-bin parameters, every 4th with 4 gamma bins): all 4^k columns; "
                 "dinucleotide (2-3 tips), protein (2-3 tips), codon (2 tips): all |states|^k columns; the mprob_model "
                 "option on alphabets that are not all k-mers: quick TimeReversibleCodon monomers (61^2 columns), "
                 "dinucleotide motifs= subset (14 words) with monomers / monomer / conditional / non-reversible monomers; "
                 "thorough every accepted mprob_model x {codon, non-reversible codon, subset, non-reversible subset}",
        "rule": "a case = (model, tree, parameters); always non-trivial; distinct by hash of the case",
    },
}
