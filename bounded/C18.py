"""Bounded run-time contracts for C18 -- aligners preserve their inputs and are optimal for their own model
(stand-in tier; never counted as proved).

Contract text
  pairwise (global_pairwise / local_pairwise / classic_align_pairwise, smith_waterman app):
     rows carry the input names, have equal length, contain no all-gap column, degap to the inputs (local: to a
     contiguous part of each input); the reported score == speclib.c18_spec.path_score(returned rows) (pair HMM
     of classic_gap_scores(d, e) + exp(Sd) odds-ratio emissions, written out independently); no alignment found by
     plain enumeration of ALL alignments scores higher; the same holds with pairwise.HIRSCHBERG_LIMIT forced to 0
     (linear space) and the two reported scores agree.  Ties between equally scoring paths are left open.
  pairwise_to_multiple / align_to_ref: equal-length rows that degap to the inputs; the multiple alignment projected
     onto (ref, s) minus all-gap columns == the pairwise alignment of s with ref.
  progressive_align / tree_align: equal-length rows, same names, degapped rows == inputs.
"""
from __future__ import annotations

import functools
import itertools
import math
import random
import re

from speclib import c18_spec as sp

TOL = 1e-6
BIG = 10 ** 8

# ------------------------------------------------------------------------------------------------ inputs
PROT = "ACDEFGHIKLMNPQRSTUVWY"      # the 21 letters of cogent3's protein alphabet


def dna_matrix(match, transition, transversion):
    S = {}
    for a in "ACGT":
        for b in "ACGT":
            S[a, b] = match if a == b else (transition if (a in "AG") == (b in "AG") else transversion)
    return S


def asym_matrix():
    """a deliberately non-symmetric table: S[a, b] != S[b, a] for every a != b"""
    S = {}
    for i, a in enumerate("ACGT"):
        for j, b in enumerate("ACGT"):
            S[a, b] = 6 if a == b else (2 + i - j if i < j else -3 - (i - j))
    return S


SCHEMES = {
    "dna10": ("dna", dna_matrix(10, -1, -8)),
    "dna2": ("dna", dna_matrix(2, -1, -3)),
    "dna1": ("dna", dna_matrix(1, -1, -1)),
    "asym": ("dna", asym_matrix()),
    # non-integer scores ("all scoring matrices"): added by the reviewer after seeded change C18-s1 (score array
    # allocated with an integer dtype) went unnoticed by the integer-only schemes
    "frac": ("dna", dna_matrix(2.5, -0.5, -1.5)),
    "frac2": ("dna", dna_matrix(0.9, -0.9, -0.9)),
    "prot": ("protein", {(a, b): (10 if a == b else -1) for a in PROT for b in PROT}),
    # a caller's own protein table, unlike every default of the library (seeded change C18-s6 swapped the table supplied for a
    # non-DNA moltype for the generic 10 / -1 one, which the scheme above cannot tell apart)
    "prot2": ("protein", {(a, b): (6 if a == b else 3 if {a, b} == {"K", "V"} else -2) for a in PROT for b in PROT}),
}
NLETTERS = {"dna": 4, "protein": 21}
GAPS = [[10, 2], [3, 1], [0.5, 2]]
GAPS_MORE = GAPS + [[20, 2], [1, 0], [0, 0], [6, 6]]
SYM = ["dna10", "dna2", "dna1"]
COMBOS = [[s, g] for s in SYM for g in GAPS]


def words(alpha, lo, hi):
    return ["".join(p) for L in range(lo, hi + 1) for p in itertools.product(alpha, repeat=L)]


def rword(rnd, lo, hi, alpha="ACGT"):
    return "".join(rnd.choice(alpha) for _ in range(rnd.randint(lo, hi)))


@functools.lru_cache(maxsize=4096)
def seq(s, name, mt):
    from cogent3 import make_seq
    return make_seq(s, name=name, moltype=mt)


def gen_pairs(tier, seed, local):
    """[x, y, scheme, [d, e], via]"""
    rnd = random.Random(seed * 1000 + (7 if local else 3))
    thorough = tier == "thorough"
    w3 = words("ACGT", 1, 3)
    i = 0
    for x in w3:
        for y in w3:
            if thorough:
                for c in COMBOS:
                    yield [x, y, c[0], c[1], "func"]
            else:
                c = COMBOS[i % 9]
                yield [x, y, c[0], c[1], "func"]
            i += 1
    # length 4: exhaustive over the three letters A, C, G (transition and transversions) in thorough, sample otherwise
    w4 = words("ACG", 1, 4)
    pairs4 = [(x, y) for x in w4 for y in w4 if max(len(x), len(y)) == 4]
    if not thorough:
        pairs4 = rnd.sample(pairs4, 700)
    for k, (x, y) in enumerate(pairs4):
        c = COMBOS[k % 9]
        yield [x, y, c[0], c[1], "func"]
    for k in range(20000 if thorough else 500):
        x, y = rword(rnd, 1, 4), rword(rnd, 1, 4)
        if max(len(x), len(y)) < 4:
            x = rword(rnd, 4, 4)
        c = COMBOS[k % 9]
        yield [x, y, c[0], c[1], "func"]
    # non-symmetric scoring table
    wa = words("ACGT", 1, 3 if thorough else 2)
    k = 0
    for x in wa:
        for y in wa:
            yield [x, y, "asym", GAPS[k % 3], "func"]
            k += 1
    for k in range(1500 if thorough else 150):
        yield [rword(rnd, 3, 4), rword(rnd, 1, 4), "asym", GAPS[k % 3], "func"]
    # non-integer scoring tables
    wf = words("ACGT", 1, 3 if thorough else 2)
    k = 0
    for x in wf:
        for y in wf:
            yield [x, y, ("frac", "frac2")[k % 2], GAPS[k % 3], "func"]
            k += 1
    for k in range(3000 if thorough else 300):
        yield [rword(rnd, 2, 5), rword(rnd, 2, 5), ("frac", "frac2")[k % 2], GAPS_MORE[k % len(GAPS_MORE)], "func"]
    # protein letters
    for k in range(2500 if thorough else 150):
        yield [rword(rnd, 1, 4, "MKVLU"), rword(rnd, 1, 4, "MKVLU"), "prot", GAPS_MORE[k % len(GAPS_MORE)], "func"]
    # the smith_waterman app (local only)
    if local:
        for k in range(1500 if thorough else 150):
            yield [rword(rnd, 1, 5), rword(rnd, 1, 5), SYM[k % 3], GAPS_MORE[k % len(GAPS_MORE)], "app"]
        # the app with a caller-supplied matrix on another moltype than DNA (the matrix must be the one used)
        for k in range(600 if thorough else 80):
            yield [rword(rnd, 1, 5, "MKVLU"), rword(rnd, 1, 5, "MKVLU"), ("prot2", "prot")[k % 4 == 3], GAPS_MORE[k % len(GAPS_MORE)], "app"]
            if k % 2:
                yield [rword(rnd, 1, 4, "MKVLU"), rword(rnd, 1, 4, "MKVLU"), "prot2", GAPS_MORE[k % len(GAPS_MORE)], "func"]
    # beyond the frontier: length 5 (still enumerated) and longer (optimum by the spec's own recurrence)
    for k in range(2500 if thorough else 150):
        yield [rword(rnd, 1, 5), rword(rnd, 5, 5) if k % 2 else rword(rnd, 1, 5), SYM[k % 3],
               GAPS_MORE[k % len(GAPS_MORE)], "func"]
    if not local:
        for k in range(2500 if thorough else 200):
            alpha = "ACGT" if k % 3 else "AC"
            hi = 30 if thorough else 14
            yield [rword(rnd, 3, hi, alpha), rword(rnd, 1, hi, alpha), SYM[k % 3], GAPS_MORE[k % len(GAPS_MORE)], "func"]
        # identical / one-letter-repeat pairs (many ties)
        for L in range(3, 13 if thorough else 9):
            for c in COMBOS[::2]:
                yield ["A" * L, "A" * (L - 1), c[0], c[1], "func"]
                yield ["ACGT" * 3, ("ACGT" * 3)[:L], c[0], c[1], "func"]


def gen_global(tier, seed):
    return gen_pairs(tier, seed, False)


def gen_local(tier, seed):
    return gen_pairs(tier, seed, True)


# ------------------------------------------------------------------------------------------------ pairwise
def transposed(S):
    return {(a, b): S[b, a] for (a, b) in S}


def check_pair(tag, local, x, y, S, d, e, nl, rows, score, want_names, msg0):
    """all clauses for one returned (alignment rows, score); -> None or ('fail', key, message)"""
    def fail(k, m):
        return ("fail", f"{tag}/{k}", f"{msg0}: {m}")
    if sorted(rows) != sorted(want_names):
        return fail("row-names", f"names {sorted(rows)} expected {sorted(want_names)}")
    r1, r2 = rows[want_names[0]], rows[want_names[1]]
    if len(r1) != len(r2):
        return fail("ragged-rows", f"rows {r1!r} {r2!r}")
    st = sp.columns(r1, r2)
    if st is None:
        return fail("all-gap-column", f"rows {r1!r} {r2!r}")
    g1, g2 = r1.replace("-", ""), r2.replace("-", "")
    if local:
        if not g1 or not g2 or g1 not in x or g2 not in y:
            return fail("degapped-row-not-a-contiguous-part-of-input", f"rows {r1!r} {r2!r}")
    elif g1 != x or g2 != y:
        return fail("degapped-row-not-input", f"rows {r1!r} {r2!r}")
    try:
        score = float(score)
    except Exception:
        return fail("score-not-a-number", f"score {score!r}")
    if math.isnan(score):
        return fail("score-is-nan", f"rows {r1!r} {r2!r}")
    mine = sp.path_score(r1, r2, S, d, e, nl, local)
    if len(x) <= 5 and len(y) <= 5:
        best = (sp.best_local if local else sp.best_global)(x, y, S, d, e, nl)[0]
        how = "enumeration of all alignments"
    elif not local:
        best = sp.best_global_dp(x, y, S, d, e, nl)
        how = "spec recurrence"
    else:
        best = None
    if mine == sp.NEG:
        why = "gap in one row directly followed by gap in the other" if ("XY" in st or "YX" in st) else \
            "local path must begin and end with a letter pair"
        return fail(f"path-impossible-under-model({why})",
                    f"rows {r1!r} {r2!r} reported score {score!r}; best possible {best!r}")
    if abs(mine - score) > TOL:
        note = ""
        if any(S[a, b] != S[b, a] for (a, b) in S):
            if abs(sp.path_score(r1, r2, transposed(S), d, e, nl, local) - score) <= TOL:
                note = "(reported is the path score under the transposed table S[b,a])"
        if not note and best is not None and abs(best - score) <= TOL:
            note = "(reported is the optimum, returned path is not)"
        return fail(f"reported-score-not-path-score{note}",
                    f"rows {r1!r} {r2!r} reported {score!r}, path score by spec {mine!r}, optimum {best!r}")
    if best is not None and mine < best - TOL:
        note = ""
        if any(S[a, b] != S[b, a] for (a, b) in S):
            St = transposed(S)
            bt = (sp.best_local if local else sp.best_global)(x, y, St, d, e, nl)[0] if max(len(x), len(y)) <= 5 else None
            if bt is not None and abs(sp.path_score(r1, r2, St, d, e, nl, local) - bt) <= TOL:
                note = "(path is optimal for the transposed table S[b,a])"
        return fail(f"path-not-optimal{note}", f"rows {r1!r} {r2!r} score {mine!r} < best {best!r} ({how})")
    if best is not None and mine > best + TOL:
        return ("fail", "SPEC-SELFCHECK/path-better-than-enumerated-optimum", f"{msg0}: {mine} > {best}")
    if not local and how == "enumeration of all alignments" and len(x) + len(y) <= 7:
        # keeps the spec recurrence (used beyond the enumeration frontier) honest
        if abs(sp.best_global_dp(x, y, S, d, e, nl) - best) > 1e-9:
            return ("fail", "SPEC-SELFCHECK/recurrence-differs-from-enumeration", msg0)
    return None


def run_pair(local, s1, s2, S, d, e, limit):
    import cogent3.align.pairwise as pw
    from cogent3.align.align import global_pairwise, local_pairwise
    old = pw.HIRSCHBERG_LIMIT
    pw.HIRSCHBERG_LIMIT = limit
    try:
        aln, score = (local_pairwise if local else global_pairwise)(s1, s2, S, d, e, return_score=True)
    finally:
        pw.HIRSCHBERG_LIMIT = old
    return {k: str(v) for k, v in aln.to_dict().items()}, score


def contract_pair(case, local):
    x, y, scheme, (d, e), via = case
    mt, S = SCHEMES[scheme]
    nl = NLETTERS[mt]
    kind = "local" if local else "global"
    extra = "/asym-matrix" if scheme == "asym" else ""
    msg0 = f"{kind} x={x!r} y={y!r} scheme={scheme} d={d} e={e}"
    nontrivial = (len(x) > 1 or len(y) > 1)
    if via == "app":
        from cogent3 import get_app, make_unaligned_seqs
        tag = f"smith_waterman-app{extra}"
        try:
            app = get_app("smith_waterman", score_matrix=S, insertion_penalty=d, extension_penalty=e, moltype=mt)
            res = app(make_unaligned_seqs({"x": x, "y": y}, moltype=mt))
            rows = {k: str(v) for k, v in res.to_dict().items()}
            score = res.info["align_params"]["sw_score"]
        except Exception as ex:
            return ("fail", f"{tag}/raises/{type(ex).__name__}", f"{msg0}: {type(ex).__name__}: {str(ex)[:200]}")
        r = check_pair(tag, True, x, y, S, d, e, nl, rows, score, ["x", "y"], msg0)
        return r or ("ok", nontrivial)
    s1, s2 = seq(x, "x", mt), seq(y, "y", mt)
    modes = [("full-dp", BIG)]
    if not local and len(x) >= 3:       # the linear-space branch needs at least three rows
        modes.append(("hirschberg", 0))
    got = {}
    for mode, limit in modes:
        tag = f"{kind}/{mode}{extra}"
        try:
            rows, score = run_pair(local, s1, s2, S, d, e, limit)
        except Exception as ex:
            return ("fail", f"{tag}/raises/{type(ex).__name__}", f"{msg0}: {type(ex).__name__}: {str(ex)[:200]}")
        r = check_pair(tag, local, x, y, S, d, e, nl, rows, score, ["x", "y"], msg0)
        if r:
            return r
        got[mode] = (rows, float(score))
    if len(got) == 2 and abs(got["full-dp"][1] - got["hirschberg"][1]) > TOL:
        return ("fail", f"global/hirschberg-vs-full-dp{extra}/reported-scores-differ",
                f"{msg0}: full {got['full-dp']} linear-space {got['hirschberg']}")
    return ("ok", nontrivial)


def contract_global(case):
    return contract_pair(case, False)


def contract_local(case):
    return contract_pair(case, True)


# ------------------------------------------------------------------------------------------------ pairwise_to_multiple
def pairwise_patterns(maxlen):
    cols = [("x", "y"), ("x", "-"), ("-", "y")]
    for L in range(1, maxlen + 1):
        for combo in itertools.product(cols, repeat=L):
            r, o = "".join(c[0] for c in combo), "".join(c[1] for c in combo)
            if "x" in r and "y" in o:       # both sequences non-empty
                yield r, o


def fill(g, letters):
    it = iter(letters)
    return "".join(next(it) if c != "-" else "-" for c in g)


REFLET = "ACGTAC"
OTHLET = ["TTTTTT", "GGGGGG", "CCCCCC"]


def gen_p2m(tier, seed):
    """[[refrow, otherrow], ...] -- pairwise alignments that share the degapped reference"""
    rnd = random.Random(seed * 1000 + 11)
    thorough = tier == "thorough"
    maxlen = 5 if thorough else 4
    groups = {}
    for r, o in pairwise_patterns(maxlen):
        groups.setdefault(r.count("x"), []).append((r, o))
    for L, alns in sorted(groups.items()):
        for r, o in alns:
            yield [[fill(r, REFLET), fill(o, OTHLET[0])]]
        pairs = itertools.product(alns, repeat=2)
        for (r1, o1), (r2, o2) in pairs:
            yield [[fill(r1, REFLET), fill(o1, OTHLET[0])], [fill(r2, REFLET), fill(o2, OTHLET[1])]]
    # three pairwise alignments, and longer ones: seeded sample
    pool6 = {}
    for r, o in pairwise_patterns(6 if thorough else 5):
        pool6.setdefault(r.count("x"), []).append((r, o))
    keys = sorted(pool6)
    for _ in range(12000 if thorough else 800):
        L = rnd.choice(keys)
        n = rnd.choice((2, 3, 3))
        pick = [rnd.choice(pool6[L]) for _ in range(n)]
        yield [[fill(r, REFLET), fill(o, OTHLET[i])] for i, (r, o) in enumerate(pick)]


def gap_pattern(ro, so, got):
    """witness pattern of a wrong projection: which row of the pair is changed, and whether the sequence's own row
    in the pairwise alignment has gaps"""
    which = "residue-lands-in-a-reference-gap-column" if got[0] != ro else "residue-paired-with-another-reference-residue"
    own = "sequence-row-has-gaps" if "-" in so else "sequence-row-gapless"
    return f"{which}/{own}"


def contract_p2m(case):
    from cogent3 import make_aligned_seqs
    from cogent3.app.align import pairwise_to_multiple
    names = [f"s{i + 1}" for i in range(len(case))]
    refseq = case[0][0].replace("-", "")
    for r, o in case:
        if r.replace("-", "") != refseq or not refseq or not o.replace("-", "") or sp.columns(r, o) is None:
            return ("skip",)
    msg0 = f"pairwise_to_multiple {case}"
    try:
        pw = []
        a0 = None
        for nm, (r, o) in zip(names, case):
            a = make_aligned_seqs({"ref": r, nm: o}, moltype="dna", array_align=False)
            a0 = a0 or a
            pw.append((nm, a))
        res = pairwise_to_multiple(pw, a0.get_seq("ref"), a0.moltype)
        rows = {k: str(v) for k, v in res.to_dict().items()}
    except Exception as ex:
        return ("fail", f"pairwise_to_multiple/raises/{type(ex).__name__}", f"{msg0}: {type(ex).__name__}: {str(ex)[:200]}")
    if sorted(rows) != sorted(["ref"] + names):
        return ("fail", "pairwise_to_multiple/row-names", f"{msg0}: {sorted(rows)}")
    if len({len(v) for v in rows.values()}) != 1:
        return ("fail", "pairwise_to_multiple/ragged-rows", f"{msg0}: {rows}")
    if rows["ref"].replace("-", "") != refseq:
        return ("fail", "pairwise_to_multiple/degapped-reference-not-input", f"{msg0}: {rows}")
    for nm, (r, o) in zip(names, case):
        if rows[nm].replace("-", "") != o.replace("-", ""):
            return ("fail", "pairwise_to_multiple/degapped-row-not-input", f"{msg0}: {rows}")
    for nm, (r, o) in zip(names, case):
        got = sp.project(rows, "ref", nm)
        if got != (r, o):
            return ("fail", f"pairwise_to_multiple/projection/{gap_pattern(r, o, got)}",
                    f"{msg0}: result {rows}; projected onto (ref,{nm}) = {got}, expected {(r, o)}")
    nontrivial = len(case) > 1 and len({r for r, _ in case}) > 1
    return ("ok", nontrivial)


# ------------------------------------------------------------------------------------------------ align_to_ref
A2R_PARAMS = [["dna10", [20, 2]], ["dna10", [3, 1]], ["dna2", [3, 1]], ["dna1", [0.5, 2]]]


def gen_a2r(tier, seed):
    """[[a, b, c(, d)], ref, scheme, [d, e]]"""
    rnd = random.Random(seed * 1000 + 13)
    thorough = tier == "thorough"
    pool = words("AC", 1, 3) + ["ACAA", "CAAC"]
    k = 0
    for t in itertools.product(pool, repeat=3):
        if thorough or k % 3 == 0:
            p = A2R_PARAMS[(k // 3) % 2]
            yield [list(t), "a", p[0], p[1]]
        if k % 16 == 5:
            yield [list(t), "longest", "dna10", [20, 2]]
        k += 1
    for k in range(6000 if thorough else 500):
        n = 3 if k % 4 else 4
        hi = 5 if k % 3 else 8
        seqs = [rword(rnd, 1, hi, "ACGT" if k % 2 else "ACG") for _ in range(n)]
        p = A2R_PARAMS[k % 4]
        ref = "longest" if k % 5 == 0 else "abcd"[rnd.randrange(n)]
        yield [seqs, ref, p[0], p[1]]


def contract_a2r(case):
    from cogent3 import get_app, make_unaligned_seqs
    seqs, ref, scheme, (d, e) = case
    mt, S = SCHEMES[scheme]
    names = list("abcd"[:len(seqs)])
    data = dict(zip(names, seqs))
    msg0 = f"align_to_ref seqs={data} ref={ref} scheme={scheme} d={d} e={e}"
    try:
        app = get_app("align_to_ref", ref_seq=ref, score_matrix=S, insertion_penalty=d, extension_penalty=e, moltype=mt)
        if sum(map(len, seqs)) % 2:
            # an app object is made to be reused: every second case it has already aligned another collection of the
            # same names (the sequences reversed) -- the answer must depend on the last input only
            app(make_unaligned_seqs({k: (v[::-1] or v) for k, v in data.items()}, moltype=mt))
        res = app(make_unaligned_seqs(data, moltype=mt))
        if not hasattr(res, "to_dict") or type(res).__name__ == "NotCompleted":
            return ("fail", "align_to_ref/not-completed", f"{msg0}: {str(res)[:300]}")
        rows = {k: str(v) for k, v in res.to_dict().items()}
    except Exception as ex:
        return ("fail", f"align_to_ref/raises/{type(ex).__name__}", f"{msg0}: {type(ex).__name__}: {str(ex)[:200]}")
    if sorted(rows) != names:
        return ("fail", "align_to_ref/row-names", f"{msg0}: {sorted(rows)}")
    if len({len(v) for v in rows.values()}) != 1:
        return ("fail", "align_to_ref/ragged-rows", f"{msg0}: {rows}")
    for nm in names:
        if rows[nm].replace("-", "") != data[nm]:
            return ("fail", "align_to_ref/degapped-row-not-input", f"{msg0}: {rows}")
    longest = max(len(s) for s in seqs)
    cands = [ref] if ref != "longest" else [nm for nm in names if len(data[nm]) == longest]
    nl = NLETTERS[mt]
    verdicts = []
    for rn in cands:
        bads, exact = [], 0
        for nm in names:
            if nm == rn:
                continue
            try:
                prow, _ = run_pair(False, seq(data[rn], rn, mt), seq(data[nm], nm, mt), S, d, e, BIG)
            except Exception as ex:
                return ("fail", f"align_to_ref/pairwise-raises/{type(ex).__name__}", f"{msg0}: {ex}")
            got = sp.project(rows, rn, nm)
            want = (prow[rn], prow[nm])
            exact += got == want
            if got != want:
                # ties are left open: another equally scoring alignment of the pair is accepted
                a, b = sp.path_score(got[0], got[1], S, d, e, nl), sp.path_score(want[0], want[1], S, d, e, nl)
                if abs(a - b) <= TOL and a != sp.NEG:
                    continue
                bads.append(("fail", f"align_to_ref/projection/{gap_pattern(want[0], want[1], got)}",
                             f"{msg0}: result {rows}; projected onto ({rn},{nm}) = {got}, pairwise alignment is {want}"))
        if not bads:
            return ("ok", len({len(s) for s in seqs}) > 1)
        verdicts.append((len(bads), -exact, bads))
    # ref='longest' with several longest sequences: report against the candidate that explains the result best
    return min(verdicts, key=lambda v: v[:2])[2][0]


# ------------------------------------------------------------------------------------------------ progressive
TREES = {2: ["(a:0.1,b:0.2)"],
         3: ["(a:0.1,b:0.2,c:0.3)", "((a:0.1,c:0.2):0.1,b:0.3)", None],
         4: ["((a:0.1,b:0.2):0.1,(c:0.1,d:0.3):0.2)", "(a:0.3,(b:0.2,(c:0.1,d:0.1):0.1):0.1)", None]}
PROG = [["HKY85", 1e-10, 0.1], ["F81", 0.1, 0.5], ["nucleotide", 0.01, 0.3]]


def gen_prog(tier, seed):
    """[[seqs], model, tree or None, indel_rate, indel_length, force linear-space DP]"""
    rnd = random.Random(seed * 1000 + 17)
    thorough = tier == "thorough"
    pool = words("AC", 1, 2) + ["ACA", "CCC", "ACGT", "GGTCA"]
    k = 0
    for t in itertools.product(pool, repeat=3):
        if thorough or k % 4 == 0:
            p = PROG[k % 3]
            yield [list(t), p[0], TREES[3][k % 2], p[1], p[2], k % 8 == 0]
        k += 1
    for k in range(5000 if thorough else 400):
        n = (2, 3, 3, 4)[k % 4]
        alpha = "ACGT" if k % 7 else "ACGTN"
        seqs = [rword(rnd, 1, 5 if k % 3 else 9, alpha) for _ in range(n)]
        p = PROG[k % 3]
        tr = TREES[n][k % len(TREES[n])]
        yield [seqs, p[0], tr, p[1], p[2], k % 5 == 0]


def contract_prog(case):
    from cogent3 import get_app, make_unaligned_seqs
    import cogent3.align.pairwise as pw
    seqs, model, tree, rate, length = case[:5]
    linear = len(case) > 5 and case[5]          # force the linear-space branch of the profile aligner
    names = list("abcd"[:len(seqs)])
    data = dict(zip(names, seqs))
    tag = "progressive_align" + ("/hirschberg" if linear else "")
    msg0 = f"{tag} seqs={data} model={model} tree={tree} indel_rate={rate} indel_length={length}"
    kw = {"guide_tree": tree} if tree else {}
    old = pw.HIRSCHBERG_LIMIT
    pw.HIRSCHBERG_LIMIT = 0 if linear else BIG
    try:
        app = get_app("progressive_align", model=model, indel_rate=rate, indel_length=length, **kw)
        if sum(map(len, seqs)) % 2:
            app(make_unaligned_seqs({k: (v[::-1] or v) for k, v in data.items()}, moltype="dna"))   # reused app object
        res = app(make_unaligned_seqs(data, moltype="dna"))
    except Exception as ex:
        return ("fail", f"{tag}/raises/{type(ex).__name__}", f"{msg0}: {type(ex).__name__}: {str(ex)[:200]}")
    finally:
        pw.HIRSCHBERG_LIMIT = old
    if type(res).__name__ == "NotCompleted" or not hasattr(res, "to_dict"):
        if tree is None:
            return ("skip",)        # no guide tree could be estimated from these sequences: outside the statement
        return ("fail", f"{tag}/not-completed-with-guide-tree", f"{msg0}: {str(res)[:300]}")
    rows = {k: str(v) for k, v in res.to_dict().items()}
    if sorted(rows) != names:
        return ("fail", f"{tag}/row-names", f"{msg0}: {sorted(rows)}")
    if len({len(v) for v in rows.values()}) != 1:
        return ("fail", f"{tag}/ragged-rows", f"{msg0}: {rows}")
    for nm in names:
        if rows[nm].replace("-", "") != data[nm]:
            return ("fail", f"{tag}/degapped-row-not-input", f"{msg0}: {rows}")
    return ("ok", len({len(s) for s in seqs}) > 1)


BOUNDED = {
    "pairwise_global": {
        "gen": gen_global, "contract": contract_global,
        "functions": ["align.align.global_pairwise", "align.align.classic_align_pairwise", "align.align._align_pairwise",
                      "align.indel_model.classic_gap_scores", "align.pairwise.PairEmissionProbs.dp",
                      "align.pairwise.PairEmissionProbs.hirschberg", "align.pairwise.Pair.traceback",
                      "align.pairwise_seqs_numba.calc_rows", "align.pairwise.GlobalViterbiPath.get_alignment"],
        "bound": "all pairs of DNA sequences of length 1..3 over ACGT (quick: one of 9, thorough: all 9 combinations of 3 "
                 "scoring tables x 3 gap settings); pairs with a length-4 member over ACG (thorough all, quick 700) + "
                 "seeded sample over ACGT; a non-symmetric scoring table on all pairs <=2 (thorough <=3); protein "
                 "letters; seeded samples of length 5 (optimum by enumeration) and up to 14 (thorough 30; optimum by the "
                 "spec recurrence); every pair with >=3 rows is run with HIRSCHBERG_LIMIT=0 and =1e8",
        "rule": "a case = (x, y, scoring table, (d, e)); non-trivial when a sequence is longer than 1; distinct by hash",
    },
    "pairwise_local": {
        "gen": gen_local, "contract": contract_local,
        "functions": ["align.align.local_pairwise", "align.align.classic_align_pairwise",
                      "align.pairwise.LocalViterbiPath.get_alignment", "align.traceback.alignment_traceback",
                      "align.traceback.map_traceback", "align.traceback.gap_traceback", "app.align.smith_waterman"],
        "bound": "same pair domain as pairwise_global up to length 5 (optimum by enumeration of all local paths over all "
                 "pairs of substrings); smith_waterman app on a seeded sample of pairs <=5",
        "rule": "a case = (x, y, scoring table, (d, e), function|app); non-trivial when a sequence is longer than 1",
    },
    "pairwise_to_multiple": {
        "gen": gen_p2m, "contract": contract_p2m,
        "functions": ["app.align.pairwise_to_multiple", "app.align._gap_union", "app.align._merged_gaps",
                      "app.align._combined_refseq_gaps", "app.align._gap_difference",
                      "app.align._subset_gaps_to_align_coords", "app.align._gaps_for_injection", "app.align._GapOffset"],
        "bound": "every pairwise alignment (column types pair / ref-only / other-only, no all-gap column, both sequences "
                 "non-empty) of length <=4 (thorough <=5) alone and every ordered pair of them sharing the reference; "
                 "seeded sample of 2-3 alignments of length <=5 (thorough <=6)",
        "rule": "a case = list of (reference row, other row); non-trivial when the reference rows differ",
    },
    "align_to_ref": {
        "gen": gen_a2r, "contract": contract_a2r,
        "functions": ["app.align.align_to_ref.main", "app.align.align_to_ref.align_to_named_seq",
                      "app.align.align_to_ref.align_to_longest", "app.align.pairwise_to_multiple",
                      "align.align.global_pairwise"],
        "bound": "ordered triples from the 14 sequences over AC of length 1..3 + ACAA, CAAC (quick every third, thorough all) with the first as "
                 "reference, a sixteenth also with ref='longest'; seeded sample of 3-4 sequences of length <=8 over "
                 "ACGT, 4 scoring/gap settings, every reference choice",
        "rule": "a case = (sequences, reference, scoring table, (d, e)); non-trivial when lengths differ",
    },
    "progressive_align": {
        "gen": gen_prog, "contract": contract_prog,
        "functions": ["app.align.progressive_align.main", "align.progressive.tree_align",
                      "align.progressive._progressive_hmm", "align.pairwise_pogs_numba.calc_rows",
                      "align.pairwise.AlignablePOG._calcAligneds", "align.traceback.map_traceback"],
        "bound": "ordered triples from 10 sequences of length 1..5 (quick every fourth) with 2 guide trees x 3 model/indel "
                 "settings; seeded sample of 2-4 sequences of length <=9 (incl. N) with and without a guide tree; a fifth to an eighth of the cases with HIRSCHBERG_LIMIT=0",
        "rule": "a case = (sequences, model, guide tree, indel rate, indel length); non-trivial when lengths differ",
    },
}
