"""Bounded run-time contracts for C20 (exploration level: nothing here is proved).

Abstract view: rows(t) = (header, list of row tuples).  Every contract has the form
    rows(op(t, args)) == op_spec(rows(t), args)          (op_spec: plain lists / tuples / dicts, below)
or  rows(load_table(write(t))) ~ rows(t)                 (~: same header, same cell text, numeric columns numeric)
Cells are compared with Python equality (so 1 == 1.0 == True), except that a str never equals a non-str and None
only equals None.  A table stands in the case as {"h": header, "r": rows[, "title": str][, "index": str]}.
"""
from __future__ import annotations

import itertools
import os
import random
import tempfile
from collections import Counter

import numpy


# ===================================================================================== view and helpers
class ViewError(Exception):
    pass


def py(v):
    return v.item() if isinstance(v, numpy.generic) else v


def build(tab):
    from cogent3 import make_table
    kw = {}
    if tab.get("title"):
        kw["title"] = tab["title"]
    if tab.get("index"):
        kw["index_name"] = tab["index"]
    return make_table(header=list(tab["h"]), data=[list(r) for r in tab["r"]], **kw)


def model(tab):
    return list(tab["h"]), [tuple(r) for r in tab["r"]]


def cell_eq(a, b):
    if a is None or b is None:
        return a is None and b is None
    if isinstance(a, str) != isinstance(b, str):
        return False
    try:
        return bool(a == b)
    except Exception:
        return False


def rows_eq(x, y):
    return len(x) == len(y) and all(len(r) == len(s) and all(cell_eq(a, b) for a, b in zip(r, s)) for r, s in zip(x, y))


def cell_id(v):
    if v is None:
        return ("N",)
    if isinstance(v, str):
        return ("s", v)
    if isinstance(v, (bool, int, float)):
        return ("n", float(v))
    return ("o", repr(v))


def bag(rows):
    return Counter(tuple(cell_id(v) for v in r) for r in rows)


def view(t):
    """(header, rows) read through the column store, cross-checked against the row API"""
    header = list(t.header)
    n, m = t.shape
    if m != len(header):
        raise ViewError(f"shape {t.shape} but header {header}")
    cols = [[py(v) for v in t.columns[c].tolist()] for c in header]
    if any(len(c) != n for c in cols):
        raise ViewError(f"shape {t.shape} but column lengths {[len(c) for c in cols]}")
    rows = [tuple(c[i] for c in cols) for i in range(n)]
    if n and m:
        arr = [tuple(py(v) for v in r) for r in t.array.tolist()]
        if not rows_eq(rows, arr):
            raise ViewError(f"columns give {rows} but .array gives {arr}")
        if len(t) != n:
            raise ViewError(f"len {len(t)} but shape {t.shape}")
    return header, rows


def short(x, n=300):
    s = repr(x)
    return s if len(s) <= n else s[:n] + "..."


def compare(site, pat, exp, t, case, order_matters=True):
    """None when rows(t) == exp, else a fail triple; site/pat make the key"""
    eh, er = exp
    try:
        gh, gr = view(t)
    except ViewError as e:
        return ("fail", f"{site}/view-inconsistent/{pat}", f"{short(case)}: {e}")
    except Exception as e:
        return ("fail", f"{site}/view-raises-{type(e).__name__}/{pat}", f"{short(case)}: reading the result: {e}")
    if gh != list(eh):
        return ("fail", f"{site}/header/{pat}", f"{short(case)}: header {gh}, list-of-rows model gives {list(eh)}")
    if len(gr) != len(er):
        return ("fail", f"{site}/row-count/{pat}", f"{short(case)}: rows {short(gr)}, model gives {short(er)}")
    if bag(gr) != bag(er):
        return ("fail", f"{site}/rows-changed/{pat}", f"{short(case)}: rows {short(gr)}, model gives {short(er)}")
    if not rows_eq(gr, er):
        same_order = [cell_id_row(r) for r in gr] == [cell_id_row(r) for r in er]
        if same_order:
            return ("fail", f"{site}/cell-type/{pat}", f"{short(case)}: rows {short(gr)}, model gives {short(er)}")
        if order_matters:
            return ("fail", f"{site}/order/{pat}", f"{short(case)}: rows {short(gr)}, model gives {short(er)}")
    return None


def cell_id_row(r):
    return tuple(cell_id(v) for v in r)


def unchanged(site, pat, tabs, tables, case):
    for tab, t in zip(tabs, tables):
        try:
            h, r = view(t)
        except Exception as e:
            return ("fail", f"{site}/input-unreadable-afterwards/{pat}", f"{short(case)}: {type(e).__name__}: {e}")
        eh, er = model(tab)
        if tab.get("index"):
            eh, er = reorder_index(eh, er, tab["index"])
        if h != eh or not rows_eq(r, er):
            return ("fail", f"{site}/input-mutated/{pat}", f"{short(case)}: input now {h} {short(r)}")
    return None


def reorder_index(h, rows, index):
    j = h.index(index)
    order = [j] + [i for i in range(len(h)) if i != j]
    return [h[i] for i in order], [tuple(r[i] for i in order) for r in rows]


def col_kind(values):
    vs = [v for v in values]
    if not vs:
        return "none"
    if all(isinstance(v, bool) for v in vs):
        return "bool"
    if all(isinstance(v, int) and not isinstance(v, bool) for v in vs):
        return "int"
    if all(isinstance(v, (int, float)) and not isinstance(v, bool) for v in vs):
        return "float"
    if all(isinstance(v, str) for v in vs):
        return "str"
    return "mixed"


def empt(*tabs):
    return "an-input-has-0-rows" if any(len(t["r"]) == 0 for t in tabs) else "rows"


# ===================================================================================== 1. sorted
def as_list(x):
    if x is None:
        return None
    return [x] if isinstance(x, str) else list(x)


def spec_sorted(header, rows, columns, reverse):
    """successive stable sorts, last key first (the list idiom for multi-key sorts with per-key direction)"""
    reverse = as_list(reverse) or []
    columns = as_list(columns)
    if columns is None:
        columns = list(reverse) if reverse else list(header)
    out = list(rows)
    for c in reversed(columns):
        j = header.index(c)
        out.sort(key=lambda r: r[j], reverse=c in reverse)
    return columns, reverse, out


def sort_pattern(header, rows, columns, reverse):
    parts = []
    for c in reverse:
        j = header.index(c)
        vals = {r[j] for r in rows}
        k = col_kind(vals)
        if k == "str":
            if any(ord(ch) > 255 for v in vals for ch in v):
                k = "str-beyond-latin1"
            elif any(u != v and v.startswith(u) for u in vals for v in vals):
                k = "str-with-prefix-pair"
        parts.append(k)
    if parts:
        return "reverse[" + ",".join(sorted(set(parts))) + "]"
    return "forward[" + ",".join(sorted({col_kind([r[header.index(c)] for r in rows]) for c in columns})) + "]"


SORT_ALPHA1 = {
    "int": [-1, 0, 2], "float": [0.5, -1.5, 2.0], "str": ["", "a", "ab", "b"], "stru": ["a", "z", "Ω"],
    "bool": [False, True], "mixednum": [0, 0.5, True], "missing": [None, 1.5, 0.5],
}
SORT_ALPHA2 = {"int": [0, 1], "float": [0.5, 1.5], "str": ["a", "b"], "strp": ["", "a"], "bool": [False, True]}
SORT_ARGS1 = [["a", None], [["a"], None], [None, "a"], ["a", "a"], [["a"], ["a"]], [["a", "id"], None],
              [["a", "id"], ["id"]], [["a", "id"], ["a"]], [["a", "id"], ["a", "id"]], [["id"], ["id"]],
              [["id", "a"], None], [None, None], [None, ["a", "id"]]]
SORT_ARGS2 = ([[None, r] for r in (None, ["a"], ["b"], ["a", "b"], ["b", "a"], "b")]
              + [[c, r] for c in (["a", "b"], ["b", "a"]) for r in (None, ["a"], ["b"], ["a", "b"])]
              + [[["a"], None], [["a"], ["a"]], [["b"], None], [["b"], "b"]])
PAYLOAD = [None, "x", 1.5, True]


def gen_sorted(tier, seed):
    thorough = tier == "thorough"
    nmax = 4 if thorough else 3
    for n in range(1, nmax + 1):
        for kind, alpha in SORT_ALPHA1.items():
            for keys in itertools.product(alpha, repeat=n):
                for with_p in (False, True):
                    if with_p:
                        tab = {"h": ["a", "id", "p"], "r": [[k, i, PAYLOAD[i % 4]] for i, k in enumerate(keys)]}
                    else:
                        tab = {"h": ["a", "id"], "r": [[k, i] for i, k in enumerate(keys)]}
                    for cols, rev in SORT_ARGS1:
                        if with_p and cols is None:
                            continue        # would sort on the mixed payload column: not ordered
                        yield [tab, cols, rev]
    kinds2 = list(SORT_ALPHA2)
    for n in range(1, nmax + 1):
        for ka in kinds2:
            for kb in kinds2:
                pairs = list(itertools.product(SORT_ALPHA2[ka], SORT_ALPHA2[kb]))
                for keys in itertools.product(pairs, repeat=n):
                    tab = {"h": ["a", "b", "id"], "r": [[k[0], k[1], i] for i, k in enumerate(keys)]}
                    for cols, rev in SORT_ARGS2:
                        yield [tab, cols, rev]
    # beyond the frontier, deterministic: long runs of equal keys (16, 17, 24 rows)
    for n in (16, 17, 24):
        for a, b in ((0, 0), (0, 1), ("x", "x"), ("x", "y")):
            for keys in ([a] * n, [a if i % 2 == 0 else b for i in range(n)], [a if i < n // 2 else b for i in range(n)]):
                tab = {"h": ["a", "id"], "r": [[k, i] for i, k in enumerate(keys)]}
                yield [tab, "a", None]
                yield [tab, ["a"], ["a"]]
    # beyond the frontier: 5..40 rows, 1..3 key columns, random directions (seeded)
    rnd = random.Random(seed * 7919 + 20)
    alphas = list(SORT_ALPHA1.values())[:5] + [[0, 1], ["x", "y", "xy"], [1.0, 2.0, 3.0, 4.0]]
    for _ in range(3000 if thorough else 200):
        n = rnd.randint(5, 40)
        k = rnd.randint(1, 3)
        names = ["a", "b", "c"][:k]
        als = [rnd.choice(alphas) for _ in names]
        tab = {"h": names + ["id"], "r": [[rnd.choice(al) for al in als] + [i] for i in range(n)]}
        cols = rnd.sample(names, rnd.randint(1, k))
        rev = [c for c in cols if rnd.random() < 0.4]
        form = rnd.randrange(3)
        if form == 0 and rev:
            yield [tab, None, rev]
        elif form == 1:
            yield [tab, cols, rev or None]
        else:
            yield [tab, cols + ["id"], rev or None]


def check_sorted(tab, cols, rev):
    """(symptom, pattern-independent message) of Table.sorted against the list sort; symptom None when they agree"""
    header, rows = model(tab)
    ecols, erev, exp = spec_sorted(header, rows, cols, rev)
    t = build(tab)
    kw = {}
    if cols is not None:
        kw["columns"] = cols
    if rev is not None:
        kw["reverse"] = rev
    try:
        got = t.sorted(**kw)
    except Exception as e:
        return f"raises-{type(e).__name__}", f"{type(e).__name__}: {e}"
    r = compare("", "", (header, exp), got, "", order_matters=False)
    if r:
        return r[1].strip("/"), r[2][4:]
    _, gr = view(got)
    if not rows_eq(gr, exp):
        idx = [header.index(c) for c in ecols]
        gk = [tuple(cell_id(r_[j]) for j in idx) for r_ in gr]
        ek = [tuple(cell_id(r_[j]) for j in idx) for r_ in exp]
        if gk != ek:
            return "order", f"sorted gives {short(gr)}, list sort gives {short(exp)}"
        return "ties-reordered", (f"rows with equal keys change their relative order: {short(gr, 500)}; a (stable) list "
                                  f"sort gives {short(exp, 500)}")
    r = unchanged("", "", [tab], [t], "")
    if r:
        return r[1].strip("/"), r[2][4:]
    return None, ""


def contract_sorted(case):
    tab, cols, rev = case
    header, rows = model(tab)
    if not rows:
        return ("skip",)
    try:
        ecols, erev, _ = spec_sorted(header, rows, cols, rev)
    except TypeError:
        return ("skip",)            # the key values are not mutually ordered: a list sort raises as well
    symptom, msg = check_sorted(tab, cols, rev)
    if symptom is None:
        return ("ok", len(rows) >= 2)
    if symptom == "ties-reordered":
        pat = "more-than-16-rows" if len(rows) > 16 else "up-to-16-rows"
    else:
        # witness pattern: the first reverse-sorted column that shows the same symptom when it is the only key
        pat = None
        for c in erev:
            try:
                if check_sorted(tab, [c], [c])[0] == symptom:
                    pat = sort_pattern(header, rows, [c], [c])
                    break
            except TypeError:
                pass
        if pat is None:
            pat = ("only-with-several-keys:" if erev else "") + sort_pattern(header, rows, ecols, erev)
    return ("fail", f"sorted/{symptom}/{pat}", f"{short(case, 700)}: {msg}")


# ===================================================================================== 2. filtered / count / count_unique / distinct
def _gt0(v): return v > 0
def _isnone(v): return v is None
def _pos_and_x(r): return bool(r[0] > 0 and r[1] == "x")
def _b_empty(r): return r[1] == ""
def _x_and_pos(r): return bool(r[0] == "x" and r[1] > 0)
def _all_perm(r): return bool(r[0] == "x" and r[2] > 0)
def _all_hdr(r): return bool(r[0] > 0 and r[1] == "x")
def _true(r): return True
def _false(r): return False


# name -> (callback given to cogent3, columns argument, plain predicate on the model row (dict name -> value))
PREDS = {
    "callable/col=str": (_gt0, "a", lambda d: d["a"] > 0),
    "callable/col=[one]": (_gt0, ["a"], lambda d: d["a"] > 0),
    "callable/col=[two]": (_pos_and_x, ["a", "b"], lambda d: d["a"] > 0 and d["b"] == "x"),
    "callable/col=[two-permuted]": (_x_and_pos, ["b", "a"], lambda d: d["b"] == "x" and d["a"] > 0),
    # every column named, in another order than the header / in header order
    "callable/col=[all-permuted]": (_all_perm, ["b", "c", "a"], lambda d: d["b"] == "x" and d["a"] > 0),
    "callable/col=[all]": (_all_hdr, ["a", "b", "c"], lambda d: d["a"] > 0 and d["b"] == "x"),
    "callable/col=None": (_b_empty, None, lambda d: d["b"] == ""),
    "callable/missing": (_isnone, "c", lambda d: d["c"] is None),
    "callable/always": (_true, None, lambda d: True),
    "callable/never": (_false, None, lambda d: False),
    "expr/col=None": ("a > 0", None, lambda d: d["a"] > 0),
    "expr/col=[two]": ("a > 0 and b == 'x'", ["a", "b"], lambda d: d["a"] > 0 and d["b"] == "x"),
    "expr/col=str": ("b == ''", "b", lambda d: d["b"] == ""),
    "expr/missing": ("c is None", None, lambda d: d["c"] is None),
}
def _col_has_x(col): return any(isinstance(py(v), str) and py(v) == "x" for v in col)
def _col_all_num(col): return len(col) > 0 and all(isinstance(py(v), (int, float)) and not isinstance(py(v), bool) for v in col)
def _col_true(col): return True
def _col_false(col): return False
def _col_len2(col): return len(col) >= 2


# column filters: name -> (callback given to cogent3, plain predicate on the list of the column's values)
COL_PREDS = {
    "has-x": (_col_has_x, lambda vs: any(isinstance(v, str) and v == "x" for v in vs)),
    "all-numbers": (_col_all_num, lambda vs: len(vs) > 0 and all(isinstance(v, (int, float)) and not isinstance(v, bool) for v in vs)),
    "always": (_col_true, lambda vs: True),
    "never": (_col_false, lambda vs: False),
    "at-least-two-rows": (_col_len2, lambda vs: len(vs) >= 2),
}
FC_COLS_UNIQUE = [None, "a", ["a"], ["a", "b"], ["b", "a"], ["c"], ["a", "b", "c"]]
FC_COLS_DISTINCT = ["a", ["a"], ["a", "b"], ["c", "a"], "b", ["c"]]
FC_ROWS = [[a, b, c] for a in (0, 1) for b in ("x", "") for c in (None, 1.5)]
FC_ROWS_B = [[a, b, c] for a in (0.5, -2.0) for b in (True, False) for c in ("x", 3)]


def gen_filter(tier, seed):
    thorough = tier == "thorough"
    nmax = 4 if thorough else 3
    ops = ([["filtered", p] for p in PREDS] + [["count", p] for p in PREDS]
           + [["count_unique", c] for c in FC_COLS_UNIQUE] + [["distinct_values", c] for c in FC_COLS_DISTINCT]
           + [["filtered_by_column", p] for p in COL_PREDS])
    for corpus in (FC_ROWS, FC_ROWS_B):
        for n in range(0, nmax + 1):
            if corpus is FC_ROWS_B and n > 3:
                continue
            for rows in itertools.product(corpus, repeat=n):
                tab = {"h": ["a", "b", "c"], "r": list(rows)}
                for op in ops:
                    if corpus is FC_ROWS_B and op[0] in ("filtered", "count") and op[1] not in (
                            "callable/col=str", "callable/col=[one]", "callable/always", "callable/never", "expr/col=None"):
                        continue
                    yield [tab, op[0], op[1]]
    rnd = random.Random(seed * 7919 + 21)
    for _ in range(2000 if thorough else 100):
        n = rnd.randint(5, 30)
        tab = {"h": ["a", "b", "c"], "r": [rnd.choice(FC_ROWS) for _ in range(n)]}
        op = rnd.choice(ops)
        yield [tab, op[0], op[1]]


def contract_filter(case):
    tab, op, arg = case
    header, rows = model(tab)
    t = build(tab)
    pat = empt(tab)
    dicts = [dict(zip(header, r)) for r in rows]
    if op in ("filtered", "count"):
        cb, cols, pred = PREDS[arg]
        try:
            keep = [bool(pred(d)) for d in dicts]
        except TypeError:
            return ("skip",)
        site = f"{op}/{arg}"
        try:
            got = t.filtered(cb, columns=cols) if op == "filtered" else t.count(cb, columns=cols)
        except Exception as e:
            return ("fail", f"{site}/raises-{type(e).__name__}/{pat}", f"{short(case)}: {type(e).__name__}: {e}")
        if op == "count":
            if py(got) != sum(keep) or isinstance(py(got), bool):
                return ("fail", f"{site}/value/{pat}", f"{short(case)}: count gives {got!r}, the list gives {sum(keep)}")
        else:
            r = compare(site, pat, (header, [r_ for r_, k in zip(rows, keep) if k]), got, case)
            if r:
                return r
        r = unchanged(site, pat, [tab], [t], case)
        return r or ("ok", any(keep) and not all(keep))
    if op == "filtered_by_column":
        cb, pred = COL_PREDS[arg]
        site = f"{op}/{arg}"
        keep = [bool(pred([r[j] for r in rows])) for j in range(len(header))]
        try:
            got = t.filtered_by_column(cb)
        except Exception as e:
            return ("fail", f"{site}/raises-{type(e).__name__}/{pat}", f"{short(case)}: {type(e).__name__}: {e}")
        exp_h = [h for h, k in zip(header, keep) if k]
        exp_rows = [[v for v, k in zip(r, keep) if k] for r in rows] if exp_h else []
        r = compare(site, pat, (exp_h, exp_rows), got, case)
        if r:
            return r
        r = unchanged(site, pat, [tab], [t], case)
        return r or ("ok", any(keep) and not all(keep))
    cols = arg
    names = list(header) if cols is None else as_list(cols)
    idx = [header.index(c) for c in names]
    if len(idx) == 1:
        vals = [r[idx[0]] for r in rows]
    else:
        vals = [tuple(r[j] for j in idx) for r in rows]
    site = f"{op}/col={'None' if cols is None else 'str' if isinstance(cols, str) else len(cols)}"
    try:
        got = t.count_unique(cols) if op == "count_unique" else t.distinct_values(cols)
    except Exception as e:
        return ("fail", f"{site}/raises-{type(e).__name__}/{pat}", f"{short(case)}: {type(e).__name__}: {e}")

    def norm_key(k):
        return tuple(cell_id(py(x)) for x in k) if isinstance(k, tuple) else cell_id(py(k))
    if op == "count_unique":
        exp = Counter(norm_key(v) for v in vals)
        try:
            g = Counter()
            for k, v in got.items():
                g[norm_key(k)] += int(v)
        except Exception as e:
            return ("fail", f"{site}/result-unreadable/{pat}", f"{short(case)}: {type(e).__name__}: {e}")
    else:
        exp = {norm_key(v) for v in vals}
        if not isinstance(got, (set, frozenset)):
            return ("fail", f"{site}/not-a-set/{pat}", f"{short(case)}: returns {type(got).__name__}")
        g = {norm_key(k) for k in got}
        if len(g) != len(got):
            return ("fail", f"{site}/duplicates/{pat}", f"{short(case)}: {got!r}")
    if g != exp:
        return ("fail", f"{site}/value/{pat}", f"{short(case)}: {op} gives {short(got)}, the list gives {short(dict(exp) if op == 'count_unique' else exp)}")
    r = unchanged(site, pat, [tab], [t], case)
    return r or ("ok", len(exp) >= 1 and len(rows) > len(exp))


# ===================================================================================== 3. joins
JOIN_KEYS = {"int": ([0, 1], [0, 1]), "str": (["a", "b"], ["a", "b"]), "float": ([0.5, 1.5], [0.5, 1.5]),
             "bool": ([True, False], [True, False]), "missing": ([None, "a"], [None, "a"]),
             "int-vs-float": ([0, 1], [0.0, 2.0]), "disjoint": ([0, 1], [2, 3])}
# form -> needs (same key name?, unique keys?)
JOIN_FORMS1 = ["inner_join(cs=str,co=str)", "inner_join(cs=list,co=list,col_prefix)", "inner_join(cs=str)",
               "inner_join(cs=0,co=0)", "inner_join(cs=[0],co=[0])", "inner_join(index)", "joined()",
               "joined(cs=str,co=str)", "cross_join()", "cross_join(col_prefix)", "joined(inner_join=False)",
               "joined(inner_join=False,col_prefix)"]
JOIN_FORMS2 = ["inner_join(k1k2,k1k2)", "inner_join(k2k1,k2k1)", "inner_join(k1k2,k2k1)", "joined()",
               "joined(cs=k1,co=k1)"]


def spec_inner(L, R, cs, co, prefix):
    (lh, lr), (rh, rr) = L, R
    li = [lh.index(c) for c in cs]
    ri = [rh.index(c) for c in co]
    keep = [j for j, c in enumerate(rh) if c not in co]
    header = list(lh) + [prefix + rh[j] for j in keep]
    rows = [tuple(l) + tuple(r[j] for j in keep) for l in lr for r in rr
            if all(cell_eq(l[a], r[b]) for a, b in zip(li, ri))]
    return header, rows


def spec_cross(L, R, prefix):
    (lh, lr), (rh, rr) = L, R
    return list(lh) + [prefix + c for c in rh], [tuple(l) + tuple(r) for l in lr for r in rr]


def gen_joins(tier, seed):
    thorough = tier == "thorough"
    nmax = 3
    for kind, (la, ra) in JOIN_KEYS.items():
        for kname in ("k", "j"):
            for nl in range(0, nmax + 1):
                for nr in range(0, nmax + 1):
                    if not thorough and nl + nr > 5:
                        continue
                    for lk in itertools.product(la, repeat=nl):
                        for rk in itertools.product(ra, repeat=nr):
                            L = {"h": ["k", "x"], "r": [[k, f"l{i}"] for i, k in enumerate(lk)]}
                            R = {"h": [kname, "y"], "r": [[k, f"r{i}"] for i, k in enumerate(rk)]}
                            for form in JOIN_FORMS1:
                                if kname != "k" and form in ("joined()", "inner_join(cs=str)"):
                                    continue
                                if form == "inner_join(index)":
                                    if len(set(map(repr, lk))) != nl or len(set(map(repr, rk))) != nr or not nl or not nr:
                                        continue
                                if form.startswith(("cross", "joined(inner_join=False")) and (kind not in ("int", "missing") or kname != "k"):
                                    continue
                                yield [L, R, form]
    # two key columns
    sym = [(0, "a"), (0, "b"), (1, "a"), (1, "b")]
    n2 = 3 if thorough else 2
    for nl in range(0, n2 + 1):
        for nr in range(0, n2 + 1):
            for lk in itertools.product(sym, repeat=nl):
                for rk in itertools.product(sym, repeat=nr):
                    L = {"h": ["k1", "k2", "x"], "r": [[a, b, f"l{i}"] for i, (a, b) in enumerate(lk)]}
                    R = {"h": ["k1", "k2", "y"], "r": [[a, b, f"r{i}"] for i, (a, b) in enumerate(rk)]}
                    for form in JOIN_FORMS2:
                        yield [L, R, form]
    # keys of one table are both ints and strings (object column), same column also in the other
    rnd = random.Random(seed * 7919 + 22)
    pool = [0, 1, "a", None, 1.5, True]
    for _ in range(4000 if thorough else 300):
        nl, nr = rnd.randint(0, 8), rnd.randint(0, 8)
        L = {"h": ["k", "x"], "r": [[rnd.choice(pool), f"l{i}"] for i in range(nl)]}
        R = {"h": ["k", "y"], "r": [[rnd.choice(pool), f"r{i}"] for i in range(nr)]}
        yield [L, R, rnd.choice(JOIN_FORMS1[:3] + JOIN_FORMS1[6:])]


def contract_joins(case):
    Lt, Rt, form = case
    L, R = model(Lt), model(Rt)
    kname = R[0][0]
    two = L[0][0] == "k1"
    prefix = "right_"
    method = form.split("(")[0]
    if form == "inner_join(index)":
        Lt, Rt = dict(Lt, index="k"), dict(Rt, index=kname)
    tl, tr = build(Lt), build(Rt)
    if two:
        if form == "inner_join(k1k2,k1k2)":
            cs, co = ["k1", "k2"], ["k1", "k2"]
            call = lambda: tl.inner_join(tr, columns_self=cs, columns_other=co)
        elif form == "inner_join(k2k1,k2k1)":
            cs, co = ["k2", "k1"], ["k2", "k1"]
            call = lambda: tl.inner_join(tr, columns_self=cs, columns_other=co)
        elif form == "inner_join(k1k2,k2k1)":
            cs, co = ["k1", "k2"], ["k2", "k1"]
            call = lambda: tl.inner_join(tr, columns_self=cs, columns_other=co)
        elif form == "joined()":
            cs, co = ["k1", "k2"], ["k1", "k2"]
            call = lambda: tl.joined(tr)
        else:
            cs, co = ["k1"], ["k1"]
            call = lambda: tl.joined(tr, columns_self="k1", columns_other="k1")
        try:
            exp = spec_inner(L, R, cs, co, prefix)
        except TypeError:
            return ("skip",)
    else:
        cross = False
        if form == "inner_join(cs=str,co=str)":
            call = lambda: tl.inner_join(tr, columns_self="k", columns_other=kname)
        elif form == "inner_join(cs=list,co=list,col_prefix)":
            prefix = "r_"
            call = lambda: tl.inner_join(tr, columns_self=["k"], columns_other=[kname], col_prefix="r_")
        elif form == "inner_join(cs=str)":
            call = lambda: tl.inner_join(tr, columns_self="k")
        elif form == "inner_join(cs=0,co=0)":
            call = lambda: tl.inner_join(tr, columns_self=0, columns_other=0)
        elif form == "inner_join(cs=[0],co=[0])":
            call = lambda: tl.inner_join(tr, columns_self=[0], columns_other=[0])
        elif form == "inner_join(index)":
            call = lambda: tl.inner_join(tr)
        elif form == "joined()":
            call = lambda: tl.joined(tr)
        elif form == "joined(cs=str,co=str)":
            call = lambda: tl.joined(tr, columns_self="k", columns_other=kname)
        elif form == "cross_join()":
            cross, call = True, lambda: tl.cross_join(tr)
        elif form == "cross_join(col_prefix)":
            cross, prefix, call = True, "r_", lambda: tl.cross_join(tr, col_prefix="r_")
        elif form == "joined(inner_join=False)":
            cross, method, call = True, "joined-as-cross", lambda: tl.joined(tr, inner_join=False)
        elif form == "joined(inner_join=False,col_prefix)":
            cross, method, prefix = True, "joined-as-cross", "r_"
            call = lambda: tl.joined(tr, inner_join=False, col_prefix="r_")
        else:
            raise ValueError(form)
        exp = spec_cross(L, R, prefix) if cross else spec_inner(L, R, ["k"], [kname], prefix)
    argpat = form[form.index("("):]
    if two or not cross:
        site = f"{method}{argpat}"
    else:
        site = method       # for cross joins the call form only matters to the header
    try:
        got = call()
        r = compare(site, "", exp, got, case) or unchanged(site, "", [Lt, Rt], [tl, tr], case)
    except Exception as e:
        r = ("fail", f"{site}/raises-{type(e).__name__}/", f"{short(case)}: {type(e).__name__}: {e}")
    if not r:
        return ("ok", len(exp[1]) > 0)
    symptom = r[1][len(site) + 1:].strip("/")
    # witness pattern
    pat = "rows"
    if form == "inner_join(index)" and any(row[0] is None for row in Lt["r"] + Rt["r"]):
        pat = "index-column-has-missing-value"
    elif empt(Lt, Rt) != "rows":
        # does the same call form show the same symptom on one-row tables? then emptiness is not the pattern
        ref = contract_joins([dict(Lt, r=[Lt["r"][0] if Lt["r"] else [0, 0, "l0"][-len(Lt["h"]):]]),
                              dict(Rt, r=[Rt["r"][0] if Rt["r"] else [0, 0, "r0"][-len(Rt["h"]):]]), form])
        if not (ref[0] == "fail" and ref[1].startswith(f"{site}/{symptom}/")):
            pat = "an-input-has-0-rows"
    if symptom == "header" and "col_prefix" in form:
        pat += "+col_prefix-given"
    return ("fail", f"{site}/{symptom}/{pat}", r[2])


# ===================================================================================== 4. appended / transposed / get_columns / with_new_column
APP_ROWS = {"int,str": [[0, "x"], [1, ""]], "float,str": [[0.5, "y"], [2.0, "x"]], "str,str": [["p", "x"], ["", "yy"]],
            "mixed": [[None, 1], ["q", True]], "bool,int": [[True, 1], [False, 0]]}
TR_H = {"str": ["r1", "r2", "r3", "r4"], "int": [1, 2, 3, 4], "float": [0.5, 1.5, 2.0, -1.0], "bool": [True, False]}
TR_CELLS = [1, "x", None]
GC_ROWS = [[0, "x", None], [1, "", 1.5], [2, "x", True], [None, "y", 2]]
GC_COLS = [list(p) for k in (1, 2, 3) for p in itertools.permutations(["a", "b", "c"], k)]


def _dbl(v): return v * 2
def _add(r): return r[0] + r[1]
def _first(r): return r[0]
def _const(v): return "k"
def _isx(v): return v == "x"


# name -> (callback, columns, plain function of the model row dict)
DERIVE = {
    "callable/col=str:a": (_dbl, "a", lambda d: d["a"] * 2),
    "callable/col=str:b": (_dbl, "b", lambda d: d["b"] * 2),
    "callable/col=[one]:c": (_dbl, ["c"], lambda d: d["c"] * 2),
    "callable/col=[two]": (_add, ["a", "b"], lambda d: d["a"] + d["b"]),
    "callable/col=[two-permuted]": (_first, ["b", "a"], lambda d: d["b"]),
    "callable/col=None": (_first, None, lambda d: d["a"]),
    "callable/constant-str": (_const, "a", lambda d: "k"),
    "callable/bool": (_isx, "b", lambda d: d["b"] == "x"),
    "expr/one": ("a * 2", None, lambda d: d["a"] * 2),
    "expr/two": ("a + b", ["a", "b"], lambda d: d["a"] + d["b"]),
    "expr/col=str": ("b * 2", "b", lambda d: d["b"] * 2),
}
LONG = {"a": "length", "b": "b_2", "c": "c3"}
WNC_ROWS = {"int,str,mixed": [[0, "x", 1], [1, "", "y"], [2, "x", 1.5]],
            "int,int,float": [[0, 5, 0.5], [1, 6, 1.5], [2, 5, -1.0]],
            "mixed,str,bool": [[1, "x", True], ["q", "y", False], [0.5, "", True]],
            "int,str,missing": [[0, "x", None], [1, "", 2], [2, "x", None]]}


def gen_reshape(tier, seed):
    thorough = tier == "thorough"
    # --- appended
    kinds = list(APP_ROWS)
    for ka in kinds:
        for kb in kinds:
            for na in range(0, 3):
                for nb in range(0, 3):
                    for ra in itertools.product(APP_ROWS[ka], repeat=na):
                        for rb in itertools.product(APP_ROWS[kb], repeat=nb):
                            A = {"h": ["a", "b"], "r": list(ra), "title": "t1"}
                            B = {"h": ["a", "b"], "r": list(rb), "title": "t2"}
                            Bp = {"h": ["b", "a"], "r": [[r[1], r[0]] for r in rb], "title": "t2"}
                            for form in ("None", "new_column", "list", "three"):
                                yield ["appended", form, [A, B]]
                            yield ["appended", "new_column", [A, Bp]]
                            if thorough:
                                yield ["appended", "None", [A, Bp]]
    # --- transposed
    nmax = 4 if thorough else 3
    for hk, hv in TR_H.items():
        for n in range(0, min(nmax, len(hv)) + 1):
            for us in itertools.product(TR_CELLS, repeat=n):
                for vs in itertools.product(TR_CELLS + ["y"], repeat=n):
                    tab = {"h": ["h", "u", "v"], "r": [[hv[i], us[i], vs[i]] for i in range(n)]}
                    yield ["transposed", None, [tab]]
                    yield ["transposed", "h", [tab]]
                    yield ["transposed", "v", [tab]]
            for perm in itertools.permutations(range(min(3, len(hv)))):
                tab = {"h": ["h", "u"], "r": [[hv[i], i] for i in perm]}
                yield ["transposed", "h", [tab]]
    # --- get_columns
    for n in range(0, 4):
        for rows in itertools.product(GC_ROWS, repeat=n):
            tab = {"h": ["a", "b", "c"], "r": list(rows)}
            for cols in GC_COLS + ["b"]:
                yield ["get_columns", [cols, True], [tab]]
            if len({r[0] for r in rows}) == n and n:
                for cols in GC_COLS:
                    if thorough or len(cols) < 3:
                        yield ["get_columns", [cols, True], [dict(tab, index="a")]]
                        yield ["get_columns", [cols, False], [dict(tab, index="a")]]
    # --- with_new_column
    for kind, corpus in WNC_ROWS.items():
        for n in range(0, 4):
            for rows in itertools.product(corpus, repeat=n):
                tab = {"h": ["a", "b", "c"], "r": list(rows)}
                for d in DERIVE:
                    yield ["with_new_column", d, [tab]]
    # the same derivations on columns with longer names (a name given as a bare str must not be read as a sequence of letters)
    for kind, corpus in WNC_ROWS.items():
        for n in (1, 2, 3):
            for rows in list(itertools.product(corpus, repeat=n))[::(1 if thorough else 3)]:
                tab = {"h": [LONG[x] for x in ("a", "b", "c")], "r": list(rows)}
                for d in DERIVE:
                    yield ["with_new_column_long", d, [tab]]
    rnd = random.Random(seed * 7919 + 23)
    for _ in range(1500 if thorough else 100):
        n = rnd.randint(4, 12)
        kind = rnd.choice(list(WNC_ROWS))
        tab = {"h": ["a", "b", "c"], "r": [rnd.choice(WNC_ROWS[kind]) for _ in range(n)]}
        which = rnd.randrange(3)
        if which == 0:
            yield ["with_new_column", rnd.choice(list(DERIVE)), [tab]]
        elif which == 1:
            yield ["get_columns", [rnd.choice(GC_COLS), True], [tab]]
        else:
            ka, kb = rnd.choice(kinds), rnd.choice(kinds)
            A = {"h": ["a", "b"], "r": [rnd.choice(APP_ROWS[ka]) for _ in range(rnd.randint(0, 6))], "title": "t1"}
            B = {"h": ["a", "b"], "r": [rnd.choice(APP_ROWS[kb]) for _ in range(rnd.randint(0, 6))], "title": "t2"}
            yield ["appended", rnd.choice(["None", "new_column", "list", "three"]), [A, B]]


def spec_appended(tabs, new_column):
    h0 = list(tabs[0]["h"])
    rows = []
    for tab in tabs:
        idx = [tab["h"].index(c) for c in h0]
        for r in tab["r"]:
            row = tuple(r[j] for j in idx)
            rows.append(((tab.get("title", ""),) + row) if new_column is not None else row)
    return ([new_column] + h0 if new_column is not None else h0), rows


def spec_transposed(header, rows, new_name, select):
    select = select or header[0]
    j = header.index(select)
    others = [i for i in range(len(header)) if i != j]
    return [new_name] + [str(r[j]) for r in rows], [(header[i],) + tuple(r[i] for r in rows) for i in others]


def contract_reshape(case):
    op, arg, tabs = case
    tables = [build(tb) for tb in tabs]
    pat = empt(*tabs)
    if op == "appended":
        A, B = tabs
        ta, tb = tables
        if arg == "None":
            site, exp, call = "appended/new_column=None", spec_appended([A, B], None), lambda: ta.appended(None, tb)
        elif arg == "new_column":
            site, exp, call = "appended/new_column", spec_appended([A, B], "src"), lambda: ta.appended("src", tb)
        elif arg == "list":
            site, exp, call = "appended/list-of-tables", spec_appended([A, B], None), lambda: ta.appended(None, [tb])
        else:
            site, exp, call = "appended/three-tables", spec_appended([A, B, A], "src"), lambda: ta.appended("src", tb, ta)
        if A["h"] != B["h"]:
            site += "/columns-permuted"
        nontrivial = bool(A["r"]) and bool(B["r"])
    elif op == "transposed":
        (tab,) = tabs
        (t,) = tables
        header, rows = model(tab)
        sel = arg or header[0]
        vals = [r[header.index(sel)] for r in rows]
        names = [str(v) for v in vals]
        if len(set(map(repr, vals))) != len(vals) or len(set(names)) != len(names) or "n" in names \
                or any(not s or s != s.strip() for s in names):
            return ("skip",)        # the selected column must give distinct, usable column names
        site = "transposed/" + ("select=None" if arg is None else "select=first" if arg == header[0] else "select=other")
        exp = spec_transposed(header, rows, "n", arg)
        call = (lambda: t.transposed("n")) if arg is None else (lambda: t.transposed("n", select_as_header=arg))
        nontrivial = len(rows) >= 1
    elif op == "get_columns":
        (tab,) = tabs
        (t,) = tables
        cols, with_index = arg
        header, rows = model(tab)
        names = as_list(cols)
        index = tab.get("index")
        if index and with_index:
            names = [index] + [c for c in names if c != index]
        site = "get_columns" + ("/index+with_index" if index and with_index else "/index+without" if index else "")
        if index and not with_index and index in names:
            names = [index] + [c for c in names if c != index]      # an index column is always shown first
        exp = names, [tuple(r[header.index(c)] for c in names) for r in rows]
        call = (lambda: t.get_columns(cols)) if with_index else (lambda: t.get_columns(cols, with_index=False))
        if index and any(r[header.index(index)] is None for r in rows):
            pat = "index-column-has-missing-value"
        nontrivial = len(rows) >= 1
    elif op in ("with_new_column", "with_new_column_long"):
        (tab,) = tabs
        (t,) = tables
        cb, cols, fn = DERIVE[arg]
        header, rows = model(tab)
        short_names = list(header)
        if op.endswith("_long"):
            import re as _re
            back = {v: k for k, v in LONG.items()}
            short_names = [back[h] for h in header]
            cols = LONG[cols] if isinstance(cols, str) else None if cols is None else [LONG[c] for c in cols]
            if isinstance(cb, str):
                cb = _re.sub(r"\b([abc])\b", lambda m: LONG[m.group(1)], cb)
        try:
            new = [fn(dict(zip(short_names, r))) for r in rows]
        except TypeError:
            return ("skip",)
        site = f"with_new_column/{arg.split('/')[0]}" + ("/long-names" if op.endswith("_long") else "")
        exp = header + ["z"], [tuple(r) + (v,) for r, v in zip(rows, new)]
        call = lambda: t.with_new_column("z", cb, columns=cols)
        kinds = {("str" if isinstance(v, str) else "other") for v in new}
        if len(kinds) == 2:
            pat += "/derived-values-str-and-non-str"
        nontrivial = len(rows) >= 1
    else:
        raise ValueError(op)
    try:
        got = call()
    except Exception as e:
        return ("fail", f"{site}/raises-{type(e).__name__}/{pat}", f"{short(case)}: {type(e).__name__}: {e}")
    r = compare(site, pat, exp, got, case)
    if r:
        return r
    r = unchanged(site, pat, tabs, tables, case)
    return r or ("ok", nontrivial)


# ===================================================================================== 5. write / load_table round trips
def cell_class(s, sep):
    if s == "":
        return "empty"
    if sep and sep in s:
        return "contains-delimiter"
    if len(s) >= 2 and s[0] == s[-1] and s[0] in "\"'":
        return "quoted-text"
    if '"' in s or "'" in s:
        return "contains-quote"
    if s != s.strip():
        return "space-padded"
    if s in ("True", "False", "None"):
        return "python-constant-name"
    try:
        float(s)
        return "number-like-text"
    except ValueError:
        pass
    if s.isidentifier():
        return "identifier-text"
    if s.isalnum() or all(ch.isalnum() or ch in " _.:#" for ch in s):
        return "plain-text"
    return "expression-like-text"


def texts(v):
    return {"", "None"} if v is None else {str(v)}


def as_number(v):
    if isinstance(v, bool):
        return None
    if isinstance(v, (int, float)):
        return float(v)
    if isinstance(v, str):
        try:
            return float(v)
        except ValueError:
            return None
    return None


def text_ok(o, g):
    if texts(o) & texts(g):
        return True
    a, b = as_number(o), as_number(g)
    return a is not None and b is not None and a == b       # 1 restored as 1.0 inside a mixed numeric column


# label -> (file suffix, write kwargs, load kwargs, separator, family)
IO = {
    "tsv": ("tsv", {}, {}, "\t", "delimited"),
    "csv": ("csv", {}, {}, ",", "delimited"),
    "tsv.gz": ("tsv.gz", {}, {}, "\t", "delimited"),
    "csv.gz": ("csv.gz", {}, {}, ",", "delimited"),
    "tsv+compress": ("tsv", {"compress": True}, {}, "\t", "delimited"),
    "txt+sep=;": ("txt", {"sep": ";"}, {"sep": ";"}, ";", "delimited"),
    "txt+sep=|": ("txt", {"sep": "|"}, {"sep": "|"}, "|", "delimited"),
    "csv+format-arg": ("dat", {"format": "csv"}, {"sep": ","}, ",", "delimited"),
    "json": ("json", {}, {}, None, "json"),
    "pickle": ("pickle", {}, {}, None, "pickle"),
    "to_csv-text": ("csv", "to_csv", {}, ",", "to_string"),
    "to_tsv-text": ("tsv", "to_tsv", {}, "\t", "to_string"),
}
LOADS = {"default": {}, "static_column_types": {"static_column_types": True}}

RT_CELLS = ["a", "", "a,b", "a\tb", "a;b", "a|b", 'q"q', '"q"', "'q'", 'say "hi", ok', " x ", "1", "1.5", "007", "True",
            "None", "#c", "max", "id", "1-2", "10/5", "chr1:5", "a b"]
RT_COLS = {
    "int": [1, -2, 0, 10], "float": [1.5, -0.25, 1e-07, 2.0], "bigfloat": [1e20, 0.1, 3.0, -7.5],
    "str": ["x", "y z", "w", "x"], "str-empty": ["", "x", "", "y"], "bool": [True, False, True, True],
    "int-missing": [1, None, 3, None], "float-missing": [None, 2.5, None, 0.5], "str-int": ["x", 1, "y", 2],
    "str-delims": ["a,b", "a\tb", 'q"q', "a;b|c"], "numtext": ["1", "2", "3", "4"], "all-missing": [None, None, None, None],
}
RT_HEADERS = [["k", "v", "n"], ["k,1", 'v"2', "n 3"], ["a\tb", "c;d", "e|f"]]


def loads_for(lab):
    fam = IO[lab][4]
    if fam in ("json", "pickle"):
        return ["default"]
    if fam == "to_string":
        return ["static_column_types"]      # the text writers are paired with the reader that does not evaluate cells
    return list(LOADS)


def gen_roundtrip(tier, seed):
    thorough = tier == "thorough"
    labels = list(IO)
    # (a) one-cell tables (the minimal witnesses), and 0-row tables
    for c in RT_CELLS:
        for lab in labels:
            for load in loads_for(lab):
                yield [lab, load, {"h": ["k"], "r": [[c]]}]
    for h in RT_HEADERS + [["k"]]:
        for lab in labels:
            for load in loads_for(lab):
                yield [lab, load, {"h": h, "r": []}]
    # (b) two-row tables with one text column carrying the cell corpus
    for c1 in RT_CELLS:
        for c2 in RT_CELLS:
            if not thorough and RT_CELLS.index(c1) > RT_CELLS.index(c2):
                continue
            tab = {"h": ["k", "v", "n"], "r": [[c1, "z", 1], [c2, "y", 2]]}
            for lab in labels:
                for load in loads_for(lab):
                    yield [lab, load, tab]
    # (c) typed columns: every choice of <=3 columns x 1..4 rows
    names = list(RT_COLS)
    for ncol in (1, 2, 3):
        for combo in itertools.product(names, repeat=ncol):
            if ncol == 3 and not thorough and (names.index(combo[0]) + names.index(combo[1]) + names.index(combo[2])) % 6:
                continue
            for n in ((1, 2, 3, 4) if ncol < 3 else (2, 4)):
                for hi, h in enumerate(RT_HEADERS):
                    if hi and (ncol != 3 or n != 4):
                        continue
                    tab = {"h": h[:ncol], "r": [[RT_COLS[c][i] for c in combo] for i in range(n)]}
                    for lab in labels:
                        if IO[lab][4] == "to_string":
                            continue
                        if not thorough and ncol == 3 and lab in ("tsv+compress", "csv.gz", "txt+sep=|", "csv+format-arg"):
                            continue
                        yield [lab, "default", tab]
    # (d) seeded sample: up to 8 rows x up to 4 columns over all cells
    rnd = random.Random(seed * 7919 + 24)
    pool = RT_CELLS + [0, 1, -3, 2.5, 1e-3, True, False, None]
    for _ in range(4000 if thorough else 300):
        ncol, n = rnd.randint(1, 4), rnd.randint(1, 8)
        colvals = []
        for _c in range(ncol):
            k = rnd.randrange(3)
            if k == 0:
                colvals.append([rnd.choice(RT_CELLS) for _ in range(n)])
            elif k == 1:
                colvals.append([rnd.choice(RT_COLS[rnd.choice(names)]) for _ in range(n)])
            else:
                colvals.append([rnd.choice(pool) for _ in range(n)])
        tab = {"h": [f"c{i}" for i in range(ncol)], "r": [[cv[i] for cv in colvals] for i in range(n)]}
        lab = rnd.choice(labels)
        fam = IO[lab][4]
        load = rnd.choice(loads_for(lab))
        yield [lab, load, tab]


def _roundtrip(lab, load, t):
    """returns ("ok", table) | ("write"/"load", exception)"""
    from cogent3 import load_table
    suffix, wkw, lkw, sep, fam = IO[lab]
    with tempfile.TemporaryDirectory() as d:
        p = os.path.join(d, "t." + suffix)
        try:
            if wkw == "to_csv":
                text = t.to_csv()
            elif wkw == "to_tsv":
                text = t.to_tsv()
            else:
                text = None
                t.write(p, **wkw)
            if text is not None:
                with open(p, "w", newline="") as f:
                    f.write(text + "\n")
        except Exception as e:
            return ("write", e)
        if isinstance(wkw, dict) and wkw.get("compress"):
            p += ".gz"
        if not os.path.exists(p):
            return ("write", FileNotFoundError(f"nothing written at {os.path.basename(p)}: {os.listdir(d)}"))
        try:
            back = load_table(p, **dict(lkw, **LOADS[load]))
            return ("ok", view(back))
        except Exception as e:
            return ("load", e)


def culprit(lab, load, tab, sep, stage, exc_type):
    """witness pattern for an exception: the class of a cell that triggers it on its own"""
    if not tab["r"]:
        return "0-row-table"
    cells = []
    for r in tab["r"]:
        for v in r:
            if v not in cells:
                cells.append(v)
    for v in cells:
        res = _roundtrip(lab, load, build({"h": ["k"], "r": [[v]]}))
        if res[0] == stage and type(res[1]).__name__ == exc_type:
            return cell_pattern(v, sep) + "-cell"
    return "combination-of-cells"


def cell_pattern(v, sep):
    if isinstance(v, str):
        return cell_class(v, sep)
    return "missing" if v is None else type(v).__name__


def contract_roundtrip(case):
    lab, load, tab = case
    suffix, wkw, lkw, sep, fam = IO[lab]
    t = build(tab)
    eh, er = view(t)
    site = "roundtrip/" + {"delimited": "write-delimited", "to_string": "to_csv-or-to_tsv-text"}.get(fam, "write-" + fam) + f"/load={load}"
    if fam == "to_string":
        # the text writers format floats with the table's `digits` (documented): keep them out of the cell-text claim
        if any(isinstance(v, float) for r in er for v in r):
            return ("skip",)
    res = _roundtrip(lab, load, t)
    if res[0] != "ok":
        e = res[1]
        pat = culprit(lab, load, tab, sep, res[0], type(e).__name__)
        return ("fail", f"{site}/{res[0]}-raises-{type(e).__name__}/{pat}", f"{short(case)}: {type(e).__name__}: {e}")
    gh, gr = res[1]
    tabpat = "0-row-table" if not er else "rows"
    if gh != eh:
        return ("fail", f"{site}/header/{tabpat}", f"{short(case)}: header comes back as {gh}, was {eh}")
    if len(gr) != len(er):
        return ("fail", f"{site}/row-count/{tabpat}", f"{short(case)}: {len(gr)} rows come back, {len(er)} written: {short(gr)}")
    for i, (ro, rg) in enumerate(zip(er, gr)):
        for j, (o, g) in enumerate(zip(ro, rg)):
            if not text_ok(o, g):
                return ("fail", f"{site}/cell-text-changed/{cell_pattern(o, sep)}-cell",
                        f"{short(case)}: cell [{i}][{eh[j]!r}] was {o!r}, comes back as {short(g, 80)} ({type(g).__name__})")
    for j, c in enumerate(eh):
        kind = col_kind([r[j] for r in er])
        if kind in ("int", "float"):
            bad = [rg[j] for rg in gr if isinstance(rg[j], bool) or not isinstance(rg[j], (int, float))]
            if bad:
                return ("fail", f"{site}/numeric-column-not-restored/{kind}",
                        f"{short(case)}: column {c!r} held {kind}s, comes back with {short(bad)}")
            if any(float(ro[j]) != float(rg[j]) for ro, rg in zip(er, gr)):
                return ("fail", f"{site}/numeric-value-changed/{kind}", f"{short(case)}: column {c!r} comes back as {[rg[j] for rg in gr]}")
    r = unchanged(site, tabpat, [tab], [t], case)
    return r or ("ok", bool(er))


# ===================================================================================== registry
BOUNDED = {
    "sorted": {
        "gen": gen_sorted, "contract": contract_sorted,
        "functions": ["Table.sorted"],
        "bound": "1..4 rows (quick 1..3): one key column over 7 value kinds (int, float, str with prefix pairs and "
                 "empty, str beyond latin-1, bool, mixed numbers, missing) with and without a mixed payload column, "
                 "13 (columns, reverse) forms; two key columns over 5x5 kind pairs, 18 forms; beyond the frontier: runs of "
                 "equal keys in 16, 17 and 24 rows, and a seeded sample of 5..40 rows x 1..3 keys (quick 200, thorough 3000)",
        "rule": "a case = (table, columns, reverse); expected rows from successive stable list sorts; skipped when the "
                "key values are not mutually ordered; non-trivial when the table has >= 2 rows; distinct by hash",
    },
    "filter_count": {
        "gen": gen_filter, "contract": contract_filter,
        "functions": ["Table.filtered", "Table.count", "Table.count_unique", "Table.distinct_values",
                      "Table.get_row_indices", "Table.filtered_by_column"],
        "bound": "every table of 0..4 rows (quick 0..3) over 8 row values (int x str-or-empty x float-or-missing) and "
                 "0..3 rows over 8 (float, bool, mixed) rows; 12 predicates (callable and expression, columns given as "
                 "str / list / None) for filtered and count, 7 column forms for count_unique, 6 for distinct_values, 5 column "
                 "predicates for filtered_by_column; "
                 "seeded sample of 5..30 rows",
        "rule": "a case = (table, method, predicate-or-columns); non-trivial when the predicate keeps some but not all "
                "rows / when a value repeats; distinct by hash",
    },
    "joins": {
        "gen": gen_joins, "contract": contract_joins,
        "functions": ["Table.inner_join", "Table.cross_join", "Table.joined"],
        "bound": "every pair of tables with 0..3 rows each (quick: at most 5 rows together), duplicate keys, 7 key kinds "
                 "(int, str, float, bool, missing, int-vs-float, disjoint), key column named alike or differently, "
                 "12 call forms; two key columns: 0..3 rows each (quick 0..2) over 4 key pairs, 5 forms; seeded sample "
                 "with mixed-type key columns up to 8 rows",
        "rule": "a case = (left, right, call form); expected rows from the nested-loop join of the two row lists; "
                "non-trivial when the join is non-empty; distinct by hash",
    },
    "reshape": {
        "gen": gen_reshape, "contract": contract_reshape,
        "functions": ["Table.appended", "Table.transposed", "Table.get_columns", "Table.with_new_column",
                      "Table.__getitem__"],
        "bound": "appended: 0..2 rows + 0..2 rows over 5x5 column-kind pairs, 4 call forms, columns permuted; "
                 "transposed: 0..4 rows (quick 0..3), 4 kinds of header column x cells {1,'x',None}, 3 select forms; "
                 "get_columns: 0..3 rows over 4 row values (one with a missing first cell), every ordered subset of 3 "
                 "columns, str form, with/without index_name; "
                 "with_new_column: 0..3 rows over 4 row corpora x 11 derivations; seeded sample of larger tables",
        "rule": "a case = (method, arguments, tables); non-trivial when the inputs have rows; distinct by hash",
    },
    "roundtrip": {
        "gen": gen_roundtrip, "contract": contract_roundtrip,
        "functions": ["Table.write", "cogent3.load_table", "cogent3.parse.table.load_delimited",
                      "cogent3.util.table.cast_str_to_array", "Table.to_csv", "Table.to_tsv", "Table.to_string",
                      "cogent3.format.table.separator_format", "Table.to_json", "Table.__getstate__/__setstate__"],
        "bound": "12 write/read pairs (tsv, csv, .gz, compress=True, sep ; and |, format=csv, json, pickle, and the text "
                 "of to_csv/to_tsv) x 2 readers for delimited files (default, static_column_types); tables: all pairs of "
                 "23 text cells (delimiters, quotes, empty, padded, number-like, names) in a 2x3 table, every 1x1 "
                 "table, 0-row tables, every choice of <=3 of 12 typed columns (quick: a sixth of the triples) x 1..4 rows "
                 "(triples: 2 and 4) x 3 headers; seeded "
                 "sample up to 8 rows x 4 columns",
        "rule": "a case = (write/read pair, reader, table); same header, same cell text (numbers compared by value, a "
                "missing value may come back as empty text), int/float columns come back numeric; non-trivial when "
                "the table has rows; distinct by hash",
    },
}
