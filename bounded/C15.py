"""Bounded run-time contracts for C15 (stand-in tier; never counted as proved).

Estimators.  For an alignment (names, strings) and an estimator name, every way of asking cogent3 for the pairwise
distances -- the calculator object, `aln.distance_matrix(calc)`, `aln.distance_matrix(calc, drop_invalid=True)` and
the `fast_slow_dist(fast_calc=...)` app -- must give, for EVERY ordered pair of names (whole matrix, diagonal
included), the published formula evaluated by speclib/c15_spec.py on the columns in which both sequences show a
canonical state.  The spec never looks at column order, sequence order or at any third sequence, so order
independence, symmetry and the zero diagonal are part of the comparison.  Where the formula is undefined the
real code may answer NaN or raise ArithmeticError (which of the two is left open by the statement); a pair without
any usable column may also be reported as 0; for paralinear/LogDet the documented 0.5-padding of empty diagonal
cells is accepted next to the unpadded formula.

Trees.  A generator tree (nested lists, positive lengths) is turned into its additive (resp. ultrametric) matrix
by the spec; nj / gnj / DistanceMatrix.quick_tree / the quick_tree app (resp. upgma) must return a tree whose
weighted split set (resp. weighted clade set) equals the generator's -- zero-length internal edges contracted, so
that a binary resolution of a generator polytomy is accepted -- whose tip-to-tip path lengths, recomputed by the
spec from the returned node objects, equal the input matrix, and must leave the input unchanged.
"""
from __future__ import annotations

import itertools
import math
import random
import warnings

from speclib import c15_spec as S

TOL = 1e-9
CALCS = ["pdist", "hamming", "jc69", "tn93", "paralinear", "logdet", "logdet_notk"]
ENTRIES = ["calc", "dm", "dm_drop", "app"]
NONCANON = "-N?RYW"


# ================================================================================================ estimators
def _matrix_view(dm):
    names = [str(n) for n in dm.names]
    arr = dm.array
    if arr.shape != (len(names), len(names)):
        raise ValueError(f"shape {arr.shape} for {len(names)} names")
    return names, {(a, b): float(arr[i, j]) for i, a in enumerate(names) for j, b in enumerate(names)}


def _make_aln(mt, names, seqs, kind):
    from cogent3 import make_aligned_seqs
    return make_aligned_seqs(dict(zip(names, seqs)), moltype=mt, array_align=(kind == "array"))


def _prev_seqs(seqs):
    """the alignment a reused calculator / app saw before: same names and lengths, an identical pair (the first two
    or the last two sequences, in turn by content)"""
    if sum(map(len, seqs)) % 2 == 0 or len(seqs) < 3:
        return [seqs[0], seqs[0]] + list(seqs[2:])
    return list(seqs[:-2]) + [seqs[-1], seqs[-1]]


def run_entry(entry, calc, mt, names, seqs, kind):
    """-> ("matrix", names, {(a,b): float}) | ("none",) | ("arith", msg) | ("exc", type name, msg)"""
    from cogent3.evolve.fast_distance import get_distance_calculator
    name = "logdet" if calc == "logdet_notk" else calc
    try:
        with warnings.catch_warnings():
            warnings.simplefilter("ignore")
            aln = _make_aln(mt, names, seqs, kind)
            if entry == "calc":
                kw = {"use_tk_adjustment": False} if calc == "logdet_notk" else {}
                c = get_distance_calculator(name, moltype=aln.moltype, alignment=aln, **kw)
                c.run(show_progress=False)
                res = c.get_pairwise_distances()
            elif entry == "calc_reuse":
                # one calculator object over a history of alignments: first an alignment of the same names holding an
                # identical pair, then the alignment under test; the answer must depend on the last one only
                kw = {"use_tk_adjustment": False} if calc == "logdet_notk" else {}
                prev = _make_aln(mt, names, _prev_seqs(seqs), kind)
                c = get_distance_calculator(name, moltype=aln.moltype, alignment=prev, **kw)
                try:
                    c.run(show_progress=False)
                except ArithmeticError:
                    pass
                c.run(alignment=aln, show_progress=False)
                res = c.get_pairwise_distances()
            elif entry == "app_reuse":
                from cogent3.app.dist import fast_slow_dist
                app = fast_slow_dist(fast_calc=name, moltype=mt)
                app(_make_aln(mt, names, _prev_seqs(seqs), kind))
                res = app(aln)
                if type(res).__name__ == "NotCompleted":
                    msg = str(getattr(res, "message", res))
                    if "ArithmeticError" in msg:
                        return ("arith", msg)
                    return ("exc", "NotCompleted", msg[:300])
            elif entry == "dm":
                res = aln.distance_matrix(calc=name)
            elif entry == "dm_drop":
                res = aln.distance_matrix(calc=name, drop_invalid=True)
            elif entry == "app":
                from cogent3.app.dist import fast_slow_dist
                app = fast_slow_dist(fast_calc=name, moltype=mt)
                primer = {"dna": ["ACGTACGT", "ACGTTCGA", "ACCTACGA"], "rna": ["ACGUACGU", "ACGUUCGA", "ACCUACGA"],
                          "protein": ["ACDEFGHI", "ACDEYGHK", "ACCEFGHK"]}[mt]
                app(_make_aln(mt, ["p1", "p2", "p3"], primer, kind))       # an app object is made to be reused
                res = app(aln)
                if type(res).__name__ == "NotCompleted":
                    msg = str(getattr(res, "message", res))
                    if "ArithmeticError" in msg:
                        return ("arith", msg)
                    return ("exc", "NotCompleted", msg[:300])
            else:
                raise ValueError(entry)
    except ArithmeticError as e:
        return ("arith", str(e))
    except Exception as e:
        return ("exc", type(e).__name__, str(e)[:300])
    if res is None:
        return ("none",)
    try:
        nm, view = _matrix_view(res)
    except Exception as e:
        return ("exc", "view:" + type(e).__name__, str(e)[:300])
    return ("matrix", nm, view)


def _pair_specs(calc, mt, names, seqs):
    sp = {}
    for i, a in enumerate(names):
        for j, b in enumerate(names):
            if i != j:
                sp[(a, b)] = S.estimator_spec(calc, seqs[i], seqs[j], mt)
    return sp


def _zero_diff_partner(names, seqs, mt, x):
    """has sequence x a partner that shows no difference on the shared usable columns without being the same string?
    (the witness pattern of the duplicate short-cut)"""
    i = names.index(x)
    for k, z in enumerate(names):
        if k != i and seqs[k] != seqs[i]:
            n = S.count_matrix(seqs[i], seqs[k], mt)
            if sum(n[a][b] for a in range(len(n)) for b in range(len(n)) if a != b) == 0:
                return True
    return False


def contract_estimators(case):
    entry, calc, mt, names, seqs, kind = case
    if calc == "logdet_notk" and entry not in ("calc", "calc_reuse"):
        return ("skip",)                       # only the calculator object exposes use_tk_adjustment
    if calc in ("tn93", "jc69") and mt == "protein":
        return ("skip",)
    specs = _pair_specs(calc, mt, names, seqs)
    adm = {k: S.admissible(v) for k, v in specs.items()}
    some_undefined_ok = any(nan_ok for vals, nan_ok in adm.values())
    strictly_defined = [n for n in names if all(not adm[(n, m)][1] for m in names if m != n)]
    res = run_entry(entry, calc, mt, names, seqs, kind)
    site = f"est/{entry}/{calc}"
    ctx = f"{case}"
    nontrivial = any(v["diffs"] > 0 and (v["exact"] is not None or v["alt"] is not None) for v in specs.values())
    if res[0] == "exc":
        return ("fail", f"{site}/raises:{res[1]}", f"{ctx}: {res[1]}: {res[2]}")
    if res[0] == "arith":
        if some_undefined_ok:
            return ("ok", nontrivial)
        zd = any(_zero_diff_partner(names, seqs, mt, n) for n in names)
        return ("fail", f"{site}/zero-diff-partner" if zd else f"{site}/plain/ArithmeticError-although-every-pair-is-defined",
                f"{ctx}: {res[1]}")
    if res[0] == "none":
        if entry == "dm_drop" and len(strictly_defined) < 2:
            return ("ok", nontrivial)
        zd = any(_zero_diff_partner(names, seqs, mt, n) for n in names)
        return ("fail", f"{site}/zero-diff-partner" if zd else f"{site}/plain/returns-None",
                f"{ctx}: None returned; sequences with all pairs defined: {strictly_defined}")
    _, got_names, view = res
    zdp = {n: _zero_diff_partner(names, seqs, mt, n) for n in names}
    if entry == "dm_drop":
        if len(set(got_names)) != len(got_names) or not set(got_names) <= set(names):
            return ("fail", f"{site}/names", f"{ctx}: names {got_names}")
        missing = [n for n in strictly_defined if n not in got_names]
        if missing and len(strictly_defined) >= 2:
            return ("fail", (f"{site}/zero-diff-partner" if any(zdp.values()) else f"{site}/plain/drops-a-sequence-whose-pairs-are-all-defined"),
                    f"{ctx}: kept {got_names}, missing {missing}")
    elif sorted(got_names) != sorted(names):
        return ("fail", f"{site}/names", f"{ctx}: names {got_names}, alignment has {names}")
    for a in got_names:
        if not (view[(a, a)] == 0.0):
            return ("fail", f"{site}/diagonal", f"{ctx}: d({a},{a}) = {view[(a, a)]}")
    found = None
    for a in got_names:
        for b in got_names:
            if a == b:
                continue
            v, w = view[(a, b)], view[(b, a)]
            if not (v == w or (math.isnan(v) and math.isnan(w))):
                return ("fail", f"{site}/asymmetric", f"{ctx}: d({a},{b}) = {v} but d({b},{a}) = {w}")
            vals, nan_ok = adm[(a, b)]
            sp = specs[(a, b)]
            if math.isnan(v):
                good = nan_ok and entry != "dm_drop"
            else:
                good = any(S.close(v, e) for e in vals)
            if good:
                continue
            if math.isnan(v):
                sub = "nan-in-result-of-drop_invalid" if (entry == "dm_drop" and nan_ok) else "nan-for-defined-pair"
            elif sp["total"] == 0:
                sub = "nonzero-for-pair-without-usable-column"
            elif not vals:
                sub = "finite-for-undefined-pair"
            else:
                sub = "wrong-value"
            if sp["code"] and sp["total"] > 0:
                sub += f"[{sp['code']}]"
            pat = "zero-diff-partner" if (zdp[a] or zdp[b]) else "plain"
            fail = ("fail", f"{site}/plain/{sub}" if pat == "plain" else f"{site}/zero-diff-partner",
                    f"{ctx}: d({a},{b}) = {v}; spec on the shared canonical columns: total={sp['total']} diffs={sp['diffs']} "
                    f"published={sp['exact']} padded={sp['alt']} {sp['why']}; admissible {vals}{' or undefined' if nan_ok else ''}")
            if pat == "plain":
                return fail                    # a violation that the duplicate short-cut cannot explain comes first
            found = found or fail
    if found:
        return found
    return ("ok", nontrivial)


# ------------------------------------------------------------------------------------------------ generators
def _names_for(k, variant):
    base = [["s1", "s2", "s3", "s4", "s5", "s6"], ["b", "a", "d", "c", "f", "e"], ["x10", "x2", "x1", "y", "X", "x3"]][variant % 3]
    return base[:k]


def gen_pairs(tier, seed):
    """every pair of strings of equal length 1..3 over ACGT-N"""
    thorough = tier == "thorough"
    alpha = "ACGT-N"
    others = [e for e in ENTRIES if e != "calc"]
    t = 0
    for L in (1, 2, 3):
        strings = ["".join(x) for x in itertools.product(alpha, repeat=L)]
        for s1 in strings:
            for s2 in strings:
                t += 1
                if L <= 2:
                    todo = [(c, e) for c in CALCS for e in ENTRIES]
                elif thorough:               # every estimator through the calculator and one more entry point in turn
                    todo = [(c, e) for k, c in enumerate(CALCS)
                            for e in (("calc", others[(t + k) % 3]) if (t + k) % 3 == 0 else ("calc",))]
                else:                        # quick: one estimator in turn (all of them over any 7 consecutive pairs)
                    todo = [(CALCS[t % 7], "calc")]
                for calc, entry in todo:
                    yield [entry, calc, "dna", ["s1", "s2"], [s1, s2], "array"]


def _count_multisets(cols, size):
    return itertools.combinations_with_replacement(cols, size)


def gen_counts(tier, seed):
    """two sequences: every multiset of <= S canonical columns (= every 4x4 count matrix of sum <= S), columns
    shuffled, with and without interspersed non-canonical columns"""
    rnd = random.Random(seed)
    thorough = tier == "thorough"
    S_max = 5 if thorough else 4
    cols = [a + b for a in "ACGT" for b in "ACGT"]
    noise_cols = [a + b for a in "ACGT" + NONCANON for b in "ACGT" + NONCANON if a in NONCANON or b in NONCANON]
    for size in range(1, S_max + 1):
        full = size <= 3
        for ms in _count_multisets(cols, size):
            plain = list(ms)
            rnd.shuffle(plain)
            noisy = list(ms) + [rnd.choice(noise_cols) for _ in range(rnd.choice((1, 2, 3)))]
            rnd.shuffle(noisy)
            variants = [("plain", plain), ("noisy", noisy)] if (full or thorough) else [("noisy", noisy)]
            for variant, cl in variants:
                s1 = "".join(c[0] for c in cl)
                s2 = "".join(c[1] for c in cl)
                for calc in CALCS:
                    ents = ["calc", "dm"] if (full or (thorough and variant == "noisy")) else ["calc"]
                    for entry in ents:
                        yield [entry, calc, "dna", ["s1", "s2"], [s1, s2], "array"]
    # up to sum 6 for the estimators whose formula needs all four bases (their first defined and first boundary
    # inputs sit there)
    for size in (range(S_max + 1, 7) if thorough else (6,)):
        for ms in _count_multisets(cols, size):
            cl = list(ms)
            rnd.shuffle(cl)
            for calc in (["tn93", "paralinear"] if thorough else ["tn93"]):
                yield ["calc", calc, "dna", ["s1", "s2"], ["".join(c[0] for c in cl), "".join(c[1] for c in cl)], "array"]


def _compositions(n, k):
    """all ways of writing n as an ordered sum of k positive integers"""
    if k == 1:
        yield (n,)
        return
    for first in range(1, n - k + 2):
        for rest in _compositions(n - first, k - 1):
            yield (first,) + rest


def gen_sparse_counts(tier, seed):
    """two sequences, more columns but few column kinds: every count matrix of sum 7 (thorough 7..8) supported on
    2..4 cells -- the smallest inputs on which the frequency matrix of paralinear / LogDet is exactly singular
    although the sequences differ and no diagonal cell needs padding away"""
    rnd = random.Random(seed)
    thorough = tier == "thorough"
    cols = [a + b for a in "ACGT" for b in "ACGT"]
    for size in ((7, 8) if thorough else (7,)):
        for k in ((2, 3, 4) if thorough else (4,)):
            for cells in itertools.combinations(cols, k):
                for comp in _compositions(size, k):
                    cl = [c for c, m in zip(cells, comp) for _ in range(m)]
                    rnd.shuffle(cl)
                    seqs = ["".join(c[0] for c in cl), "".join(c[1] for c in cl)]
                    for calc in (("paralinear", "logdet") if (thorough and size == 7) else ("paralinear",)):
                        yield ["calc", calc, "dna", ["s1", "s2"], seqs, "array"]


def gen_triples(tier, seed):
    """three sequences: every multiset of <= K columns over alphabet^3, columns shuffled"""
    rnd = random.Random(seed)
    thorough = tier == "thorough"
    others = [e for e in ENTRIES if e != "calc"]
    if thorough:
        jobs = [("ACGN", 3, [c for c in CALCS if c != "logdet_notk"], None),
                ("AC-", 4, ["pdist", "jc69"], ["dm_drop"])]
    else:
        jobs = [("ACN", 3, ["pdist", "hamming", "jc69"], None),
                ("ACGN", 2, ["tn93", "paralinear", "logdet"], ["calc", "dm"])]
    v = 0
    for alpha, K, calcs, entries in jobs:
        cols = ["".join(t) for t in itertools.product(alpha, repeat=3)]
        for size in range(1, K + 1):
            for ms in _count_multisets(cols, size):
                cl = list(ms)
                rnd.shuffle(cl)
                seqs = ["".join(c[i] for c in cl) for i in range(3)]
                v += 1
                names = _names_for(3, v)
                for k, calc in enumerate(calcs):
                    ents = entries or (ENTRIES if size <= 2 else
                                       ["calc", others[(v + k) % 3]] if (thorough is False or (v + k) % 2 == 0) else ["calc"])
                    for entry in ents:
                        yield [entry, calc, "dna", names, seqs, "array"]


def _mutate(rnd, s, states, rate):
    return "".join((rnd.choice([x for x in states if x != c]) if rnd.random() < rate else c) for c in s)


def _sprinkle(rnd, s, noncanon, rate):
    return "".join((rnd.choice(noncanon) if rnd.random() < rate else c) for c in s)


def gen_sample(tier, seed):
    """seeded sample beyond the enumeration frontier: 2..6 sequences of length 6..60 evolved from a common
    ancestor (so most formulas are defined), exact duplicates, sequences differing only in their non-canonical
    columns, saturated pairs; dna, rna (all estimators) and protein (pdist, hamming); both alignment classes"""
    rnd = random.Random(seed + 15)
    n = 2500 if tier == "thorough" else 250
    for t in range(n):
        mt = rnd.choice(["dna", "dna", "dna", "rna", "protein"])
        states = {"dna": "ACGT", "rna": "ACGU", "protein": "ACDEFGHIKLMNPQRSTVWY"}[mt]
        noncanon = {"dna": NONCANON, "rna": NONCANON, "protein": "-X?BZ"}[mt]
        k = rnd.choice((2, 3, 3, 4, 5, 6))
        L = rnd.choice((6, 9, 14, 25, 40, 60))
        anc = "".join(rnd.choice(states) for _ in range(L))
        seqs = []
        for i in range(k):
            how = rnd.random()
            if seqs and how < 0.15:
                s = rnd.choice(seqs)                                   # exact duplicate
            elif seqs and how < 0.35:
                base = rnd.choice(seqs)                                # same states, other non-canonical columns
                s = _sprinkle(rnd, "".join(a if c in noncanon else c for a, c in zip(anc, base)) if rnd.random() < 0.5 else base,
                              noncanon, 0.25)
            elif how < 0.45:
                s = "".join(rnd.choice(states) for _ in range(L))      # unrelated: often saturated
            else:
                s = _mutate(rnd, anc, states, rnd.choice((0.03, 0.1, 0.25)))
            if rnd.random() < 0.5:
                s = _sprinkle(rnd, s, noncanon, rnd.choice((0.05, 0.2)))
            seqs.append(s)
        names = _names_for(k, t)
        kind = "array" if t % 2 == 0 else "std"
        calcs = ["pdist", "hamming"] if mt == "protein" else CALCS
        for calc in calcs:
            for entry in ENTRIES:
                yield [entry, calc, mt, names, seqs, kind]


def gen_reuse(tier, seed):
    """histories: the alignments of gen_triples / gen_sample asked of a calculator object (every case) or app (every
    third case) that has already been run on another alignment of the same names with an identical pair"""
    thorough = tier == "thorough"
    t = 0
    for src, keep in ((gen_triples, 8 if thorough else 3), (gen_sample, 1)):
        for case in src(tier, seed):
            if case[0] != "calc":
                continue
            t += 1
            if t % keep:
                continue
            yield ["calc_reuse"] + case[1:]
            if (t // keep) % 3 == 0 and case[1] != "logdet_notk":
                yield ["app_reuse"] + case[1:]


# ================================================================================================ trees
NJ_ENTRIES = ["nj/full-dict", "nj/upper-dict", "nj/DistanceMatrix", "gnj/keep=1", "gnj/default", "DistanceMatrix.quick_tree",
              "app.quick_tree"]
UPGMA_ENTRIES = ["upgma/full-dict", "upgma/upper-dict", "upgma/DistanceMatrix"]


def _to_nested(node, depth=0):
    if depth > 200:
        raise RecursionError("tree deeper than 200")
    kids = list(node.children)
    ln = node.length
    return [None if kids else str(node.name), None if ln is None else float(ln), [_to_nested(c, depth + 1) for c in kids]]


def _build_input(form, dist, order, rnd_flip):
    """the distances in the requested input form; dict insertion follows `order`"""
    from cogent3.evolve.fast_distance import DistanceMatrix
    pairs = [(a, b) for a in order for b in order if a != b]
    full = {p: dist[tuple(p)] for p in pairs}
    if form == "full-dict":
        return full, dict(full)
    if form == "upper-dict":
        up = {}
        for i, a in enumerate(order):
            for j in range(i + 1, len(order)):
                b = order[j]
                key = (b, a) if rnd_flip[(i + j) % len(rnd_flip)] else (a, b)
                up[key] = dist[(a, b)]
        return up, dict(up)
    dm = DistanceMatrix(full)
    return dm, _matrix_view(dm)


def _input_unchanged(form, obj, snapshot):
    if form in ("full-dict", "upper-dict"):
        return obj == snapshot
    names, view = _matrix_view(obj)
    return (names, view) == snapshot


def _call_tree(entry, obj):
    from cogent3.cluster.UPGMA import upgma
    from cogent3.phylo.nj import gnj, nj
    fn = entry.split("/")[0]
    if fn == "nj":
        return nj(obj, show_progress=False)
    if fn == "gnj":
        kw = {"keep": 1} if entry.endswith("keep=1") else {}
        coll = gnj(obj, show_progress=False, **kw)
        return coll[0][1]
    if fn == "DistanceMatrix.quick_tree":
        return obj.quick_tree()
    if fn == "app.quick_tree":
        from cogent3.app.tree import quick_tree
        r = quick_tree()(obj)
        if type(r).__name__ == "NotCompleted":
            raise RuntimeError("NotCompleted: " + str(getattr(r, "message", r))[:300])
        return r
    if fn == "upgma":
        return upgma(obj)
    raise ValueError(entry)


def _form_of(entry):
    if entry.endswith("-dict"):
        return entry.split("/")[1]
    if entry.startswith("gnj"):
        return "full-dict"
    return "DistanceMatrix"


def _tree_contract(case, rooted):
    entry, gen_tree, order, tags = case
    dist = {tuple(k): v for k, v in (S.ultrametric_distances(gen_tree) if rooted else S.additive_distances(gen_tree)).items()}
    form = _form_of(entry)
    flips = [((len(order) * 7 + i * 3) % 5) < 2 for i in range(7)]
    site = f"tree/{entry}/{tags[1]}"
    ctx = f"{case}"
    try:
        with warnings.catch_warnings():
            warnings.simplefilter("ignore")
            obj, snap = _build_input(form, dist, order, flips)
            tree = _call_tree(entry, obj)
            got = _to_nested(tree)
            unchanged = _input_unchanged(form, obj, snap)
    except Exception as e:
        return ("fail", f"{site}/raises:{type(e).__name__}", f"{ctx}: {type(e).__name__}: {str(e)[:300]}")
    tips = S.tips_of(got)
    if sorted(tips) != sorted(order):
        return ("fail", f"{site}/tips", f"{ctx}: returned tips {tips}")
    view = S.weighted_clades if rooted else S.weighted_splits
    want, _ = view(gen_tree, TOL)
    have, _ = view(got, TOL)
    show = (lambda k: "".join(sorted(k)) if all(len(x) == 1 for x in k) else ",".join(sorted(k))) if rooted else S.show_split
    if set(want) != set(have):
        extra = sorted(show(k) for k in set(have) - set(want))
        lost = sorted(show(k) for k in set(want) - set(have))
        return ("fail", f"{site}/topology", f"{ctx}: {'clades' if rooted else 'splits'} not in the generator {extra}, "
                                            f"generator's missing {lost}; returned {got}")
    for k in want:
        if not (abs(want[k] - have[k]) <= TOL * max(1.0, abs(want[k]))):
            kind = "tip" if (len(k) == 1 if rooted else min(len(s) for s in k) == 1) else "internal"
            return ("fail", f"{site}/branch-length/{kind}", f"{ctx}: edge {show(k)} has length {have[k]}, generator {want[k]}")
    back = S.additive_distances(got)
    for k, v in dist.items():
        if not (abs(back[k] - v) <= TOL * max(1.0, abs(v))):
            return ("fail", f"{site}/distances", f"{ctx}: path length {k} in the returned tree {back[k]}, input {v}")
    if not unchanged:
        return ("fail", f"{site}/input-changed", f"{ctx}: the distances passed in were modified")
    return ("ok", True)


def contract_nj(case):
    return _tree_contract(case, rooted=False)


def contract_upgma(case):
    return _tree_contract(case, rooted=True)


LETTERS = list("abcdefghijklmnopqrstuvwxyz")
MULTI = ["t1", "t10", "t2", "t11", "T3", "t_4", "t5", "x6", "t7", "t8", "t9", "t12", "t13", "t14", "t15", "t16", "t17", "t18"]
LSET = [0.25, 0.5, 1.0, 2.0, 3.25]
ODD = [0.1, 0.37, 1.3, 0.013]


def _orders(n, rnd):
    """three (leaf naming, dict insertion order) variants"""
    a = LETTERS[:n]
    b = list(reversed(a))
    c = MULTI[:n]
    rnd.shuffle(c)
    out = []
    for names in (a, b, c):
        ins = list(names)
        rnd.shuffle(ins)
        out.append((names, ins))
    return out


def _assignments(k, values, cap, extra, rnd):
    """every assignment of `values` to k slots when there are at most `cap` of them, else `cap` seeded ones; plus
    `extra` assignments from the larger length sets"""
    if len(values) ** k <= cap:
        out = [list(t) for t in itertools.product(values, repeat=k)]
    else:
        out = [[rnd.choice(values) for _ in range(k)] for _ in range(cap)]
    for i in range(extra):
        pool = LSET if i % 2 == 0 else ODD + LSET
        out.append([rnd.choice(pool) for _ in range(k)])
    return out


def _random_shape(n, rnd, binary_bias=0.7):
    if n == 1:
        return ()
    k = 2 if (rnd.random() < binary_bias or n == 2) else rnd.randint(2, min(4, n))
    cuts = sorted(rnd.sample(range(1, n), k - 1))
    sizes = [b - a for a, b in zip([0] + cuts, cuts + [n])]
    return tuple(_random_shape(s, rnd, binary_bias) for s in sizes)


def gen_nj(tier, seed):
    rnd = random.Random(seed + 1)
    thorough = tier == "thorough"
    nmax = 8 if thorough else 7
    cap = 512 if thorough else 32
    extra = 12 if thorough else 4
    for n in range(3, nmax + 1):
        for shape in S.unrooted_shapes(n):
            tag = "binary" if S.is_binary(shape, rooted=False) else "polytomy"
            for lengths in _assignments(S.n_edges(shape), [0.5, 2.0], cap if n <= 6 else cap // 4, extra, rnd):
                for names, ins in _orders(n, rnd):
                    tree = S.label(shape, names, lengths)
                    for entry in NJ_ENTRIES:
                        yield [entry, tree, ins, [n, tag, "enumerated"]]
    # beyond the frontier: random shapes on 9..16 tips with arbitrary positive lengths
    for t in range(400 if thorough else 25):
        n = rnd.randint(nmax + 1, 16)
        shape = _random_shape(n, rnd)
        while len(shape) == 2:                     # unrooted generator: suppress a root of degree 2
            a, b = shape
            shape = a + (b,) if a else b + (a,)
        tag = "binary" if S.is_binary(shape, rooted=False) else "polytomy"
        lengths = [round(rnd.uniform(0.01, 3.0), 4) for _ in range(S.n_edges(shape))]
        names, ins = _orders(n, rnd)[t % 3]
        tree = S.label(shape, names, lengths)
        for entry in NJ_ENTRIES:
            yield [entry, tree, ins, [n, tag, "sampled"]]


def gen_upgma(tier, seed):
    rnd = random.Random(seed + 2)
    thorough = tier == "thorough"
    nmax = 8 if thorough else 7
    cap = 128 if thorough else 16
    extra = 6 if thorough else 2
    for n in range(3, nmax + 1):
        for shape in S.rooted_shapes(n):
            tag = "binary" if S.is_binary(shape, rooted=True) else "polytomy"
            c = cap if n <= 6 else max(4, cap // 8)
            for deltas in _assignments(S.n_internal(shape), [0.5, 1.5], c, extra if n <= 7 else 1, rnd):
                for names, ins in _orders(n, rnd):
                    tree = S.label_ultrametric(shape, names, deltas)
                    for entry in UPGMA_ENTRIES:
                        yield [entry, tree, ins, [n, tag, "enumerated"]]
    for t in range(400 if thorough else 25):
        n = rnd.randint(nmax + 1, 16)
        shape = _random_shape(n, rnd)
        tag = "binary" if S.is_binary(shape, rooted=True) else "polytomy"
        deltas = [round(rnd.uniform(0.01, 2.0), 4) for _ in range(S.n_internal(shape))]
        names, ins = _orders(n, rnd)[t % 3]
        tree = S.label_ultrametric(shape, names, deltas)
        for entry in UPGMA_ENTRIES:
            yield [entry, tree, ins, [n, tag, "sampled"]]


_EST_FUNCS = ["evolve.fast_distance._PairwiseDistance.run / get_pairwise_distances / _expand",
              "evolve.fast_distance._hamming, _jc69_from_matrix, _tn93_from_matrix, _paralinear, _logdet, _logdetcommon",
              "evolve.pairwise_distance_numba.fill_diversity_matrix", "evolve.fast_distance.get_moltype_index_array, seq_to_indices",
              "AlignedSeqsBase.distance_matrix (drop_invalid False/True)", "DistanceMatrix.drop_invalid",
              "app.dist.fast_slow_dist(fast_calc=...)"]
_EST_RULE = ("a case = (entry point, estimator, moltype, names, strings, alignment class); the whole returned matrix is "
             "compared with the spec; non-trivial when some pair differs on a usable column and has a defined (published or padded) distance; "
             "distinct by hash of the case")

BOUNDED = {
    "estimators_pairs": {
        "gen": gen_pairs, "contract": contract_estimators, "functions": _EST_FUNCS,
        "bound": "every pair of equal-length strings of length 1..3 over ACGT-N; length <= 2: x 7 estimators (pdist, hamming, "
                 "jc69, tn93, paralinear, logdet, logdet without TK adjustment) x 4 entry points; length 3: quick one estimator "
                 "per pair in turn through the calculator object, thorough all 7 through the calculator and, every third time, one "
                 "further entry point in turn",
        "rule": _EST_RULE, "shards": 16,
    },
    "estimators_counts": {
        "gen": gen_counts, "contract": contract_estimators, "functions": _EST_FUNCS,
        "bound": "two sequences realising every 4x4 count matrix of sum 1..4 (thorough 1..5): columns in a seeded order, "
                 "with 1-3 columns holding one of -N?RYW interspersed and (sum <= 3, thorough all) also without; 7 "
                 "estimators; calculator object, plus aln.distance_matrix for sum <= 3 (thorough: all noisy ones); "
                 "sum 6 as well: tn93 (thorough also paralinear) through the calculator object",
        "rule": _EST_RULE, "shards": 16,
    },
    "estimators_sparse_counts": {
        "gen": gen_sparse_counts, "contract": contract_estimators, "functions": _EST_FUNCS,
        "bound": "two sequences realising every 4x4 count matrix of sum 7 (thorough 7..8) with 4 (thorough 2..4) non-zero "
                 "cells, columns in a seeded order; paralinear (thorough, sum 7: also logdet) through the calculator object",
        "rule": _EST_RULE, "shards": 16,
    },
    "estimators_triples": {
        "gen": gen_triples, "contract": contract_estimators, "functions": _EST_FUNCS,
        "bound": "three sequences: every multiset of <= 3 columns over {A,C,N}^3 x (pdist, hamming, jc69), of <= 2 columns over "
                 "{A,C,G,N}^3 x (tn93, paralinear, logdet); thorough: <= 3 columns over {A,C,G,N}^3 x 6 estimators and <= 4 "
                 "columns over {A,C,-}^3 x (pdist, jc69) through distance_matrix(drop_invalid=True); 4 entry points up to 2 columns, beyond that the calculator object "
                 "and (thorough: every second time) one further entry point in turn; three name sets, columns in a seeded order",
        "rule": _EST_RULE, "shards": 16,
    },
    "estimators_sample": {
        "gen": gen_sample, "contract": contract_estimators, "functions": _EST_FUNCS,
        "bound": "seeded sample beyond the frontier: 250 (thorough 2500) alignments of 2..6 sequences, length 6..60, dna / rna "
                 "(7 estimators) and protein (pdist, hamming), evolved from one ancestor with duplicates, sequences differing "
                 "only in non-canonical columns and unrelated (saturated) sequences; both alignment classes; 4 entry points",
        "rule": _EST_RULE, "shards": 16,
    },
    "estimators_reuse": {
        "gen": gen_reuse, "contract": contract_estimators, "functions": _EST_FUNCS,
        "bound": "histories of length 2 on one calculator object / one fast_slow_dist app: first an alignment of the same "
                 "names in which two sequences are identical, then the alignment under test (every third (thorough eighth) "
                 "alignment of the triples enumeration and every alignment of the sample); the calculator for each, the app "
                 "for every third; compared with the formulas exactly as a single run",
        "rule": _EST_RULE, "shards": 16,
    },
    "nj_additive": {
        "gen": gen_nj, "contract": contract_nj,
        "functions": ["phylo.nj.nj", "phylo.nj.gnj (keep=1 and default keep; first tree)", "phylo.nj.PartialTree.join / "
                      "asScoreTreeTuple", "phylo.util.distance_dict_to_2D / lookup_symmetric_dict",
                      "DistanceMatrix.quick_tree", "app.tree.quick_tree"],
        "bound": "every unrooted tree shape without degree-2 vertices (binary and multifurcating) on 3..7 tips (thorough 8) x "
                 "edge lengths: all assignments from {0.5, 2} when there are <= 32 (thorough 512), else that many seeded "
                 "ones, plus 4 (12) assignments from {0.25,0.5,1,2,3.25} and {0.1,0.37,1.3,0.013} x 3 tip namings / dict "
                 "orders x 7 entry points (full dict, one-triangle dict, DistanceMatrix, gnj, quick_tree method and app); "
                 "sample: 25 (400) random shapes on up to 16 tips with lengths in [0.01, 3]",
        "rule": "a case = (entry point, generator tree, dict insertion order); the returned tree's weighted split set, its "
                "tip-to-tip path lengths and the input are compared; always non-trivial; distinct by hash of the case",
        "shards": 16,
    },
    "upgma_ultrametric": {
        "gen": gen_upgma, "contract": contract_upgma,
        "functions": ["cluster.UPGMA.upgma", "cluster.UPGMA.UPGMA_cluster / condense_matrix / condense_node_order / "
                      "find_smallest_index / inputs_from_dict_array"],
        "bound": "every rooted tree shape (binary and multifurcating) on 3..7 tips (thorough 8) x node heights: an internal "
                 "node sits 0.5 or 1.5 above its highest child, all assignments when <= 16 (thorough 128) else seeded, plus "
                 "assignments from the larger sets x 3 tip namings / dict orders x 3 input forms (full dict, one-triangle "
                 "dict, DistanceMatrix); sample: 25 (400) random shapes on up to 16 tips with height steps in [0.01, 2]",
        "rule": "a case = (input form, ultrametric generator tree, dict insertion order); the returned tree's weighted clade "
                "set, its tip-to-tip path lengths and the input are compared; always non-trivial; distinct by hash of the case",
        "shards": 16,
    },
}
