"""Bounded run-time contracts for C04 -- annotations keep denoting the same residues through every view.

Independent spec (plain lists / strings, no cogent3 object):

* a *root* is a plain string ``P`` (plus strand) with an annotation offset ``off``; a *view* is the list ``pos`` of
  root indices it displays, in display order, plus a flag ``rev`` (the display is complemented);
* a *feature* is a set of absolute plus-strand positions (root index + ``off``) with a strand; through a view it
  denotes ``F & set(pos)``; its slice is ``P`` at those positions in ascending order, reverse complemented when
  the feature is on the minus strand -- whatever the orientation of the view;
* a query window ``[a:b]`` of a view displays ``W = pos[a:b]``.  With partial matches a feature *must* be returned
  when ``F & W`` is non-empty and *may* be returned when its extent ``[min F, max F]`` meets the hull
  ``[min W, max W]`` (the weaker, record-level reading -- DESIGN.md C04); without partial matches it *must* be
  returned when ``F <= W`` and *may* be when its extent lies inside the hull.  A returned feature outside *may*
  or an absent feature inside *must* is a violation; zero-width windows leave membership open, and on a view
  with stride ``k`` the hull is widened by ``k-1`` (the window boundary lies between displayed positions).
* every returned feature must slice (``get_slice`` and ``view[feature]``) to the spec residues, and no query,
  history step or slice may raise.

``add_feature`` on a view: the statement does not say how coordinates given to a reverse-complemented view are
read, so displayed coordinates (strand relative to the view) and plus-strand coordinates of the displayed segment
(absolute strand) are both accepted; the reading that explains the returned feature is binding afterwards.

Failure keys: ``<carrier>/<type>/<load>[/offset]/<call site>/<symptom>/<feature class>/view=<class>/after=<step>``.
A failing history is reported for its shortest failing prefix, so ``after=`` names the step that broke the property.

Alignments: a root is ``{name: gapped row}``; a view is a list of root columns (display order), ``rev`` and the
kept names.  A sequence feature lives on the degapped row; through the view it denotes the root columns that hold
its residues and are displayed; its slice is the alignment restricted to those columns (ascending, reverse
complemented for a minus feature).  An alignment feature is a set of root columns.  Projection onto row ``m``
gives the non-gap residues of ``m`` in those columns.
"""
from __future__ import annotations

import copy as _copy
import os
import random
import tempfile

COMP = dict(zip("ACGTRYMKSWNBVDH-?", "TGCAYRKMSWNVBHD-?"))
GAPS = "-?"


def comp(s):
    return "".join(COMP[c] for c in s)


def rc_str(s):
    return comp(s[::-1])


# ================================================================================================ spec: views
def view_root(P):
    return list(range(len(P))), False, 1


def view_apply(P, pos, rev, st, op):
    """plain-list model of one history step; returns (pos, rev, stride)"""
    k = op[0]
    if k == "s":
        a, b, c = op[1], op[2], op[3]
        new = pos[a:b:c]
        return new, (not rev if (c is not None and c < 0) else rev), st * abs(c or 1)
    if k == "rc":
        return pos[::-1], not rev, st
    if k in ("cp", "dc"):
        return list(pos), rev, st
    if k == "i":        # integer index: the one-residue view x[i]
        return [pos[op[1]]], rev, st
    if k == "dg":
        return [i for i in pos if P[i] not in GAPS], rev, st
    if k == "f":
        # slice by a single-span feature: its retained residues, read on the feature's strand; op = ["f", name, Fabs-off, strand]
        keep = sorted(i for i in op[2] if i in set(pos))
        return (keep[::-1], True, st) if op[3] == "-" else (keep, False, st)
    raise ValueError(op)


def op_kind(op):
    k = op[0]
    if k == "s":
        c = op[3]
        if c is not None and c < 0:
            return "s-"
        if c is not None and c > 1:
            return "s2"
        return "s"
    return k


def ops_sig(ops):
    return "{" + ",".join(sorted({op_kind(o) for o in ops})) + "}"


def view_sig(P, pos, rev, st, ops):
    """class of the view for failure keys: orientation, strided, and the last history step (failures are reported
    for the shortest failing prefix of a history, so the last step is the one that broke the property)"""
    parts = ["rev" if rev else "fwd"]
    if st > 1:
        parts.append("strided")
    # a view derived from a degapped sequence or from a feature slice is a class of its own
    parts += sorted({o[0] for o in ops[:-1]} & {"dg", "f"})
    return ",".join(parts) + "/after=" + (op_kind(ops[-1]) if ops else "root")


def display(P, pos, rev):
    s = "".join(P[i] for i in pos)
    return comp(s) if rev else s


def feat_positions(spans):
    return sorted({i for a, b in spans for i in range(a, b)})


def feat_residues(P, off, spans, strand, retained):
    """residues of the feature restricted to the retained root indices, read on the feature's strand"""
    keep = [i - off for i in feat_positions(spans) if (i - off) in retained]
    s = "".join(P[i] for i in keep)
    return rc_str(s) if strand == "-" else s


def membership(Fabs, off, W, partial, st=1):
    """(must, may) for a feature with absolute positions Fabs and a displayed window W (root indices); on a view
    with stride st the boundary of the window lies somewhere in the st-1 undisplayed positions next to its ends"""
    if not W or not Fabs:
        return False, False
    F = [i - off for i in Fabs]
    Ws = set(W)
    lo, hi = min(W) - (st - 1), max(W) + (st - 1)
    flo, fhi = min(F), max(F)
    if partial:
        must = any(i in Ws for i in F)
        may = flo <= hi and lo <= fhi
    else:
        must = all(i in Ws for i in F)
        may = lo <= flo and fhi <= hi
    return must, may


def state_of(Fabs, off, pos):
    """how much of the feature the view retains: all / part / none / between (none, but inside the hull)"""
    F = [i - off for i in Fabs]
    S = set(pos)
    n = sum(1 for i in F if i in S)
    if n == len(F):
        return "all"
    if n:
        return "part"
    if pos and F and min(F) <= max(pos) and min(pos) <= max(F):
        return "between"
    return "none"


# ================================================================================================ sequences
SEQ_ROOTS = {
    # id: (parent string, annotation offset)
    "p10": ("ACGGTTACGA", 0),
    "p7o3": ("CGTTAGC", 3),
    "g9": ("AC--GTT-C", 0),     # gapped, for degap
}

# features in ABSOLUTE plus-strand coordinates (root index + offset); unique names
SEQ_FEATS = {
    "p10": [("a", "gene", [(2, 5)], "+"), ("b", "gene", [(2, 5)], "-"), ("c", "exon", [(0, 2)], "+"),
            ("d", "exon", [(8, 10)], "-"), ("e", "cds", [(1, 3), (6, 8)], "+"), ("f", "cds", [(1, 3), (6, 8)], "-"),
            ("g", "cds", [(3, 5), (5, 7)], "+"), ("h", "gene", [(0, 10)], "+")],
    "p7o3": [("a", "gene", [(4, 7)], "+"), ("b", "gene", [(5, 8)], "-"), ("c", "exon", [(3, 5)], "-"),
             ("e", "cds", [(3, 5), (7, 9)], "+"), ("f", "cds", [(4, 6), (8, 10)], "-")],
    "g9": [("a", "gene", [(1, 5)], "+"), ("b", "gene", [(4, 8)], "-"), ("e", "cds", [(0, 2), (5, 7)], "+")],
}


SEQ_NAME = "s_1"
SIBLINGS = ["s11", "S_1", "sx1"]


def make_root_seq(new, rid, load, featset):
    """the real object: root sequence with the chosen features attached"""
    from cogent3 import make_seq
    P, off = SEQ_ROOTS[rid]
    kw = {"annotation_offset": off} if off else {}
    # the sequence is called s_1 and the same database also holds records of sibling sequences whose names differ
    # from it only as an SQL LIKE pattern would ignore ('_' wildcard, letter case): none of them may ever be returned
    s = make_seq(P, name=SEQ_NAME, moltype="dna", new_type=new, **kw)
    feats = [f for f in SEQ_FEATS[rid] if featset == "*" or f[0] == featset]
    if load == "db":
        for name, bt, spans, strand in feats:
            s.annotation_db.add_feature(seqid=SEQ_NAME, biotype=bt, name=name, spans=[list(x) for x in spans], strand=strand)
        for sib in SIBLINGS:
            for name, bt, spans, strand in feats[:2]:
                s.annotation_db.add_feature(seqid=sib, biotype=bt, name=f"decoy:{sib}:{name}", spans=[list(x) for x in spans],
                                            strand=strand)
    elif load == "gff":
        from cogent3.core.annotation_db import load_annotations
        lines = ["##gff-version 3"]
        for name, bt, spans, strand in feats:
            for a, b in spans:
                lines.append("\t".join([SEQ_NAME, "spec", bt, str(a + 1), str(b), ".", strand, ".", f"ID={name}"]))
        with tempfile.TemporaryDirectory() as d:
            path = os.path.join(d, "f.gff3")
            with open(path, "w") as fh:
                fh.write("\n".join(lines) + "\n")
            s.annotation_db = load_annotations(path=path, seqids=SEQ_NAME)
    else:
        raise ValueError(load)
    return s, feats


def real_seq_apply(x, op):
    k = op[0]
    if k == "s":
        return x[op[1]:op[2]:op[3]]
    if k == "rc":
        return x.rc()
    if k == "cp":
        return x.copy()
    if k == "dc":
        return _copy.deepcopy(x)
    if k == "i":
        return x[op[1]]
    if k == "dg":
        return x.degap()
    if k == "f":
        fs = [f for f in x.get_features(name=op[1], allow_partial=True)]
        if len(fs) != 1:
            raise Unreachable(f"feature {op[1]!r} is not returned by the view")
        return x[fs[0]]
    raise ValueError(op)


class Unreachable(Exception):
    """the precondition of a history step does not hold (reported by another key); the case is skipped"""


def windows(m):
    """query windows [start, stop] of a view of length m: default, every 0<=a<b<=m, negative and zero-width ones"""
    out = [[None, None]]
    for a in range(m + 1):
        for b in range(a + 1, m + 1):
            out.append([a, b])
    for k in range(1, m):
        out.append([-k, None])
        out.append([None, -k])
        out.append([k, k])
    return out


def seq_step1(m, rich):
    """step-1 slices of a view of length m"""
    return [["s", a, b, None] for a in range(m + 1) for b in range(a + (0 if rich else 1), m + 1)]


def _plain(o):
    return o[0] == "s" and o[3] is None and o[1] is not None and o[2] is not None and o[1] >= 0 and o[2] >= 0


def seq_other_ops(m, rid):
    P, off = SEQ_ROOTS[rid]
    fops = [["f", n, [i - off for i in feat_positions(sp)], strand]
            for n, _bt, sp, strand in SEQ_FEATS[rid] if len(sp) == 1 and n in ("a", "b", "h")]
    ints = [["i", k] for k in sorted({0, 1, m // 2, m - 1}) if 0 <= k < m] + ([["i", -1], ["i", -m]] if m else [])
    return [["rc"], ["cp"], ["dc"], ["dg"], ["s", None, None, -1], ["s", None, None, 2], ["s", 1, None, 2],
            ["s", 1, m - 1, 3], ["s", m - 2, 0, -1], ["s", -3, None, None], ["s", None, -2, None],
            ["s", None, None, -2]] + fops + ints


def featsets_for(h, names):
    """feature sets a history can be run with: a feature used for slicing has to be in the db"""
    used = sorted({o[1] for o in h if o[0] == "f"})
    if not used:
        return names + ["*"]
    return ["*"] + (used if len(used) == 1 else [])


def gen_seq(tier, seed):
    rnd = random.Random(seed)
    thorough = tier == "thorough"
    for new in (False, True):
        for rid, (P, off) in SEQ_ROOTS.items():
            L = len(P)
            names = [f[0] for f in SEQ_FEATS[rid]]
            hist = [[]]
            first = seq_step1(L, rich=True) + seq_other_ops(L, rid)
            hist += [[o] for o in first]
            # depth 2
            if thorough:
                lvl1 = first
            else:
                keep = (1, 4, L) if rid == "p10" else (3, L)
                lvl1 = [o for o in first if not _plain(o) or (o[2] - o[1]) in keep]
            for o1 in lvl1:
                pos, rev, st = view_apply(P, *view_root(P), o1)
                m = len(pos)
                second = seq_step1(m, rich=False) + (seq_other_ops(m, rid) if m >= 2 else [["rc"], ["cp"], ["dg"]])
                if not thorough:
                    second = second[::3] if m > 5 else second[::2]
                hist += [[o1, o2] for o2 in second]
            # an integer index on a view whose coordinates come from a copy (the copy of a slice starts at an offset)
            for a_, b_ in ((2, L - 1), (1, L), (3, L - 2)):
                if not 0 <= a_ < b_ <= L:
                    continue
                for mid in ([["cp"]], [["dc"]], [["cp"], ["rc"]], [["rc"], ["cp"]]):
                    for k_ in sorted({0, 1, (b_ - a_) // 2, b_ - a_ - 1, -1}):
                        hist.append([["s", a_, b_, None]] + mid + [["i", k_]])
            for h in hist:
                for fs in featsets_for(h, names):
                    if not thorough and len(h) == 2 and fs not in ("b", "e", "*"):
                        continue
                    if not thorough and len(h) > 2 and fs != "*":
                        continue
                    yield [new, rid, "db", fs, h]
            # features loaded from a GFF file: depth <= 1
            for h in hist:
                if len(h) <= 1 and (thorough or len(h) == 0 or not _plain(h[0]) or (h[0][2] - h[0][1]) % 3 == 1):
                    yield [new, rid, "gff", "*", h]
            # depth 3 seeded sample
            n3 = 4000 if thorough else 60
            for _ in range(n3):
                pos, rev, st = view_root(P)
                h = []
                for _d in range(3):
                    m = len(pos)
                    cand = seq_step1(m, rich=False) + seq_other_ops(m, rid) * 3 if m >= 2 else [["rc"], ["cp"], ["dg"]]
                    o = rnd.choice(cand)
                    h.append(o)
                    pos, rev, st = view_apply(P, pos, rev, st, o)
                yield [new, rid, "db", rnd.choice(featsets_for(h, names)), h]


def check_feature_slice(view, f, expected, tag, sig, label, ctx):
    """slice of one returned feature: get_slice and view[feature]; returns None or a fail tuple"""
    try:
        got = str(f.get_slice())
    except Exception as e:
        return ("fail", f"{tag}/get_slice/raises:{type(e).__name__}/{label}/view={sig}",
                f"{ctx}: get_slice() of feature {f.name!r} map={f.map} raised {type(e).__name__}: {e}; expected {expected!r}")
    if got != expected:
        return ("fail", f"{tag}/get_slice/residues/{label}/view={sig}",
                f"{ctx}: feature {f.name!r} map={f.map} strand={f._strand} slices to {got!r}, the spec residues are {expected!r}")
    try:
        got2 = str(view[f])
    except Exception as e:
        return ("fail", f"{tag}/getitem-feature/raises:{type(e).__name__}/{label}/view={sig}",
                f"{ctx}: view[feature] raised {type(e).__name__}: {e}")
    if got2 != expected:
        return ("fail", f"{tag}/getitem-feature/residues/{label}/view={sig}",
                f"{ctx}: view[feature {f.name!r}] gives {got2!r}, spec {expected!r}")
    return None


def window_kind(wa, wb, m):
    if wa is None and wb is None:
        return "whole"
    if (wa or 0) < 0 or (wb or 0) < 0:
        return "neg"
    if wa is not None and wb is not None and wa == wb:
        return "zero"
    return "window"


def check_queries(x, case, tag, sig, P, off, pos, rev, st, fdict, extra_kw=None):
    """every window x allow_partial on the view x (spec state pos/rev/st): membership, duplicates, attributes, slices.
    Returns ("ok", nontrivial) or a fail tuple."""
    m = len(pos)
    retained = set(pos)
    expect_slice = {n: feat_residues(P, off, f[2], f[3], retained) for n, f in fdict.items()}
    Fabs = {n: feat_positions(f[2]) for n, f in fdict.items()}
    label = {n: f"{len(f[2])}span:{state_of(Fabs[n], off, pos)}" for n, f in fdict.items()}
    slabel = label
    sliced_ok = set()
    nontrivial = False
    shown = display(P, pos, rev)
    for wa, wb in windows(m):
        W = pos[wa:wb]
        wkind = window_kind(wa, wb, m)
        zero = wkind == "zero" or m == 0
        kw = dict(extra_kw or {})
        if wa is not None:
            kw["start"] = wa
        if wb is not None:
            kw["stop"] = wb
        for partial in (True, False):
            ctx = f"{case}: view {shown!r} get_features({kw}, allow_partial={partial})"
            try:
                got = list(x.get_features(allow_partial=partial, **kw))
            except Exception as e:
                # which feature(s) make the query raise?
                culprits = []
                for n in fdict:
                    try:
                        list(x.get_features(allow_partial=partial, name=n, **kw))
                    except Exception:
                        culprits.append(n)
                lab = "+".join(sorted({label[n] for n in culprits})) or "no-single-feature"
                return ("fail", f"{tag}/get_features/raises:{type(e).__name__}/{wkind}/partial={partial}/{lab}/view={sig}",
                        f"{ctx} raised {type(e).__name__}: {e} (raises when asked for {culprits} alone)")
            names = [f.name for f in got]
            if len(set(names)) != len(names):
                return ("fail", f"{tag}/get_features/duplicates/{wkind}/view={sig}", f"{ctx} returned {names}")
            for n, fd in fdict.items():
                must, may = membership(Fabs[n], off, W, partial, st)
                if zero:
                    must, may = False, True
                if must and n not in names:
                    return ("fail", f"{tag}/get_features/missing/{wkind}/partial={partial}/{label[n]}/view={sig}",
                            f"{ctx} returned {names}; feature {n!r} {fd[2]}{fd[3]} (absolute, offset {off}) must be "
                            f"returned: the window displays root positions {W}")
                if n in names and not may:
                    return ("fail", f"{tag}/get_features/spurious/{wkind}/partial={partial}/{label[n]}/view={sig}",
                            f"{ctx} returned {names}; feature {n!r} {fd[2]}{fd[3]} (absolute, offset {off}) does not "
                            f"touch the window, which displays root positions {W}")
            for f in got:
                if f.name not in fdict:
                    return ("fail", f"{tag}/get_features/unknown-feature/view={sig}", f"{ctx} returned unknown {f.name!r}")
                fd = fdict[f.name]
                if f.biotype != fd[1]:
                    return ("fail", f"{tag}/get_features/biotype/view={sig}",
                            f"{ctx}: {f.name!r} biotype {f.biotype!r} != {fd[1]!r}")
                ident = (f.name, repr(f.map), f._strand)
                if ident in sliced_ok:
                    continue
                r = check_feature_slice(x, f, expect_slice[f.name], tag, sig, slabel[f.name], ctx)
                if r is not None:
                    return r
                sliced_ok.add(ident)
                if expect_slice[f.name]:
                    nontrivial = True
    # biotype filter on the whole view
    for bt in sorted({f[1] for f in fdict.values()}):
        try:
            names = sorted(f.name for f in x.get_features(biotype=bt, allow_partial=True, **(extra_kw or {})))
        except Exception:
            continue  # a raising query was reported above with a precise key
        must = sorted(n for n, f in fdict.items() if f[1] == bt and membership(Fabs[n], off, pos, True, st)[0])
        may = sorted(n for n, f in fdict.items() if f[1] == bt and membership(Fabs[n], off, pos, True, st)[1])
        if m and (not set(must) <= set(names) or not set(names) <= set(may) or len(set(names)) != len(names)):
            return ("fail", f"{tag}/get_features/biotype-filter/view={sig}",
                    f"{case}: get_features(biotype={bt!r}, allow_partial=True) on {shown!r} gave {names}, "
                    f"must contain {must}, may contain {may}")
    return ("ok", nontrivial)


def run_history(x, hist, P, tag, case, apply, nonempty_db=True):
    """apply the history to the real object and to the model; returns (x, pos, rev, st, None) or (.., fail tuple)"""
    pos, rev, st = view_root(P)
    done = []
    for op in hist:
        pos2, rev2, st2 = view_apply(P, pos, rev, st, op)
        done.append(op)
        if op[0] == "f" and not set(op[2]) <= set(pos):
            # slicing by a feature that is only partly displayed gives a multi-span (lost + kept) map, for which
            # cogent3 documents that the annotations are dropped: left open
            return x, pos, rev, st, ("skip",)
        try:
            x = apply(x, op)
        except Unreachable:
            return x, pos, rev, st, ("skip",)
        except Exception as e:
            return x, pos, rev, st, ("fail", f"{tag}/history/{op_kind(op)}/raises:{type(e).__name__}/"
                                     f"view={view_sig(P, pos, rev, st, done[:-1])}",
                                     f"{case}: history step {op} on view {display(P, pos, rev)!r} raised "
                                     f"{type(e).__name__}: {e}")
        pos, rev, st = pos2, rev2, st2
        db = getattr(x, "annotation_db", None)
        if db is None or (nonempty_db and len(db) == 0):
            return x, pos, rev, st, ("fail", f"{tag}/history/{op_kind(op)}/annotations-dropped",
                                     f"{case}: after history step {op} the view {display(P, pos, rev)!r} has no "
                                     f"annotations any more (annotation_db={db!r}), so no feature that it displays "
                                     f"can be returned")
    return x, pos, rev, st, None


def contract_seq(case):
    """the failure of a history is reported for its shortest failing prefix, so that one defect gives one key"""
    new, rid, load, featset, hist = case
    res = _contract_seq(case)
    if res[0] == "fail":
        for k in range(len(hist)):
            pc = [new, rid, load, featset, hist[:k]]
            key = repr(pc)
            if key not in _PREFIX_CACHE:
                _PREFIX_CACHE[key] = _contract_seq(pc)
            if _PREFIX_CACHE[key][0] == "fail":
                return _PREFIX_CACHE[key]
    return res


_PREFIX_CACHE = {}


def _contract_seq(case):
    new, rid, load, featset, hist = case
    P, off = SEQ_ROOTS[rid]
    tag = f"seq/{'new' if new else 'old'}/{load}" + ("/offset" if off else "")
    x, feats = make_root_seq(new, rid, load, featset)
    x, pos, rev, st, bad = run_history(x, hist, P, tag, case, real_seq_apply)
    if bad:
        return bad
    if str(x) != display(P, pos, rev):
        return ("skip",)   # what a view displays is C01's business; it cannot be judged here
    sig = view_sig(P, pos, rev, st, hist)
    return check_queries(x, case, tag, sig, P, off, pos, rev, st, {f[0]: f for f in feats})


# ================================================================================================ add_feature on a view
def gen_addview(tier, seed):
    """[new, root, h1, spans (view coordinates), strand (relative to the view), h2]"""
    rnd = random.Random(seed)
    thorough = tier == "thorough"
    for new in (False, True):
        for rid in ("p10", "p7o3"):
            P, off = SEQ_ROOTS[rid]
            L = len(P)
            h1s = [[]] + [[["s", a, b, None]] for a in range(L) for b in range(a + 1, L + 1)] + [[["rc"]], [["cp"]]]
            mids = [["s", 1, L - 1, None], ["s", 2, L, None], ["s", 0, L - 3, None]]
            h1s += [[o, ["rc"]] for o in mids] + [[["rc"], o] for o in mids] + [[o, ["s", 1, None, None]] for o in mids]
            if not thorough:
                h1s = [h for h in h1s if len(h) != 1 or h[0][0] != "s" or (h[0][2] - h[0][1]) in (1, 2, 4, L - 1, L)]
            for h1 in h1s:
                pos, rev, st = view_root(P)
                for o in h1:
                    pos, rev, st = view_apply(P, pos, rev, st, o)
                m = len(pos)
                spanlist = [[[u, v]] for u in range(m) for v in range(u + 1, m + 1)]
                if not thorough and len(spanlist) > 6:
                    spanlist = [[[0, 1]], [[0, m]], [[1, 3]], [[m - 2, m]], [[1, m - 1]], [[m - 1, m]]]
                if m >= 4:
                    spanlist += [[[0, 1], [2, 4]], [[0, 2], [m - 1, m]]]
                h2s = [[], [["rc"]], [["s", 1, None, None]], [["s", None, m - 1, None]], [["cp"]]]
                for spans in spanlist:
                    for strand in "+-":
                        for h2 in h2s:
                            yield [new, rid, h1, spans, strand, h2]


def contract_addview(case):
    """view.add_feature(spans in view coordinates) returns a feature that slices to those residues of the view, and
    the same residues are denoted when the view (or a further view, or the root) is queried afterwards"""
    from cogent3 import make_seq
    new, rid, h1, spans, strand, h2 = case
    P, off = SEQ_ROOTS[rid]
    tag = f"addview/{'new' if new else 'old'}" + ("/offset" if off else "")
    kw = {"annotation_offset": off} if off else {}
    root = make_seq(P, name="s", moltype="dna", new_type=new, **kw)
    x, pos, rev, st, bad = run_history(root, h1, P, tag, case, real_seq_apply, nonempty_db=False)
    if bad:
        return ("skip",)       # histories that fail without any added feature are seq_views' business
    if str(x) != display(P, pos, rev):
        return ("skip",)
    # class of the receiving view for failure keys: orientation and whether it is a proper sub-view of the root
    sig1 = ("rev" if rev else "fwd") + ("-sub" if len(pos) < len(P) else "-whole")
    # spec: the statement does not fix how coordinates given to a reverse-complemented view are read, so both
    # conventions are accepted: (A) displayed coordinates, strand relative to the view; (B) plus-strand coordinates
    # of the displayed segment, absolute strand.  On a forward view they coincide.  Whichever convention explains
    # the feature that add_feature returns is then binding for every later look at the feature.
    seg = sorted(pos)
    conventions = [("A", sorted({pos[i] for a, b in spans for i in range(a, b)}),
                    strand if not rev else ("-" if strand == "+" else "+")),
                   ("B", sorted({seg[i] for a, b in spans for i in range(a, b)}), strand)]
    kind = f"{len(spans)}span"
    try:
        f0 = x.add_feature(biotype="gene", name="new", spans=[list(sp) for sp in spans], strand=strand)
    except Exception as e:
        return ("fail", f"{tag}/add_feature/raises:{type(e).__name__}/{kind}/recv={sig1}",
                f"{case}: add_feature(spans={spans}, strand={strand!r}) on view {display(P, pos, rev)!r} raised "
                f"{type(e).__name__}: {e}")
    try:
        got = str(f0.get_slice())
    except Exception as e:
        return ("fail", f"{tag}/returned-feature/get_slice/raises:{type(e).__name__}/{kind}/recv={sig1}",
                f"{case}: get_slice() of the feature returned by add_feature raised {type(e).__name__}: {e}")
    F = abs_strand = None
    wanted = []
    for cname, Fc, sc in conventions:
        plus = "".join(P[i] for i in Fc)
        exp = rc_str(plus) if sc == "-" else plus
        wanted.append(exp)
        if got == exp and F is None:
            F, abs_strand = Fc, sc
    if F is None:
        return ("fail", f"{tag}/returned-feature/get_slice/residues/{kind}/recv={sig1}",
                f"{case}: feature added at {spans}{strand} of view {display(P, pos, rev)!r} slices to {got!r}, "
                f"expected {wanted[0]!r} (displayed coordinates) or {wanted[1]!r} (plus-strand coordinates)")
    # now look at it again: from the same view, from a further view, from the root
    targets = [("same-view", x, pos, rev, st, h1)]
    y, pos2, rev2, st2, bad = run_history(x, h2, P, tag, case, real_seq_apply)
    # run_history starts from the root model: redo the model part for h2 on top of h1
    pos2, rev2, st2 = pos, rev, st
    for o in h2:
        pos2, rev2, st2 = view_apply(P, pos2, rev2, st2, o)
    if h2 and not bad and str(y) == display(P, pos2, rev2):
        targets.append(("later-view", y, pos2, rev2, st2, h1 + h2))
    if h1 and not any(o[0] in ("cp", "dc") for o in h1):     # a copy has its own db: the root need not see the feature
        targets.append(("root", root, *view_root(P), []))
    for where, v, vpos, vrev, vst, vh in targets:
        retained = set(vpos)
        keep = [i for i in F if i in retained]
        exp = "".join(P[i] for i in keep)
        exp = rc_str(exp) if abs_strand == "-" else exp
        ctx = f"{case}: feature added at {spans}{strand} of view {display(P, pos, rev)!r} (root positions {F}, " \
              f"absolute strand {abs_strand}); {where} {display(P, vpos, vrev)!r}.get_features(allow_partial=True)"
        state = "all" if len(keep) == len(F) else ("part" if keep else "none")
        try:
            fs = [f for f in v.get_features(allow_partial=True)]
        except Exception as e:
            return ("fail", f"{tag}/requery/{where}/raises:{type(e).__name__}/{kind}/recv={sig1}",
                    f"{ctx} raised {type(e).__name__}: {e}")
        if len(fs) > 1:
            return ("fail", f"{tag}/requery/{where}/duplicates/{kind}/recv={sig1}", f"{ctx} returned {len(fs)} features")
        if not fs:
            if keep:
                return ("fail", f"{tag}/requery/{where}/missing/{kind}/recv={sig1}",
                        f"{ctx} returned nothing; the feature's residues {exp!r} are displayed")
            continue
        try:
            got = str(fs[0].get_slice())
        except Exception as e:
            return ("fail", f"{tag}/requery/{where}/get_slice/raises:{type(e).__name__}/{kind}/recv={sig1}",
                    f"{ctx}: get_slice() raised {type(e).__name__}: {e}")
        if got != exp:
            return ("fail", f"{tag}/requery/{where}/residues/{kind}/recv={sig1}",
                    f"{ctx}: the feature now slices to {got!r} (map {fs[0].map}), expected {exp!r}")
    return ("ok", True)


# ================================================================================================ alignments (old Alignment)
ALN_ROOTS = {
    "a8": {"x": "AC--GTTA", "y": "-CGGT-AC"},
    "a6": {"x": "ACGT--", "y": "--ACGT"},
    "a8z": {"x": "AC--GTTA", "y": "-CGGT-AC", "z": "TTGCA--G"},
}
# sequence features: (name, seqid, biotype, spans in degapped sequence coordinates, strand)
# alignment features: (name, None, biotype, spans in alignment columns, strand)
ALN_FEATS = {
    "a8": [("g", "x", "gene", [(1, 4)], "+"), ("k", "x", "gene", [(2, 6)], "-"), ("j", "y", "gene", [(1, 4)], "+"),
           ("h", "y", "cds", [(0, 2), (4, 6)], "-"), ("e", "x", "cds", [(0, 1), (3, 5)], "+"),
           ("r", None, "reg", [(1, 5)], "+"), ("q", None, "reg", [(0, 2), (5, 7)], "+")],
    "a6": [("g", "x", "gene", [(1, 3)], "+"), ("j", "y", "gene", [(0, 2)], "-"), ("r", None, "reg", [(1, 4)], "+")],
    "a8z": [("g", "x", "gene", [(1, 4)], "+"), ("h", "y", "cds", [(0, 2), (4, 6)], "-"), ("m", "z", "gene", [(2, 5)], "-"),
            ("r", None, "reg", [(2, 6)], "+")],
}


def aln_feature_columns(R, feat):
    """root columns a feature denotes"""
    name, seqid, bt, spans, strand = feat
    if seqid is None:
        return feat_positions(spans)
    want = set(feat_positions(spans))
    out, k = [], 0
    for c, ch in enumerate(R[seqid]):
        if ch not in GAPS:
            if k in want:
                out.append(c)
            k += 1
    return out


def aln_view_apply(R, cols, rev, names, op):
    k = op[0]
    if k == "s":
        new = cols[op[1]:op[2]]
        return new, rev, names
    if k == "rc":
        return cols[::-1], not rev, names
    if k in ("cp", "dc"):
        return list(cols), rev, names
    if k == "take":
        return cols, rev, [n for n in op[1]]
    raise ValueError(op)


def aln_real_apply(a, op):
    k = op[0]
    if k == "s":
        return a[op[1]:op[2]]
    if k == "rc":
        return a.rc()
    if k == "cp":
        return a.copy()
    if k == "dc":
        return _copy.deepcopy(a)
    if k == "take":
        return a.take_seqs(list(op[1]))
    raise ValueError(op)


def aln_display(R, cols, rev, names):
    return {n: (comp("".join(R[n][c] for c in cols)) if rev else "".join(R[n][c] for c in cols)) for n in names}


def make_root_aln(rid, featset, load):
    from cogent3 import make_aligned_seqs
    R = ALN_ROOTS[rid]
    a = make_aligned_seqs(dict(R), moltype="dna", array_align=False)
    feats = [f for f in ALN_FEATS[rid] if featset == "*" or f[0] == featset]
    if load == "add":
        for name, seqid, bt, spans, strand in feats:
            if seqid is None:
                a.add_feature(biotype=bt, name=name, spans=[list(x) for x in spans], strand=strand, on_alignment=True)
            else:
                a.add_feature(seqid=seqid, biotype=bt, name=name, spans=[list(x) for x in spans], strand=strand)
    else:   # "db": loaded for the alignment -- a db is built first and then attached
        from cogent3.core.annotation_db import BasicAnnotationDb
        db = BasicAnnotationDb()
        for name, seqid, bt, spans, strand in feats:
            db.add_feature(seqid=seqid, biotype=bt, name=name, spans=[list(x) for x in spans], strand=strand,
                           on_alignment=seqid is None)
        a.annotation_db = db
    return a, feats


def gen_aln(tier, seed):
    rnd = random.Random(seed)
    thorough = tier == "thorough"
    for rid, R in ALN_ROOTS.items():
        if rid == "a8z" and not thorough:
            continue
        names = list(R)
        L = len(R[names[0]])
        fnames = [f[0] for f in ALN_FEATS[rid]]

        def ops_for(m, nms):
            o = [["s", a, b] for a in range(m + 1) for b in range(a + 1, m + 1)]
            o += [["rc"], ["cp"], ["dc"]]
            return o
        hist = [[]] + [[o] for o in ops_for(L, names)]
        lvl1 = ops_for(L, names)
        if not thorough:
            lvl1 = [o for o in lvl1 if o[0] != "s" or (o[2] - o[1]) in (2, 5, L)]
        for o1 in lvl1:
            cols, rev, nms = aln_view_apply(R, list(range(L)), False, names, o1)
            second = ops_for(len(cols), nms)
            if not thorough:
                second = [o for i, o in enumerate(second) if o[0] != "s" or i % 2 == 0]
            hist += [[o1, o2] for o2 in second]
        for h in hist:
            for fs in (fnames + ["*"]):
                if len(h) == 2 and not thorough and fs not in ("*", "g", "h", "r"):
                    continue
                for load in ("add", "db"):
                    if load == "db" and (len(h) == 2 or fs != "*") and not thorough:
                        continue
                    yield [rid, load, fs, h]
        n3 = 1500 if thorough else 40
        for _ in range(n3):
            cols, rev, nms = list(range(L)), False, names
            h = []
            for _d in range(3):
                cand = ops_for(len(cols), nms)
                if not cand:
                    break
                o = rnd.choice(cand)
                h.append(o)
                cols, rev, nms = aln_view_apply(R, cols, rev, nms, o)
            yield [rid, "add", rnd.choice(fnames + ["*"]), h]


def aln_sig(L, cols, rev, hist):
    return ("rev" if rev else "fwd") + "/after=" + (hist[-1][0] if hist else "root")


def _contract_aln(case):
    rid, load, featset, hist = case
    R = ALN_ROOTS[rid]
    names = list(R)
    L = len(R[names[0]])
    tag = f"aln/{load}"
    a, feats = make_root_aln(rid, featset, load)
    cols, rev, nms = list(range(L)), False, names
    done = []
    for op in hist:
        cols2, rev2, nms2 = aln_view_apply(R, cols, rev, nms, op)
        done.append(op)
        try:
            a = aln_real_apply(a, op)
        except Exception as e:
            return ("fail", f"{tag}/history/{op[0]}/raises:{type(e).__name__}/view={aln_sig(L, cols, rev, done[:-1])}",
                    f"{case}: history step {op} raised {type(e).__name__}: {e}")
        cols, rev, nms = cols2, rev2, nms2
    shown = aln_display(R, cols, rev, nms)
    if a.to_dict() != shown:
        return ("skip",)        # what the view displays is C03's business
    sig = aln_sig(L, cols, rev, hist)
    colset = set(cols)
    fdict = {f[0]: f for f in feats if f[1] is None or f[1] in nms}
    C = {n: aln_feature_columns(R, f) for n, f in fdict.items()}

    def expected_slice(n, rows):
        keep = [c for c in C[n] if c in colset]
        out = {}
        for m in rows:
            t = "".join(R[m][c] for c in keep)
            out[m] = rc_str(t) if fdict[n][4] == "-" else t
        return out

    def state(n):
        k = sum(1 for c in C[n] if c in colset)
        return "all" if k == len(C[n]) else ("part" if k else "none")

    def member(n, partial):
        """(must, may) in the coordinates the feature lives in: its own sequence for a sequence feature (the
        window is what the view displays of that sequence), alignment columns for an alignment feature"""
        f = fdict[n]
        if f[1] is None:
            return membership(C[n], 0, cols, partial)
        seq_index, k = {}, 0
        for c, ch in enumerate(R[f[1]]):
            if ch not in GAPS:
                seq_index[c] = k
                k += 1
        W = [seq_index[c] for c in cols if c in seq_index]
        if not W:
            return None     # nothing of that sequence is displayed: membership is left open
        return membership(feat_positions(f[3]), 0, W, partial)

    nontrivial = False
    queries = [("all", {}, lambda f: True)]
    queries += [(f"seqid", {"seqid": m, "on_alignment": False}, (lambda f, m=m: f[1] == m)) for m in nms]
    queries += [("on_alignment", {"on_alignment": True}, lambda f: f[1] is None)]
    sliced_ok = {}
    for qname, kw, selects in queries:
        for partial in (True, False):
            ctx = f"{case}: view {shown} get_features({kw}, allow_partial={partial})"
            try:
                got = list(a.get_features(allow_partial=partial, **kw))
            except Exception as e:
                culprits = []
                for n in fdict:
                    try:
                        list(a.get_features(allow_partial=partial, name=n, **kw))
                    except Exception:
                        culprits.append(n)
                lab = "+".join(sorted({("aln" if fdict[n][1] is None else "seq") + f"{len(fdict[n][3])}span:{state(n)}"
                                       for n in culprits})) or "no-single-feature"
                return ("fail", f"{tag}/get_features({qname})/raises:{type(e).__name__}/partial={partial}/{lab}/view={sig}",
                        f"{ctx} raised {type(e).__name__}: {e} (raises when asked for {culprits} alone)")
            got_names = [f.name for f in got]
            if len(set(got_names)) != len(got_names):
                return ("fail", f"{tag}/get_features({qname})/duplicates/view={sig}", f"{ctx} returned {got_names}")
            for n, fd in fdict.items():
                lab = ("aln" if fd[1] is None else "seq") + f"{len(fd[3])}span:{state(n)}"
                if not selects(fd):
                    if n in got_names:
                        return ("fail", f"{tag}/get_features({qname})/not-selected/{lab}/view={sig}",
                                f"{ctx} returned {got_names}; {n!r} (seqid {fd[1]!r}) is not what was asked for")
                    continue
                mm = member(n, partial)
                if mm is None:
                    continue
                must, may = mm
                if must and n not in got_names:
                    return ("fail", f"{tag}/get_features({qname})/missing/partial={partial}/{lab}/view={sig}",
                            f"{ctx} returned {got_names}; feature {n!r} {fd[3]}{fd[4]} on {fd[1] or 'the alignment'} "
                            f"(root columns {C[n]}) must be returned: the view displays root columns {cols}")
                if n in got_names and not may:
                    return ("fail", f"{tag}/get_features({qname})/spurious/partial={partial}/{lab}/view={sig}",
                            f"{ctx} returned {got_names}; feature {n!r} {fd[3]}{fd[4]} on {fd[1] or 'the alignment'} "
                            f"(root columns {C[n]}) does not touch the view, which displays root columns {cols}")
            for f in got:
                if f.name not in fdict:
                    return ("fail", f"{tag}/get_features({qname})/unknown-feature/view={sig}", f"{ctx} returned {f.name!r}")
                fd = fdict[f.name]
                lab = ("aln" if fd[1] is None else "seq") + f"{len(fd[3])}span:{state(f.name)}"
                ident = (f.name, repr(f.map), f._strand)
                if ident in sliced_ok:
                    continue
                exp = expected_slice(f.name, nms)
                try:
                    sl = f.get_slice().to_dict()
                except Exception as e:
                    return ("fail", f"{tag}/get_slice/raises:{type(e).__name__}/{lab}/view={sig}",
                            f"{ctx}: get_slice() of {f.name!r} map={f.map} raised {type(e).__name__}: {e}; expected {exp}")
                if sl != exp:
                    return ("fail", f"{tag}/get_slice/residues/{lab}/view={sig}",
                            f"{ctx}: feature {f.name!r} {fd[3]}{fd[4]} on {fd[1] or 'the alignment'} map={f.map} "
                            f"strand={f._strand} slices to {sl}, spec {exp}")
                try:
                    sl2 = a[f].to_dict()
                except Exception as e:
                    return ("fail", f"{tag}/getitem-feature/raises:{type(e).__name__}/{lab}/view={sig}",
                            f"{ctx}: aln[feature] raised {type(e).__name__}: {e}")
                if sl2 != exp:
                    return ("fail", f"{tag}/getitem-feature/residues/{lab}/view={sig}",
                            f"{ctx}: aln[feature {f.name!r}] gives {sl2}, spec {exp}")
                sliced_ok[ident] = f
                if any(exp.values()):
                    nontrivial = True
    # projection of every distinct returned feature onto every displayed sequence (last: it writes to the db)
    for ident, f in sliced_ok.items():
        fd = fdict[f.name]
        lab = ("aln" if fd[1] is None else "seq") + f"{len(fd[3])}span:{state(f.name)}"
        exp = expected_slice(f.name, nms)
        for m in nms:
            want = "".join(ch for ch in exp[m] if ch not in GAPS)
            ctx = f"{case}: view {shown} get_projected_feature(seqid={m!r}, feature={f.name!r} map={f.map})"
            try:
                pf = a.get_projected_feature(seqid=m, feature=f)
                gotp = str(pf.get_slice())
            except Exception as e:
                return ("fail", f"{tag}/get_projected_feature/raises:{type(e).__name__}/{lab}/view={sig}",
                        f"{ctx} raised {type(e).__name__}: {e}; expected {want!r}")
            if gotp != want:
                return ("fail", f"{tag}/get_projected_feature/residues/{lab}/view={sig}",
                        f"{ctx}: projected feature map={pf.map} slices to {gotp!r}, spec {want!r} "
                        f"(the non-gap residues of {m!r} in the feature's columns)")
    return ("ok", nontrivial)


_ALN_PREFIX_CACHE = {}


def contract_aln(case):
    rid, load, featset, hist = case
    res = _contract_aln(case)
    if res[0] == "fail":
        for k in range(len(hist)):
            pc = [rid, load, featset, hist[:k]]
            key = repr(pc)
            if key not in _ALN_PREFIX_CACHE:
                _ALN_PREFIX_CACHE[key] = _contract_aln(pc)
            if _ALN_PREFIX_CACHE[key][0] == "fail":
                return _ALN_PREFIX_CACHE[key]
    return res


# ================================================================================================ alignment -> sequences
def foreign_features(x, names):
    """names of features of OTHER sequences (or of the alignment) that the sequence x returns"""
    out = []
    for n in names:
        try:
            if list(x.get_features(name=n, allow_partial=True)):
                out.append(n)
        except Exception:
            out.append(n)
    return out


def gen_aln_seqs(tier, seed):
    """[root, history of the alignment, terminal]; terminal = [kind, name], kind = get_seq (the sequence out of the
    alignment) | degap-coll (the degapped collection is queried) | degap-seq (a sequence of the degapped collection)"""
    thorough = tier == "thorough"
    for rid, R in ALN_ROOTS.items():
        if rid == "a8z" and not thorough:
            continue
        names = list(R)
        L = len(R[names[0]])
        slices = [["s", a, b] for a in range(L + 1) for b in range(a + 1, L + 1)]
        hist = [[], [["rc"]], [["cp"]]] + [[o] for o in slices]
        mids = slices if thorough else [o for o in slices if (o[2] - o[1]) in (3, L - 2)]
        hist += [[o, ["rc"]] for o in mids] + [[["rc"], o] for o in mids]
        if thorough:
            hist += [[o, ["s", 1, o[2] - o[1] - 1]] for o in mids if o[2] - o[1] >= 3]
        for h in hist:
            for n in names:
                yield [rid, h, ["get_seq", n]]
                yield [rid, h, ["degap-coll", n]]
                yield [rid, h, ["degap-seq", n]]


def contract_aln_seqs(case):
    """the sequence taken out of an alignment view (Alignment.get_seq) or out of its degapped collection
    (Alignment.degap) still answers feature queries for the residues it displays"""
    rid, hist, term = case
    R = ALN_ROOTS[rid]
    names = list(R)
    L = len(R[names[0]])
    kind, n = term
    tag = f"aln-seq/{kind}"
    a, feats = make_root_aln(rid, "*", "add")
    cols, rev, nms = list(range(L)), False, names
    for op in hist:
        cols, rev, nms = aln_view_apply(R, cols, rev, nms, op)
        try:
            a = aln_real_apply(a, op)
        except Exception:
            return ("skip",)           # aln_views reports failing histories
    if a.to_dict() != aln_display(R, cols, rev, nms):
        return ("skip",)
    # model of the sequence: the degapped root row, the indices of its residues that the view displays
    P = "".join(ch for ch in R[n] if ch not in GAPS)
    index, k = {}, 0
    for c, ch in enumerate(R[n]):
        if ch not in GAPS:
            index[c] = k
            k += 1
    pos = [index[c] for c in cols if c in index]
    sig = ("rev" if rev else "fwd") + ("-sub" if len(pos) < len(P) else "-whole")
    fdict = {f[0]: (f[0], f[2], f[3], f[4]) for f in feats if f[1] == n}
    try:
        if kind == "get_seq":
            x = a.get_seq(n)
        else:
            coll = a.degap()
            x = coll.get_seq(n)
    except Exception as e:
        return ("fail", f"{tag}/raises:{type(e).__name__}/view={sig}", f"{case}: {kind} raised {type(e).__name__}: {e}")
    if str(x) != display(P, pos, rev):
        return ("fail", f"{tag}/displays/view={sig}",
                f"{case}: {kind}({n!r}) displays {str(x)!r}, the view holds {display(P, pos, rev)!r} of that sequence")
    if kind == "degap-coll":
        for partial in (True, False):
            ctx = f"{case}: degap().get_features(seqid={n!r}, allow_partial={partial})"
            try:
                got = list(coll.get_features(seqid=n, allow_partial=partial))
            except Exception as e:
                return ("fail", f"{tag}/collection.get_features/raises:{type(e).__name__}/view={sig}",
                        f"{ctx} raised {type(e).__name__}: {e}")
            gn = [f.name for f in got]
            for fn, fd in fdict.items():
                Fabs = feat_positions(fd[2])
                mm = membership(Fabs, 0, pos, partial) if pos else (False, True)
                lab = f"{len(fd[2])}span:{state_of(Fabs, 0, pos)}"
                if mm[0] and fn not in gn:
                    return ("fail", f"{tag}/collection.get_features/missing/partial={partial}/{lab}/view={sig}",
                            f"{ctx} returned {gn}; {fn!r} {fd[2]}{fd[3]} must be returned, {n!r} displays indices {pos}")
                if fn in gn and not mm[1]:
                    return ("fail", f"{tag}/collection.get_features/spurious/partial={partial}/{lab}/view={sig}",
                            f"{ctx} returned {gn}; {fn!r} {fd[2]}{fd[3]} does not touch indices {pos} of {n!r}")
            for f in got:
                if f.name not in fdict:
                    return ("fail", f"{tag}/collection.get_features/other-sequence-feature/view={sig}",
                            f"{ctx} returned {f.name!r}, which is not a feature of {n!r}")
                fd = fdict[f.name]
                exp = feat_residues(P, 0, fd[2], fd[3], set(pos))
                lab = f"{len(fd[2])}span:{state_of(feat_positions(fd[2]), 0, pos)}"
                try:
                    sl = str(f.get_slice())
                except Exception as e:
                    return ("fail", f"{tag}/collection.get_slice/raises:{type(e).__name__}/{lab}/view={sig}",
                            f"{ctx}: get_slice of {f.name!r} raised {type(e).__name__}: {e}")
                if sl != exp:
                    return ("fail", f"{tag}/collection.get_slice/residues/{lab}/view={sig}",
                            f"{ctx}: {f.name!r} {fd[2]}{fd[3]} slices to {sl!r}, spec {exp!r}")
        return ("ok", bool(fdict))
    # the sequence, with every window; features of other sequences must not show up
    others = foreign_features(x, [f[0] for f in feats if f[0] not in fdict])
    if others:
        return ("fail", f"{tag}/seq.get_features/other-sequence-feature/view={sig}",
                f"{case}: {kind}({n!r}).get_features(allow_partial=True) returns {others}, features of other sequences")
    return check_queries(x, case, tag, sig, P, 0, pos, rev, 1, fdict)


# ================================================================================================ sequence collections
COLL_ROOTS = {
    "c6": {"x": "ACGTTA", "y": "CGGTAC"},
    "c8g": {"x": "AC--GTTA", "y": "-CGGT-AC"},      # a collection may hold gapped sequences: degap() applies
}
# (name, seqid, biotype, spans in the coordinates of the stored sequence, strand)
COLL_FEATS = {
    "c6": [("g", "x", "gene", [(1, 4)], "+"), ("k", "x", "gene", [(2, 6)], "-"), ("j", "y", "gene", [(0, 3)], "-"),
           ("h", "y", "cds", [(0, 2), (4, 6)], "+")],
    "c8g": [("g", "x", "gene", [(1, 6)], "+"), ("k", "x", "gene", [(4, 8)], "-"), ("j", "y", "gene", [(1, 5)], "+"),
            ("h", "y", "cds", [(1, 3), (6, 8)], "-")],
}


def make_root_coll(new, rid, load):
    from cogent3 import make_unaligned_seqs
    R = COLL_ROOTS[rid]
    c = make_unaligned_seqs(dict(R), moltype="dna", new_type=new)
    feats = COLL_FEATS[rid]
    if load == "add":
        for name, seqid, bt, spans, strand in feats:
            c.add_feature(seqid=seqid, biotype=bt, name=name, spans=[list(x) for x in spans], strand=strand)
    else:
        from cogent3.core.annotation_db import BasicAnnotationDb
        db = BasicAnnotationDb()
        for name, seqid, bt, spans, strand in feats:
            db.add_feature(seqid=seqid, biotype=bt, name=name, spans=[list(x) for x in spans], strand=strand)
        c.annotation_db = db
    return c, feats


def coll_real_apply(c, op):
    k = op[0]
    if k == "rc":
        return c.rc()
    if k == "dc":
        return _copy.deepcopy(c)
    if k == "cp":
        return c.copy()
    if k == "dg":
        return c.degap()
    raise ValueError(op)


def gen_coll(tier, seed):
    """[new, root, load, collection history, terminal]; terminal = ["coll"] | ["seq", name, sequence op or None]"""
    thorough = tier == "thorough"
    hists = [[], [["rc"]], [["dc"]], [["dg"]], [["rc"], ["rc"]], [["dc"], ["rc"]], [["rc"], ["dg"]], [["dg"], ["rc"]]]
    for new in (False, True):
        for rid, R in COLL_ROOTS.items():
            for load in ("add", "db"):
                for h in hists + ([] if new else [[["cp"]], [["cp"], ["rc"]]]):
                    if load == "db" and len(h) == 2 and not thorough:
                        continue
                    yield [new, rid, load, h, ["coll"]]
                    for n in R:
                        P = R[n]
                        pos, rev, st = view_root(P)
                        for o in h:
                            pos, rev, st = view_apply(P, pos, rev, st, o)
                        m = len(pos)
                        yield [new, rid, load, h, ["seq", n, None]]
                        sops = [["s", a, b, None] for a in range(m) for b in range(a + 1, m + 1)]
                        if not thorough:
                            sops = [o for o in sops if (o[2] - o[1]) in (2, m - 2)]
                        for o in sops + [["rc"]]:
                            yield [new, rid, load, h, ["seq", n, o]]


def contract_coll(case):
    new, rid, load, hist, term = case
    R = COLL_ROOTS[rid]
    tag = f"coll/{'new' if new else 'old'}/{load}"
    c, feats = make_root_coll(new, rid, load)
    state = {n: view_root(R[n]) for n in R}
    done = []
    for op in hist:
        done.append(op)
        try:
            c = coll_real_apply(c, op)
        except Exception as e:
            return ("fail", f"{tag}/history/{op[0]}/raises:{type(e).__name__}/ops={ops_sig(done[:-1])}",
                    f"{case}: collection step {op} raised {type(e).__name__}: {e}")
        state = {n: view_apply(R[n], *state[n], op) for n in R}
    hsig = "ops=" + ops_sig(hist)
    shown = {n: display(R[n], state[n][0], state[n][1]) for n in R}
    try:
        real_shown = c.to_dict()
    except Exception as e:
        return ("fail", f"{tag}/to_dict/raises:{type(e).__name__}/{hsig}", f"{case}: to_dict raised {e}")
    if real_shown != shown:
        return ("skip",)
    if term[0] == "coll":
        nontrivial = False
        for seqid in [None] + list(R):
            for partial in (True, False):
                kw = {} if seqid is None else {"seqid": seqid}
                ctx = f"{case}: collection {shown} get_features({kw}, allow_partial={partial})"
                try:
                    got = list(c.get_features(allow_partial=partial, **kw))
                except Exception as e:
                    return ("fail", f"{tag}/collection.get_features/raises:{type(e).__name__}/{hsig}",
                            f"{ctx} raised {type(e).__name__}: {e}")
                gn = [f.name for f in got]
                if len(set(gn)) != len(gn):
                    return ("fail", f"{tag}/collection.get_features/duplicates/{hsig}", f"{ctx} returned {gn}")
                for name, n, bt, spans, strand in feats:
                    P = R[n]
                    pos, rev, st = state[n]
                    Fabs = feat_positions(spans)
                    lab = f"{len(spans)}span:{state_of(Fabs, 0, pos)}"
                    if seqid is not None and n != seqid:
                        if name in gn:
                            return ("fail", f"{tag}/collection.get_features/not-selected/{hsig}",
                                    f"{ctx} returned {gn}; {name!r} belongs to {n!r}")
                        continue
                    must, may = membership(Fabs, 0, pos, partial) if pos else (False, True)
                    if must and name not in gn:
                        db = getattr(c, "annotation_db", None)
                        why = "annotations-dropped" if (db is None or len(db) == 0) else f"missing/partial={partial}/{lab}"
                        return ("fail", f"{tag}/collection.get_features/{why}/{hsig}",
                                f"{ctx} returned {gn}; {name!r} {spans}{strand} on {n!r} must be returned "
                                f"({n!r} displays indices {pos}); annotation_db={db!r}")
                    if name in gn and not may:
                        return ("fail", f"{tag}/collection.get_features/spurious/partial={partial}/{lab}/{hsig}",
                                f"{ctx} returned {gn}; {name!r} {spans}{strand} on {n!r} does not touch indices {pos}")
                fd = {f[0]: f for f in feats}
                for f in got:
                    name, n, bt, spans, strand = fd[f.name]
                    pos, rev, st = state[n]
                    exp = feat_residues(R[n], 0, spans, strand, set(pos))
                    lab = f"{len(spans)}span:{state_of(feat_positions(spans), 0, pos)}"
                    try:
                        sl = str(f.get_slice())
                    except Exception as e:
                        return ("fail", f"{tag}/collection.get_slice/raises:{type(e).__name__}/{lab}/{hsig}",
                                f"{ctx}: get_slice of {name!r} map={f.map} raised {type(e).__name__}: {e}; expected {exp!r}")
                    if sl != exp:
                        return ("fail", f"{tag}/collection.get_slice/residues/{lab}/{hsig}",
                                f"{ctx}: {name!r} {spans}{strand} on {n!r} map={f.map} slices to {sl!r}, spec {exp!r}")
                    nontrivial = nontrivial or bool(exp)
        return ("ok", nontrivial)
    # a sequence taken out of the collection, possibly sliced / reverse complemented once more
    _, n, sop = term
    P = R[n]
    pos, rev, st = state[n]
    try:
        x = c.get_seq(n)
    except Exception as e:
        return ("fail", f"{tag}/get_seq/raises:{type(e).__name__}/{hsig}", f"{case}: get_seq raised {type(e).__name__}: {e}")
    ops = list(hist)
    if sop is not None:
        pos, rev, st = view_apply(P, pos, rev, st, sop)
        ops.append(sop)
        try:
            x = real_seq_apply(x, sop)
        except Exception as e:
            return ("fail", f"{tag}/seq/history/{op_kind(sop)}/raises:{type(e).__name__}/{hsig}",
                    f"{case}: {sop} on get_seq({n!r}) raised {type(e).__name__}: {e}")
    if str(x) != display(P, pos, rev):
        return ("skip",)
    fdict = {f[0]: (f[0], f[2], f[3], f[4]) for f in feats if f[1] == n}
    others = foreign_features(x, [f[0] for f in feats if f[0] not in fdict])
    if others:
        return ("fail", f"{tag}/seq.get_features/other-sequence-feature/{hsig}",
                f"{case}: get_seq({n!r}) (displaying {str(x)!r}).get_features(allow_partial=True) returns {others}, "
                f"features of other sequences")
    db = getattr(x, "annotation_db", None)
    if (db is None or len(db) == 0) and any(membership(feat_positions(f[2]), 0, pos, True)[0] for f in fdict.values()):
        return ("fail", f"{tag}/seq/annotations-dropped/{hsig}",
                f"{case}: the sequence {n!r} taken out of the collection (displaying {str(x)!r}) has no annotations "
                f"(annotation_db={db!r})")
    sig = ("rev" if rev else "fwd") + ("-sub" if len(pos) < len(P) else "-whole") + "/" + hsig
    return check_queries(x, case, tag + "/seq", sig, P, 0, pos, rev, st, fdict)


# ================================================================================================ union / shadow of features
FA_RAW = "ACGTTGCAAGGCTTAACCGGATATCGCGTAGGATCCAT"
FA_FEATS = {"gene": ([(8, 30)], "+"), "exon1": ([(10, 14)], "+"), "exon2": ([(18, 24)], "+"), "utr": ([(26, 34)], "+"),
            "far": ([(35, 37)], "+"), "mgene": ([(4, 28)], "-"), "mcds": ([(6, 9), (15, 20)], "-"),
            "inner2": ([(11, 13), (19, 22)], "+")}
FA_GROUPS = [["exon1", "exon2", "far"], ["gene", "utr"], ["gene", "exon1"], ["exon1", "gene", "exon2", "utr"], ["mgene", "mcds"],
             ["gene", "inner2"], ["exon2", "gene"], ["utr", "far", "gene"], ["inner2", "exon1", "exon2"]]
FA_VIEWS = [["whole"], ["rc"], ["s", 3, 36], ["s", 3, 36, "rc"], ["rc", "s", 2, 35], ["s", 9, 29], ["s", 12, 20, "rc"]]


def gen_feature_algebra(tier, seed):
    for new in (False, True):
        for view in FA_VIEWS:
            for grp in FA_GROUPS:
                yield [new, view, grp]


def contract_feature_algebra(case):
    """Feature.union / shadow: the merged feature denotes the union of the residues its parts denote (restricted to what
    the view retains, read on the first feature's strand); its shadow denotes every other retained residue"""
    from cogent3 import make_seq
    new, view, grp = case
    tag = f"algebra/{'new' if new else 'old'}"
    seq = make_seq(FA_RAW, name="s_1", moltype="dna", new_type=new)
    for name, (spans, strand) in FA_FEATS.items():
        seq.add_feature(biotype="region", name=name, spans=[list(x) for x in spans], strand=strand)
    lo, hi, x = 0, len(FA_RAW), seq
    try:
        if view[0] == "rc":
            x = x.rc()
            if len(view) > 1:             # slice of the reverse complement: view positions a..b show plus positions L-b..L-a
                a, b = view[2], view[3]
                x = x[a:b]
                lo, hi = len(FA_RAW) - b, len(FA_RAW) - a
        elif view[0] == "s":
            lo, hi = view[1], view[2]
            x = x[lo:hi]
            if len(view) > 3:
                x = x.rc()
    except Exception:
        return ("skip",)
    nested = any(all(a2 <= a and b <= b2 and (a, b) != (a2, b2) for a, b in FA_FEATS[n][0] for a2, b2 in [(min(p for p, _ in FA_FEATS[m][0]), max(q for _, q in FA_FEATS[m][0]))])
                 for n in grp for m in grp if n != m)
    kind = "nested" if nested else "flat"
    feats = []
    for name in grp:
        try:
            got = list(x.get_features(name=name, allow_partial=True))
        except Exception:
            return ("skip",)              # the query itself fails (finding C04-K1 for part-visible 2-span features)
        if len(got) != 1:
            return ("skip",)              # the part is not (uniquely) visible in this view: covered by the query contracts
        feats.append(got[0])
    try:
        combined = feats[0].union(feats[1:])
        got_u = str(combined.get_slice())
        got_s = str(combined.shadow().get_slice())
    except Exception as e:
        return ("fail", f"{tag}/raises:{type(e).__name__}/{kind}/view={view[0]}", f"{case}: {type(e).__name__}: {e}")
    strand = FA_FEATS[grp[0]][1]
    keep = set()
    for name in grp:
        for a, b in FA_FEATS[name][0]:
            keep.update(range(a, b))
    want_u = "".join(FA_RAW[i] for i in sorted(keep) if lo <= i < hi)
    want_s = "".join(FA_RAW[i] for i in range(lo, hi) if i not in keep)
    if strand == "-":
        want_u, want_s = rc_str(want_u), rc_str(want_s)
    if got_u != want_u:
        return ("fail", f"{tag}/union/residues/{kind}", f"{case}: union denotes {got_u!r}, its parts denote {want_u!r}")
    if got_s != want_s:
        return ("fail", f"{tag}/shadow/residues/{kind}", f"{case}: shadow of the union denotes {got_s!r}, expected {want_s!r}")
    return ("ok", len(keep) > 0)


BOUNDED = {
    "feature_algebra": {
        "gen": gen_feature_algebra, "contract": contract_feature_algebra,
        "functions": ["core.annotation.Feature.union", "Feature.shadow", "Feature.get_slice", "core.location.FeatureMap.covered / shadow"],
        "bound": "one 38-nt sequence with 8 features (nested, overlapping, abutting, disjoint, two-span, both strands) x 9 groups "
                 "of 2-4 features x 7 views (whole, rc, slices, slice of rc, rc of slice) x old / new sequence type",
        "rule": "union(parts).get_slice() == the residues at the union of the parts' positions that the view retains, read on "
                "the first part's strand; shadow().get_slice() == every other retained residue; groups whose parts are not "
                "all visible in the view are skipped",
        "shards": 4,
    },
    "aln_views": {
        "gen": gen_aln, "contract": contract_aln,
        "functions": ["Alignment.add_feature", "Alignment.get_features", "Alignment._get_seq_features",
                      "Alignment.make_feature", "Aligned.make_feature", "Feature.remapped_to", "Feature.get_slice",
                      "Alignment.__getitem__ (slice, Feature)", "Alignment.rc", "Alignment.take_seqs", "Alignment.copy",
                      "Alignment.get_projected_feature"],
        "bound": "old-style Alignment, roots 2x8, 2x6 (thorough: 3x8) with gapped rows; 3-7 features per root: 1- and "
                 "2-span sequence features on both strands and alignment (on_alignment) features; features added "
                 "through Alignment.add_feature or attached as a ready db; every history of depth <= 2 over {every "
                 "column slice, rc, copy, deepcopy, take_seqs} (quick: reduced), depth 3 seeded sample; queries: all, "
                 "per seqid, on_alignment x allow_partial; every returned feature sliced and projected onto every row",
        "rule": "a case = (root, load mode, feature set, history); non-trivial when some returned feature has a "
                "non-empty expected slice",
    },
    "aln_to_seqs": {
        "gen": gen_aln_seqs, "contract": contract_aln_seqs,
        "functions": ["Alignment.get_seq", "Alignment.degap", "SequenceCollection.get_features", "Sequence.degap",
                      "Sequence.get_features on the sequence taken out of an alignment view"],
        "bound": "the aln_views roots and features; alignment histories: root, rc, copy, every column slice, slice+rc, "
                 "rc+slice (quick: reduced); then get_seq(name) or degap().get_seq(name) for every row, and on the "
                 "resulting sequence every window x allow_partial as in seq_views; degap(): the collection is queried too",
        "rule": "a case = (root, alignment history, terminal); non-trivial when some returned feature has a non-empty "
                "expected slice",
    },
    "coll_views": {
        "gen": gen_coll, "contract": contract_coll,
        "functions": ["SequenceCollection.add_feature", "SequenceCollection.get_features", "SequenceCollection.rc",
                      "SequenceCollection.degap", "SequenceCollection.copy", "SequenceCollection.get_seq",
                      "Sequence.get_features / Feature.get_slice on collection members -- old (alignment.py) and new "
                      "(new_alignment.py) collections"],
        "bound": "collections of 2 sequences (ungapped 6+6, gapped 8+8), two features per sequence (1- and 2-span, both "
                 "strands), added through the collection or attached as a ready db; collection histories of depth <= 2 "
                 "over {rc, deepcopy, copy (old), degap}; then the collection is queried (all / per seqid x allow_partial) "
                 "or a member is taken out, optionally sliced (every step-1 slice; quick: reduced) or reverse "
                 "complemented, and queried with every window x allow_partial",
        "rule": "a case = (type, root, load mode, collection history, terminal); non-trivial when some returned feature "
                "has a non-empty expected slice",
    },
    "seq_add_on_view": {
        "gen": gen_addview, "contract": contract_addview,
        "functions": ["Sequence.add_feature", "Sequence.make_feature", "Sequence.get_features", "Feature.get_slice",
                      "BasicAnnotationDb.add_feature -- old and new sequence types"],
        "bound": "roots ACGGTTACGA (offset 0) and CGTTAGC (annotation offset 3); the view the feature is added to: root, "
                 "every step-1 slice, rc, copy, slice+rc, rc+slice, slice+slice; added spans: every single span of the "
                 "view (quick: 6 of them) and two 2-span features, both strands; then re-queried from the same view, "
                 "from a later view (rc, two slices, copy) and from the root",
        "rule": "a case = (type, root, history of the receiving view, spans in view coordinates, strand, later history); "
                "always non-trivial (the added feature is non-empty)",
    },
    "seq_views": {
        "gen": gen_seq, "contract": contract_seq,
        "functions": ["Sequence.get_features", "Sequence.make_feature", "Sequence.__getitem__ (slice, Feature)",
                      "NucleicAcidSequence.rc", "Sequence.copy", "Sequence.degap", "Feature.get_slice",
                      "SeqView.absolute_position", "SeqView.relative_position",
                      "BasicAnnotationDb.get_features_matching", "load_annotations (gff) -- old and new sequence types"],
        "bound": "roots ACGGTTACGA (offset 0), CGTTAGC (annotation offset 3), AC--GTT-C (gapped); 3-8 features per root: "
                 "1-span and 2-span, both strands, at the ends / adjacent spans / covering everything; every history of "
                 "depth <= 2 over {every step-1 slice, strided and negative-step slices, rc, copy, deepcopy, degap} "
                 "(quick: reduced first level), depth 3 seeded sample; per view every window 0<=a<b<=len, default, "
                 "negative and zero-width windows x allow_partial in {True, False}; features in the db one at a time "
                 "and all together; features loaded from a GFF3 file for depth <= 1",
        "rule": "a case = (type, root, load mode, feature set, history); all windows are checked inside one case; "
                "non-trivial when some returned feature has a non-empty expected slice",
    },
}
