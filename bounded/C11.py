"""Bounded run-time contracts for C11 (likelihood invariances; reported as bounded, never as proved).

Contract text (relational):   lnL(T(problem)) == factor(T) * lnL(problem)     (|diff| <= 1e-9 * max(1, |lnL|))

A *problem* is plain data: model id, parameter grid index, motif-prob mode, rooted tree as nested lists
[name, length, children, edge-params], alignment as an ordered list of [name, sequence] pairs.  Every
transformation T is a pure function on that data written here (own newick writer, own re-rooting on an undirected
edge list, own block permutation) -- none of cogent3's tree or alignment operations are used to build T(problem),
so the only cogent3 code under the contract is: make_tree -> make_likelihood_function -> set_alignment ->
set_param_rule / set_motif_probs -> lnL.

T in { column block permutation, k-fold repetition (factor k), decomposition into unique columns with
multiplicities ("merge"), sequence order, child order, consistent relabelling, root placement at every internal
node / on every edge (time-reversible models), splitting of every edge (models that are time-homogeneous along an
edge) } and seeded compositions of these.

Outside the contract on purpose: the site-HMM (`sites_independent=False`), which is column-order dependent by
design; edge splitting / root placement for the discrete-time model BH (no branch lengths; it takes part in the column,
order and merge contracts with one explicit stochastic matrix per edge); trees with zero lengths passed *through the
newick* (documented: replaced by `default_length`); lengths above the upper bound 10 (clipped by the optimiser
bounds)."""
from __future__ import annotations

import functools
import itertools
import json
import math
import random

import numpy

TOL = 1e-9

# ------------------------------------------------------------------------------------------------ models
NUC = "ACGT"
AA = "ACDEFGHIKLMNPQRSTVWY"
STOPS = {"TAA", "TAG", "TGA"}
CODONS = [a + b + c for a in "TCAG" for b in "TCAG" for c in "TCAG" if a + b + c not in STOPS]
DINUCS = [a + b for a in NUC for b in NUC]

# rev: time-reversible (root placement contract applies); mp: motif probs are free and are set explicitly;
# fam: alphabet family of the alignment generator; ml: motif length (block size of column permutations)
MODELS = {
    "JC69": dict(get="JC69", mt="dna", ml=1, rev=True, mp=False, fam="nuc"),
    "K80": dict(get="K80", mt="dna", ml=1, rev=True, mp=False, fam="nuc"),
    "F81": dict(get="F81", mt="dna", ml=1, rev=True, mp=True, fam="nuc"),
    "HKY85": dict(get="HKY85", mt="dna", ml=1, rev=True, mp=True, fam="nuc"),
    "TN93": dict(get="TN93", mt="dna", ml=1, rev=True, mp=True, fam="nuc"),
    "GTR": dict(get="GTR", mt="dna", ml=1, rev=True, mp=True, fam="nuc"),
    "GN": dict(get="GN", mt="dna", ml=1, rev=False, mp=True, fam="nuc"),
    "ssGN": dict(get="ssGN", mt="dna", ml=1, rev=False, mp=True, fam="nuc"),
    "HKY85+G4": dict(get="HKY85", kw=dict(with_rate=True, distribution="gamma"), bins=4, mt="dna", ml=1, rev=True,
                     mp=True, fam="nuc"),
    "GTR+G2": dict(get="GTR", kw=dict(with_rate=True, distribution="gamma"), bins=2, mt="dna", ml=1, rev=True,
                   mp=True, fam="nuc"),
    "HKY85+edge-kappa": dict(get="HKY85", mt="dna", ml=1, rev=True, mp=True, fam="nuc", edge="kappa"),
    "dinuc": dict(ctor="dinuc", mt="dna", ml=2, rev=True, mp=True, fam="dinuc"),
    # user-built models declared time-reversible: an undirected predicate (legitimate), and a pair of opposite directed
    # predicates (not reversible once the two rates differ: the constructor must refuse it -- the problem is then skipped
    # as ill-formed -- or the invariances must hold for it)
    "userTR:A/C": dict(ctor="userTR", preds={"ac": "A/C"}, mt="dna", ml=1, rev=True, mp=True, fam="nuc"),
    "userTR:A>G+G>A": dict(ctor="userTR", preds={"ag": "A>G", "ga": "G>A"}, mt="dna", ml=1, rev=True, mp=True, fam="nuc"),
    "MG94HKY": dict(get="MG94HKY", mt="dna", ml=3, rev=True, mp=True, fam="codon"),
    "MG94GTR": dict(get="MG94GTR", mt="dna", ml=3, rev=True, mp=True, fam="codon"),
    "GY94": dict(get="GY94", mt="dna", ml=3, rev=True, mp=True, fam="codon"),
    "CNFGTR": dict(get="CNFGTR", mt="dna", ml=3, rev=True, mp=True, fam="codon"),
    "Y98": dict(get="Y98", mt="dna", ml=3, rev=True, mp=True, fam="codon"),
    "H04G": dict(get="H04G", mt="dna", ml=3, rev=True, mp=True, fam="codon"),
    "GNC": dict(get="GNC", mt="dna", ml=3, rev=False, mp=True, fam="codon"),
    # discrete-time (no lengths): one explicit stochastic matrix per edge; no reroot, no split
    "BH": dict(get="BH", mt="dna", ml=1, rev=False, mp=True, fam="nuc-nogap", edge="psubs", discrete=True),
    "JTT92": dict(get="JTT92", mt="protein", ml=1, rev=True, mp=False, fam="aa"),
    "WG01+F": dict(get="WG01", mt="protein", ml=1, rev=True, mp=True, fam="aa"),
    "DSO78": dict(get="DSO78", mt="protein", ml=1, rev=True, mp=False, fam="aa"),
}
QUICK_MODELS = ["JC69", "K80", "F81", "HKY85", "TN93", "GTR", "GN", "ssGN", "HKY85+G4", "HKY85+edge-kappa", "dinuc",
                "MG94HKY", "JTT92", "BH", "userTR:A/C", "userTR:A>G+G>A"]
THOROUGH_MODELS = QUICK_MODELS + ["GTR+G2", "GY94", "CNFGTR", "MG94GTR", "Y98", "H04G", "GNC", "WG01+F", "DSO78"]

PGRID = [[2.5, 0.6, 1.7, 3.1, 0.9, 1.3, 0.45], [0.4, 4.0, 1.0, 2.2, 0.7, 1.9, 3.3]]


@functools.lru_cache(maxsize=None)
def _model(mid):
    cfg = MODELS[mid]
    if cfg.get("ctor") == "dinuc":
        from cogent3.evolve import substitution_model as smm
        return smm.TimeReversibleDinucleotide(predicates={"kappa": "transition"}, mprob_model="tuple")
    if cfg.get("ctor") == "userTR":
        from cogent3.evolve import substitution_model as smm
        return smm.TimeReversibleNucleotide(predicates=dict(cfg["preds"]))
    from cogent3 import get_model
    return get_model(cfg["get"], **cfg.get("kw", {}))


def spec_mprobs(keys):
    """explicit, asymmetric motif probabilities that depend on the motif only (not on any internal order)"""
    ks = sorted(keys)
    w = {k: 1.0 + (i * 3) % 7 for i, k in enumerate(ks)}
    s = sum(w.values())
    return {k: v / s for k, v in w.items()}


# ------------------------------------------------------------------------------------------------ plain trees
# node = [name, length, children, edge_params];  the root has name "root" and length None
def newick(node, with_len, named):
    name, length, kids, _ = node
    s = ""
    if kids:
        s = "(" + ",".join(newick(k, with_len, named) for k in kids) + ")"
    if not kids or named:
        s += name
    if with_len and length is not None:
        s += ":" + repr(float(length))
    return s


def walk(node):
    yield node
    for k in node[2]:
        yield from walk(k)


def edges_of(tree):
    """[(child name, length, edge params, is_tip)] for every non-root node"""
    return [(n[0], n[1], n[3], not n[2]) for n in walk(tree) if n is not tree]


def tips_of(tree):
    return [n[0] for n in walk(tree) if not n[2]]


def map_tree(node, f):
    name, length, kids, ep = node
    return f([name, length, [map_tree(k, f) for k in kids], dict(ep)])


def copy_tree(node):
    return map_tree(node, lambda n: n)


def t_childorder(tree, perms):
    """perms: one permutation per internal node, in preorder"""
    it = iter(perms)

    def rec(node):
        name, length, kids, ep = node
        if not kids:
            return [name, length, [], dict(ep)]
        p = next(it)
        done = [rec(k) for k in kids]          # permutations are consumed in preorder of the *given* tree
        return [name, length, [done[i] for i in p], dict(ep)]
    return rec(tree)


def childorder_choices(tree):
    per_node = [list(itertools.permutations(range(len(n[2])))) for n in walk(tree) if n[2]]
    return itertools.product(*per_node)


def graph_of(tree):
    """undirected edge list of the tree; a root of degree 2 whose two edges carry the same edge params is not a
    node of the unrooted tree (its two edges are one edge); otherwise the old root stays as node 'oldroot'"""
    E = []   # [u, v, length, ep]

    def rec(node, pname):
        for k in node[2]:
            E.append([pname, k[0], k[1], dict(k[3])])
            rec(k, k[0])
    old = "oldroot"
    used = {n[0] for n in walk(tree)}
    while old in used:
        old += "x"
    rec(tree, old)
    at_root = [e for e in E if e[0] == old]
    if len(at_root) == 2 and at_root[0][3] == at_root[1][3]:
        a, b = at_root
        E = [e for e in E if e[0] != old]
        E.append([a[1], b[1], a[2] + b[2], dict(a[3])])
    return E


def placements(tree, fracs):
    """every root placement of the unrooted tree: at each node of degree >= 3, on each edge at each fraction"""
    E = graph_of(tree)
    deg = {}
    for u, v, _, _ in E:
        deg[u] = deg.get(u, 0) + 1
        deg[v] = deg.get(v, 0) + 1
    out = [["node", n] for n in sorted(deg) if deg[n] >= 3]
    for u, v, _, _ in E:
        for f in fracs:
            out.append(["edge", u, v, f])
    return out


def t_reroot(tree, where):
    E = graph_of(tree)
    adj = {}
    for u, v, l, ep in E:
        adj.setdefault(u, []).append((v, l, ep))
        adj.setdefault(v, []).append((u, l, ep))

    def build(name, came_from, length, ep):
        kids = [build(n, name, l, e) for (n, l, e) in adj[name] if n != came_from]
        return [name, length, kids, dict(ep)]
    if where[0] == "node":
        r = build(where[1], None, None, {})
        r[0] = "root"
        return r
    _, u, v, f = where
    (l, ep), = [(l, ep) for (n, l, ep) in adj[u] if n == v]
    lu = f * l
    lv = l - lu
    return ["root", None, [build(u, v, lu, ep), build(v, u, lv, ep)], {}]


def t_split(tree, splits):
    """splits: {child name: fraction}; the edge above `child` becomes two edges f*l (lower) and l - f*l (upper),
    both carrying the edge's params"""
    used = {n[0] for n in walk(tree)}

    def f(n):
        name, length, kids, ep = n
        if name in splits and length is not None:
            lo = splits[name] * length
            up = "s" + name
            while up in used:
                up = "s" + up
            used.add(up)
            return [up, length - lo, [[name, lo, kids, dict(ep)]], dict(ep)]
        return n
    return map_tree(tree, f)


RELABEL = [
    {"a": "Zed", "b": "yak", "c": "A1", "d": "m", "e": "B2", "f": "q7", "g": "C"},
    {"a": "t5", "b": "t4", "c": "t3", "d": "t2", "e": "t1", "f": "t0", "g": "s9"},
    {"a": "e", "b": "d", "c": "c", "d": "b", "e": "a", "f": "g", "g": "f"},     # a permutation of the same names
]


def t_relabel(problem, which):
    m = RELABEL[which]

    def f(n):
        if not n[2]:
            n[0] = m[n[0]]
        elif n[0] != "root":
            n[0] = "i" + n[0][::-1].upper()
        return n
    q = dict(problem)
    q["tree"] = map_tree(problem["tree"], f)
    q["aln"] = [[m[n], s] for n, s in problem["aln"]]
    return q


# ------------------------------------------------------------------------------------------------ plain alignments
def blocks(seq, ml):
    return [seq[i:i + ml] for i in range(0, len(seq), ml)]


def t_colperm(aln, ml, perm):
    return [[n, "".join(blocks(s, ml)[i] for i in perm)] for n, s in aln]


def t_repeat(aln, ml, k, how):
    if how == "tile":
        return [[n, s * k] for n, s in aln]
    return [[n, "".join(b * k for b in blocks(s, ml))] for n, s in aln]


def columns(aln, ml):
    """list of columns; a column = tuple of one block per sequence"""
    return list(zip(*[blocks(s, ml) for _, s in aln]))


# ------------------------------------------------------------------------------------------------ the real code
def lnL_of(problem, expm=None):
    from cogent3 import make_aligned_seqs, make_tree
    cfg = MODELS[problem["model"]]
    sm = _model(problem["model"])
    tree = problem["tree"]
    nw = newick(tree, problem["len"] == "nw", problem["named"]) + ";"
    t = make_tree(nw)
    for op in problem.get("api", []):          # the root moved by the library's own tree methods
        t = getattr(t, op[0])(*op[1:])
    kw = {"bins": cfg["bins"]} if cfg.get("bins", 1) > 1 else {}
    if expm:
        kw["expm"] = expm
    lf = sm.make_likelihood_function(t, motif_probs_from_align=(problem["mp"] == "data"), **kw)
    aln = make_aligned_seqs({n: s for n, s in problem["aln"]}, moltype=cfg["mt"], new_type=bool(problem["new"]))
    lf.set_alignment(aln)
    if cfg["mp"] and problem["mp"] == "set":
        lf.set_motif_probs(spec_mprobs(list(lf.get_motif_probs().keys())))
    grid = PGRID[problem["pset"]]
    gp = sorted(sm.get_param_list()) + (["rate_shape"] if cfg.get("bins", 1) > 1 else [])
    for i, p in enumerate(gp):
        lf.set_param_rule(p, init=grid[i % len(grid)])
    for name, length, ep, _ in edges_of(tree):
        if problem["len"] == "rule" and not cfg.get("discrete"):
            lf.set_param_rule("length", edge=name, init=length)
        for k, v in ep.items():
            lf.set_param_rule(k, edge=name, init=numpy.array(v) if isinstance(v, list) else v)
    if problem.get("scope"):       # a parameter scoped to the clade of two tips as seen from an outgroup tip
        par, t1, t2, og, value = problem["scope"]
        lf.set_param_rule(par, tip_names=[t1, t2], outgroup_name=og, clade=True, stem=False, init=value)
    return float(lf.lnL)


_BASE = {}


def base_lnL(problem):
    k = json.dumps(problem, sort_keys=True)
    if k not in _BASE:
        if len(_BASE) > 256:
            _BASE.clear()
        try:
            _BASE[k] = lnL_of(problem)
        except Exception as e:   # not a well-formed problem for cogent3: precondition false
            _BASE[k] = e
    return _BASE[k]


def close(got, want):
    if math.isnan(got) or math.isnan(want):
        return False
    if math.isinf(got) or math.isinf(want):
        return got == want
    return abs(got - want) <= TOL * max(1.0, abs(want))


def float_conditioning(base, trans, factor, l0, l1):
    """The property is about the likelihood over the reals.  The default exponentiator ("either" = eigen
    decomposition) delivers P(t) with an *absolute* error of ~1e-16 * cond(V); where a column's likelihood is carried
    by entries P_ij(t) << 1e-9 (e.g. three nucleotide changes in a codon on an edge of length 1e-3) lnL itself is only
    accurate to ~1e-4, for the base problem as much as for the transformed one.  Such a mismatch is not evidence
    against the invariance.  It is recognised by cogent3's own second float algorithm: the mismatch is accepted
    (-> None) iff  (1) with expm="pade" both sides agree within the contract tolerance, and  (2) the mismatch of the
    default path is within 4x the measured default-vs-pade disagreement on the two problems themselves.
    Otherwise -> a key suffix naming which of the two failed."""
    try:
        p0 = lnL_of(base, "pade")
        p1 = lnL_of(trans, "pade")
    except Exception as e:
        return f"(pade raises {type(e).__name__})"
    if not close(p1, factor * p0):
        return ""
    u = factor * abs(p0 - l0) + abs(p1 - l1)
    if abs(l1 - factor * l0) <= 4 * u + TOL * max(1.0, abs(factor * l0)):
        return None
    return "(default expm only)"


# ------------------------------------------------------------------------------------------------ transformations
def apply(problem, step):
    """-> (transformed problem, factor, key pattern).  Pure."""
    kind = step[0]
    ml = MODELS[problem["model"]]["ml"]
    q = dict(problem)
    if kind == "colperm":
        q["aln"] = t_colperm(problem["aln"], ml, step[1])
        return q, 1, "blocks"
    if kind == "repeat":
        q["aln"] = t_repeat(problem["aln"], ml, step[1], step[2])
        return q, step[1], step[2]
    if kind == "seqorder":
        q["aln"] = [problem["aln"][i] for i in step[1]]
        return q, 1, "aln"
    if kind == "childorder":
        q["tree"] = t_childorder(problem["tree"], step[1])
        return q, 1, "tree"
    if kind == "relabel":
        return t_relabel(problem, step[1]), 1, "names"
    if kind == "reroot":
        where = step[1]
        q["tree"] = t_reroot(problem["tree"], where)
        if where[0] == "node":
            pat = "at-node"
        else:
            tips = set(tips_of(problem["tree"]))
            pend = where[1] in tips or where[2] in tips
            pat = "on-" + ("pendant" if pend else "internal") + "-edge" + ("(zero-length part)" if where[3] in (0, 1, 0.0, 1.0) else "")
        return q, 1, pat
    if kind == "split":
        sp = step[1]
        q["tree"] = t_split(problem["tree"], sp)
        tips = set(tips_of(problem["tree"]))
        if len(sp) > 1:
            pat = "several-edges"
        else:
            (n, f), = sp.items()
            pat = ("pendant" if n in tips else "internal") + "-edge"
            if f in (0, 1, 0.0, 1.0):
                pat += "(zero-length part)"
        return q, 1, pat
    raise ValueError(step)


def variant_tag(problem):
    cfg = MODELS[problem["model"]]
    t = []
    if problem["new"]:
        t.append("new-aln")
    if problem["mp"] == "data" and cfg["mp"]:
        t.append("mprobs-from-data")
    return ("/" + "+".join(t)) if t else ""


def contract_steps(case):
    """case = [problem, [step, ...]]"""
    problem, steps = case
    l0 = base_lnL(problem)
    if isinstance(l0, Exception) or not math.isfinite(l0):
        return ("skip",)
    q, factor, pats = problem, 1, []
    for st in steps:
        q, f, pat = apply(q, st)
        factor *= f
        pats.append(f"{st[0]}:{pat}")
    site = "+".join(pats)
    mid = problem["model"]
    if q == problem:
        return ("ok", False)
    try:
        l1 = lnL_of(q)
    except Exception as e:
        return ("fail", f"{site}/{mid}/raises {type(e).__name__}{variant_tag(problem)}",
                f"problem {json.dumps(problem)} steps {json.dumps(steps)}: transformed problem "
                f"{newick(q['tree'], True, True)} {q['aln']} raises {type(e).__name__}: {str(e)[:300]}")
    want = factor * l0
    if not close(l1, want):
        note = float_conditioning(problem, q, factor, l0, l1)
        if note is None:
            return ("ok", True)
        return ("fail", f"{site}/{mid}/lnL-differs{note}{variant_tag(problem)}",
                f"problem {json.dumps(problem)} steps {json.dumps(steps)}: lnL(base)={l0!r} factor={factor} "
                f"lnL(transformed)={l1!r} diff={l1 - want:.3e}; transformed tree {newick(q['tree'], True, True)} "
                f"aln {q['aln']}")
    return ("ok", True)


def contract_merge(case):
    """lnL(A) == sum over unique columns u of multiplicity(u) * lnL([u])   (motif probs fixed, not from data)"""
    problem, = case
    cfg = MODELS[problem["model"]]
    if problem["mp"] == "data" and cfg["mp"]:
        return ("skip",)
    l0 = base_lnL(problem)
    if isinstance(l0, Exception) or not math.isfinite(l0):
        return ("skip",)
    cols = columns(problem["aln"], cfg["ml"])
    mult = {}
    for c in cols:
        mult[c] = mult.get(c, 0) + 1
    names = [n for n, _ in problem["aln"]]
    total = 0.0
    try:
        for c, m in mult.items():
            q = dict(problem)
            q["aln"] = [[n, b] for n, b in zip(names, c)]
            total += m * lnL_of(q)
    except Exception as e:
        return ("fail", f"merge/{problem['model']}/single column raises {type(e).__name__}{variant_tag(problem)}",
                f"problem {json.dumps(problem)}: column {c} alone raises {type(e).__name__}: {str(e)[:300]}")
    if not close(l0, total):
        try:    # same float-conditioning rule as float_conditioning(), for a sum of problems
            p0 = lnL_of(problem, "pade")
            pt, u = 0.0, abs(p0 - l0)
            for c, m in mult.items():
                q = dict(problem)
                q["aln"] = [[n, b] for n, b in zip(names, c)]
                a, b = lnL_of(q, "pade"), lnL_of(q)
                pt += m * a
                u += m * abs(a - b)
            if close(p0, pt) and abs(l0 - total) <= 4 * u + TOL * max(1.0, abs(l0)):
                return ("ok", len(mult) < len(cols))
        except Exception:
            pass
        return ("fail", f"merge/{problem['model']}/lnL-differs{variant_tag(problem)}",
                f"problem {json.dumps(problem)}: lnL={l0!r}, sum over unique columns x multiplicity={total!r} "
                f"({mult})")
    return ("ok", len(mult) < len(cols))


# ------------------------------------------------------------------------------------------------ enumeration
TIPN = ["b", "d", "a", "e", "c", "g", "f"]          # tree order differs from the sorted order of the names
SHAPES = {
    2: [(0, 1)],
    3: [(0, 1, 2), ((0, 1), 2)],
    4: [((0, 1), (2, 3)), (((0, 1), 2), 3), (0, 1, (2, 3)), ((0, 1, 2), 3), (0, 1, 2, 3)],
    5: [(((0, 1), 2), (3, 4)), ((((0, 1), 2), 3), 4), (((0, 1), (2, 3)), 4), ((0, 1), 2, (3, 4)), (0, 1, 2, (3, 4))],
}
LENS = [0.1, 1.5, 1e-3, 0.3, 0.05, 0.7, 0.2, 2.5, 0.4]
KAPPAS = [5.0, 0.8, 2.0, 1.0, 9.0]
PSUBS = [[[.7, .1, .1, .1], [.05, .8, .05, .1], [.2, .1, .6, .1], [.1, .2, .3, .4]],
         [[.9, .02, .03, .05], [.1, .6, .2, .1], [.25, .25, .25, .25], [.02, .1, .08, .8]],
         [[.5, .3, .1, .1], [.3, .5, .1, .1], [.1, .1, .4, .4], [.15, .05, .3, .5]],
         [[.97, .01, .01, .01], [.01, .97, .01, .01], [.02, .02, .94, .02], [.3, .3, .3, .1]]]


def make_base_tree(shape, lens_off, edge_param=None, zero_internal=False):
    cnt = {"i": 0, "e": 0}
    zero_done = [not zero_internal]

    def rec(s, is_root):
        if isinstance(s, int):
            name, kids = TIPN[s], []
        else:
            name = "root" if is_root else f"n{cnt['i']}"
            if not is_root:
                cnt["i"] += 1
            kids = None
        if is_root:
            length, ep = None, {}
        else:
            e = cnt["e"]
            cnt["e"] += 1
            length = LENS[(e * 2 + lens_off) % len(LENS)]
            vals = PSUBS if edge_param == "psubs" else KAPPAS
            ep = {edge_param: vals[(e + lens_off) % len(vals)]} if edge_param else {}
            if kids is None and not zero_done[0]:
                length = 0.0
                zero_done[0] = True
        if kids is None:
            kids = [rec(c, False) for c in s]
        return [name, length, kids, ep]
    t = rec(shape, True)
    if edge_param and len(t[2]) == 2:
        # both edges at a bifurcating root are one edge of the unrooted tree: same edge params
        t[2][1][3] = dict(t[2][0][3])
    return t


def rand_shape(rnd, n):
    items = list(range(n))
    rnd.shuffle(items)
    while len(items) > 1:
        if len(items) > 3 and rnd.random() < 0.2:
            k = 3
        else:
            k = 2
        if len(items) <= 3 and rnd.random() < 0.3:
            k = len(items)
        idx = sorted(rnd.sample(range(len(items)), k))
        grp = tuple(items[i] for i in idx)
        items = [x for i, x in enumerate(items) if i not in idx] + [grp]
    top = items[0]
    return top


def rand_aln(rnd, fam, names, nblocks, dup=True):
    if fam == "nuc":
        states, amb = list(NUC), ["N", "R", "Y", "-", "?"]
    elif fam == "nuc-nogap":
        states, amb = list(NUC), ["N", "R", "Y", "W"]
    elif fam == "dinuc":
        states, amb = DINUCS, ["NN", "AR", "YC", "NG"]
    elif fam == "codon":
        states, amb = CODONS, ["---", "NNN", "ACN", "GGR"]
    else:
        states, amb = list(AA), ["X", "-", "B", "Z"]
    cols = []
    for _ in range(nblocks):
        anc = rnd.choice(states)
        col = []
        for _n in names:
            r = rnd.random()
            if r < 0.55:
                col.append(anc)
            elif r < 0.88:
                col.append(rnd.choice(states))
            else:
                col.append(rnd.choice(amb))
        cols.append(col)
    if dup and nblocks >= 3:
        cols[-1] = list(cols[0])
    return [[n, "".join(c[i] for c in cols)] for i, n in enumerate(names)]


def gen_bases(tier, seed, salt):
    """-> (index, problem).  Deterministic for (tier, seed, salt)."""
    rnd = random.Random(f"{seed}/{salt}")
    thorough = tier == "thorough"
    models = THOROUGH_MODELS if thorough else QUICK_MODELS
    idx = 0
    for mid in models:
        cfg = MODELS[mid]
        heavy = cfg["fam"] in ("codon", "aa") or mid in ("dinuc",)
        sizes = [2, 3, 4, 5]
        for n in sizes:
            for si, shape in enumerate(SHAPES[n]):
                if heavy and not thorough and (si + n) % 2:
                    continue                       # quick: half of the shapes for the big-alphabet models
                nrep = (2 if thorough else 1)
                for rep in range(nrep):
                    idx += 1
                    rule = (idx % 3 == 0) or bool(cfg.get("edge"))
                    zero = rule and idx % 2 == 0 and n >= 4
                    tree = make_base_tree(shape, idx, cfg.get("edge"), zero_internal=zero)
                    names = tips_of(tree)
                    rnd.shuffle(names)
                    nblocks = 3 + (idx % 2) if not thorough else 3 + idx % 3
                    aln = rand_aln(rnd, cfg["fam"], names, nblocks)
                    mp = "set"
                    if cfg["fam"] == "nuc" and idx % 4 == 1:
                        seen = set("".join(s for _, s in aln))
                        if set(NUC) <= seen:
                            mp = "data"
                    yield idx, {"model": mid, "pset": (idx + rep) % 2, "mp": mp, "tree": tree, "aln": aln,
                                "len": "rule" if rule else "nw", "named": rule or idx % 2 == 0,
                                "new": idx % 5 == 2}


def gen_beyond(tier, seed, salt, count):
    """seeded sample beyond the exhaustive frontier: 6-7 tips, random shapes, 6-12 blocks"""
    rnd = random.Random(f"{seed}/{salt}/beyond")
    models = THOROUGH_MODELS
    for j in range(count):
        mid = rnd.choice(models)
        cfg = MODELS[mid]
        n = rnd.choice((5, 6, 7))
        shape = rand_shape(rnd, n)
        rule = rnd.random() < 0.4 or bool(cfg.get("edge"))
        tree = make_base_tree(shape, rnd.randrange(9), cfg.get("edge"), zero_internal=rule and rnd.random() < 0.3)
        names = tips_of(tree)
        rnd.shuffle(names)
        aln = rand_aln(rnd, cfg["fam"], names, rnd.randrange(6, 13), dup=rnd.random() < 0.5)
        yield j, {"model": mid, "pset": rnd.randrange(2), "mp": "set", "tree": tree, "aln": aln,
                  "len": "rule" if rule else "nw", "named": rule or rnd.random() < 0.5, "new": rnd.random() < 0.3}


def nblocks_of(problem):
    return len(problem["aln"][0][1]) // MODELS[problem["model"]]["ml"]


def col_steps(problem, rnd, full_upto, sample):
    nb = nblocks_of(problem)
    if nb <= full_upto:
        perms = [list(p) for p in itertools.permutations(range(nb))][1:]
    else:
        perms = []
        for _ in range(sample):
            p = list(range(nb))
            rnd.shuffle(p)
            perms.append(p)
    return [["colperm", p] for p in perms]


def gen_columns(tier, seed):
    thorough = tier == "thorough"
    rnd = random.Random(f"{seed}/columns")
    for idx, pb in gen_bases(tier, seed, "columns"):
        heavy = MODELS[pb["model"]]["fam"] != "nuc"
        for st in col_steps(pb, rnd, 4 if (thorough or not heavy) else 3, 8):
            yield [pb, [st]]
        for k in ((2, 3, 5) if thorough else (2, 3)):
            for how in ("each", "tile"):
                yield [pb, [["repeat", k, how]]]
    if thorough:
        for j, pb in gen_beyond(tier, seed, "columns", 400):
            for st in col_steps(pb, rnd, 0, 4):
                yield [pb, [st]]
            yield [pb, [["repeat", rnd.choice((2, 3, 4, 7)), rnd.choice(("each", "tile"))]]]


def gen_merge(tier, seed):
    for idx, pb in gen_bases(tier, seed, "merge"):
        if pb["mp"] == "data":
            pb = dict(pb, mp="set")
        yield [pb]
    if tier == "thorough":
        for j, pb in gen_beyond(tier, seed, "merge", 150):
            yield [pb]


def gen_order(tier, seed):
    thorough = tier == "thorough"
    rnd = random.Random(f"{seed}/order")
    for idx, pb in gen_bases(tier, seed, "order"):
        n = len(pb["aln"])
        heavy = MODELS[pb["model"]]["fam"] != "nuc"
        perms = [list(p) for p in itertools.permutations(range(n))][1:]
        cap = (119 if not heavy else 40) if thorough else (23 if not heavy else 8)
        if len(perms) > cap:
            perms = rnd.sample(perms, cap)
        for p in perms:
            yield [pb, [["seqorder", p]]]
        choices = [[list(p) for p in ch] for ch in childorder_choices(pb["tree"])][1:]
        cap = 200 if thorough else (16 if not heavy else 6)
        if len(choices) > cap:
            choices = rnd.sample(choices, cap)
        for ch in choices:
            yield [pb, [["childorder", ch]]]
        for w in range(len(RELABEL)):
            yield [pb, [["relabel", w]]]
    if thorough:
        for j, pb in gen_beyond(tier, seed, "order", 300):
            p = list(range(len(pb["aln"])))
            rnd.shuffle(p)
            yield [pb, [["seqorder", p]]]
            ch = [rnd.sample(range(len(n[2])), len(n[2])) for n in walk(pb["tree"]) if n[2]]
            yield [pb, [["childorder", ch]]]
            yield [pb, [["relabel", rnd.randrange(len(RELABEL))]]]


def fracs_for(pb, thorough, idx):
    fr = [0.5, 0.25] if not thorough else [0.5, 0.25, 0.9]
    if pb["len"] == "rule" and (thorough or idx % 2 == 0):
        fr = fr + [0.0, 1.0]       # a zero-length part; only expressible through set_param_rule
    return fr


def gen_reroot(tier, seed):
    thorough = tier == "thorough"
    rnd = random.Random(f"{seed}/reroot")
    for idx, pb in gen_bases(tier, seed, "reroot"):
        if not MODELS[pb["model"]]["rev"]:
            continue
        for where in placements(pb["tree"], fracs_for(pb, thorough, idx)):
            yield [pb, [["reroot", where]]]
    if thorough:
        for j, pb in gen_beyond(tier, seed, "reroot", 500):
            if not MODELS[pb["model"]]["rev"]:
                continue
            pl = placements(pb["tree"], [round(rnd.uniform(0.01, 0.99), 3)])
            for where in rnd.sample(pl, min(3, len(pl))):
                yield [pb, [["reroot", where]]]


def gen_clade_scope(tier, seed):
    """a rate parameter scoped by tip_names=[t1, t2] + outgroup_name: the clade is a set of edges of the *unrooted* tree, so
    the same rule on the same tree written with its root at another node must give the same lnL"""
    thorough = tier == "thorough"
    rnd = random.Random(f"{seed}/clade")
    n = 0
    for idx, pb in gen_bases(tier, seed, "reroot"):
        cfg = MODELS[pb["model"]]
        if not cfg["rev"] or not pb["named"] or cfg.get("discrete") or any(ep for _, _, ep, _ in edges_of(pb["tree"])):
            continue
        tips = tips_of(pb["tree"])
        if len(tips) < 4:
            continue
        nodes = [w for w in placements(pb["tree"], []) if w[0] == "node"]
        for _ in range(6 if thorough else 2):
            t1, t2, og = rnd.sample(tips, 3)
            q = dict(pb)
            q["scope"] = ["kappa", t1, t2, og, 3.5]
            for where in nodes:
                n += 1
                yield [q, [["reroot", where]]]


def api_moves(tree):
    """root moves offered by the tree API itself"""
    tips = tips_of(tree)
    internal = [n[0] for n in walk(tree) if n[2] and n is not tree]
    out = [[["unrooted"]], [["root_at_midpoint"]]]
    out += [[["rooted_with_tip", t]] for t in tips[:2]]
    out += [[["rooted_at", n]] for n in internal[:2]]
    out += [[["unrooted"], ["rooted_with_tip", tips[-1]]]]
    return out


def contract_api_reroot(case):
    """case = [problem, api ops]: lnL on the tree after the library's own root move == lnL on the tree as given"""
    problem, ops = case
    l0 = base_lnL(problem)
    if isinstance(l0, Exception) or not math.isfinite(l0):
        return ("skip",)
    q = dict(problem)
    q["api"] = ops
    site = "api-reroot:" + "+".join(o[0] for o in ops)
    mid = problem["model"]
    root_kids = problem["tree"][2]
    shape = "root[" + ",".join("tip" if not k[2] else "clade" for k in root_kids) + "]"
    try:
        l1 = lnL_of(q)
    except Exception as e:
        return ("fail", f"{site}/{mid}/{shape}/raises {type(e).__name__}", f"problem {json.dumps(problem)} ops {ops}: "
                f"{type(e).__name__}: {str(e)[:300]}")
    if not close(l1, l0):
        return ("fail", f"{site}/{mid}/{shape}/lnL-differs", f"problem {json.dumps(problem)} ops {ops}: lnL(tree)={l0!r}, "
                f"lnL(after the move)={l1!r}, diff={l1 - l0:.3e}")
    return ("ok", True)


def gen_api_reroot(tier, seed):
    for idx, pb in gen_bases(tier, seed, "reroot"):
        if not MODELS[pb["model"]]["rev"] or pb["len"] != "nw" or not pb["named"]:
            continue
        if any(ep for _, _, ep, _ in edges_of(pb["tree"])):
            continue                            # edge-specific parameters are keyed by edge name; a root move renames edges
        for kids in ([0, 1], [1, 0]) if len(pb["tree"][2]) == 2 else ([0],):
            q = dict(pb)
            if kids == [1, 0]:
                t = list(pb["tree"])
                t[2] = [pb["tree"][2][1], pb["tree"][2][0]]
                q["tree"] = t
            for ops in api_moves(q["tree"]):
                yield [q, ops]


def gen_split(tier, seed):
    thorough = tier == "thorough"
    rnd = random.Random(f"{seed}/split")
    for idx, pb in gen_bases(tier, seed, "split"):
        if MODELS[pb["model"]].get("discrete"):
            continue
        es = edges_of(pb["tree"])
        for name, length, ep, tip in es:
            for f in fracs_for(pb, thorough, idx):
                yield [pb, [["split", {name: f}]]]
        if len(es) > 1:
            yield [pb, [["split", {name: 0.5 for name, *_ in es}]]]
            yield [pb, [["split", {name: [0.3, 0.8][i % 2] for i, (name, *_) in enumerate(es) if i % 2 == 0}]]]
    if thorough:
        for j, pb in gen_beyond(tier, seed, "split", 400):
            if MODELS[pb["model"]].get("discrete"):
                continue
            es = edges_of(pb["tree"])
            for _ in range(2):
                sub = rnd.sample(es, rnd.randrange(1, len(es) + 1))
                yield [pb, [["split", {e[0]: round(rnd.uniform(0.01, 0.99), 3) for e in sub}]]]


def rand_step(rnd, pb, kind):
    """one random step of the given kind that is valid on problem pb"""
    if kind == "colperm":
        p = list(range(nblocks_of(pb)))
        rnd.shuffle(p)
        return ["colperm", p]
    if kind == "repeat":
        return ["repeat", rnd.choice((2, 3)), rnd.choice(("each", "tile"))]
    if kind == "seqorder":
        p = list(range(len(pb["aln"])))
        rnd.shuffle(p)
        return ["seqorder", p]
    if kind == "childorder":
        return ["childorder", [rnd.sample(range(len(n[2])), len(n[2])) for n in walk(pb["tree"]) if n[2]]]
    if kind == "reroot":
        pl = placements(pb["tree"], [rnd.choice((0.5, 0.2, 0.75))])
        return ["reroot", rnd.choice(pl)]
    if kind == "split":
        es = edges_of(pb["tree"])
        sub = rnd.sample(es, rnd.randrange(1, min(3, len(es)) + 1))
        return ["split", {e[0]: rnd.choice((0.5, 0.3, 0.8)) for e in sub}]
    raise ValueError(kind)


def gen_compose(tier, seed):
    """seeded compositions of 2-4 transformations; later steps are drawn on the already transformed problem"""
    thorough = tier == "thorough"
    rnd = random.Random(f"{seed}/compose")
    src = itertools.chain(gen_bases(tier, seed, "compose"),
                          gen_beyond(tier, seed, "compose", 300) if thorough else [])
    for idx, pb in src:
        rev = MODELS[pb["model"]]["rev"]
        kinds = ["colperm", "repeat", "seqorder", "childorder"] + (["reroot", "reroot"] if rev else [])
        if not MODELS[pb["model"]].get("discrete"):
            kinds.append("split")
        for _ in range(6 if thorough else 2):
            depth = rnd.choice((2, 3)) if not thorough else rnd.choice((2, 3, 4))
            ks = [rnd.choice(kinds) for _ in range(depth)]
            if ks.count("repeat") > 1:
                ks = [k for k in ks if k != "repeat"] + ["repeat"]
            steps, q = [], pb
            for k in ks:
                st = rand_step(rnd, q, k)
                steps.append(st)
                q = apply(q, st)[0]
            yield [pb, steps]


_FUN = ["SubstitutionModel.make_likelihood_function", "AlignmentLikelihoodFunction.set_alignment",
        "LikelihoodFunction.lnL / get_log_likelihood", "likelihood_calculation.make_total_loglikelihood_defn",
        "likelihood_calculation.recursive_lht_build"]
_MODELS_TXT = ("models quick: " + ", ".join(QUICK_MODELS) + "; thorough adds " +
               ", ".join(m for m in THOROUGH_MODELS if m not in QUICK_MODELS) +
               "; 2 global parameter grids, explicit asymmetric motif probs (1 in 4 nucleotide bases: from data), "
               "old and new alignment types, lengths through the newick or through set_param_rule (then one internal "
               "zero length on >=4 tips), named / auto-named internal nodes")
_TREES_TXT = ("trees: every rooted binary shape on 2-5 tips, the trifurcating-root shapes on 3-5 tips, polytomies "
              "(a,b,c,d) ((a,b,c),d) (a,b,c,(d,e)); lengths from {1e-3,0.05,0.1,0.2,0.3,0.4,0.7,1.5,2.5} (+0); "
              "alignments of 3-5 motif blocks (seeded; states, N R Y - ?, X B Z, NNN --- ACN, one repeated column)")

# ================================================================================================ many site patterns
def gen_many_patterns(tier, seed):
    """alignments with more distinct columns below one internal node than fit in 16 bits"""
    yield ["F81", "((t1:0.1,t2:0.2,t3:0.1,t4:0.3,t5:0.1,t6:0.2,t7:0.1,t8:0.2,t9:0.3)X:0.1,t10:0.2)", 70000, 7]
    yield ["HKY85", "(((t1:0.1,t2:0.2,t3:0.1,t4:0.3,t5:0.1)Y:0.1,(t6:0.2,t7:0.1,t8:0.2,t9:0.3)Z:0.2)X:0.1,t10:0.2)", 66000, 11]
    if tier == "thorough":
        yield ["HKY85", "((t1:0.1,t2:0.2,t3:0.1,t4:0.3,t5:0.1,t6:0.2,t7:0.1,t8:0.2,t9:0.3)X:0.1,t10:0.2)", 140000, 3]


def contract_many_patterns(case):
    """lnL is unchanged by reversing / rotating the columns, and doubles when the alignment is repeated"""
    from cogent3 import get_model, make_aligned_seqs, make_tree
    model, nw, ncol, stride = case
    names = [f"t{i}" for i in range(1, 11)]
    # distinct columns: the base-4 digits of k * stride' for a stride coprime to 4**10
    step = 2 * stride + 1
    cols = []
    for k in range(ncol):
        v = (k * step) % (4 ** 10)
        cols.append("".join("ACGT"[(v >> (2 * j)) & 3] for j in range(10)))
    if len(set(cols)) != ncol:
        return ("skip",)

    def lnl(columns):
        rows = {n: "".join(c[j] for c in columns) for j, n in enumerate(names)}
        lf = get_model(model).make_likelihood_function(make_tree(nw + ";"))
        lf.set_motif_probs({"A": 0.1, "C": 0.2, "G": 0.3, "T": 0.4})
        lf.set_alignment(make_aligned_seqs(rows, moltype="dna"))
        return float(lf.lnL)
    try:
        base = lnl(cols)
        rev = lnl(cols[::-1])
        rot = lnl(cols[ncol // 3:] + cols[:ncol // 3])
    except Exception as e:
        return ("fail", f"many-patterns/{model}/raises {type(e).__name__}", f"{case}: {type(e).__name__}: {str(e)[:200]}")
    for what, v in (("reversed", rev), ("rotated", rot)):
        if abs(v - base) > 1e-9 * abs(base):
            return ("fail", f"many-patterns/{model}/lnL-depends-on-column-order", f"{case}: lnL {base!r}, columns {what}: {v!r}")
    return ("ok", True)


BOUNDED = {
    "many_patterns": {
        "gen": gen_many_patterns, "contract": contract_many_patterns,
        "functions": ["evolve.likelihood_tree._LikelihoodTreeEdge.__init__ (pattern indices of internal nodes)",
                      "make_likelihood_tree_leaf", "LikelihoodFunction.get_log_likelihood"],
        "bound": "10 taxa, 66 000 - 70 000 (thorough 140 000) pairwise distinct columns -- more site patterns below one "
                 "internal node than 2**16 -- F81 / HKY85, two tree shapes",
        "rule": "lnL of the alignment == lnL with the columns reversed == lnL with the columns rotated (relative 1e-9)",
        "shards": 2,
    },
    "columns": {
        "gen": gen_columns, "contract": contract_steps,
        "functions": _FUN + ["likelihood_tree._indexed", "likelihood_tree.make_likelihood_tree_leaf",
                             "LikelihoodTreeEdge.__init__", "LikelihoodTreeEdge.get_log_sum_across_sites",
                             "BinnedLikelihood.__call__"],
        "bound": "every permutation of <=4 motif blocks (thorough <=4 for all, 5 blocks: 8 seeded), repetition k in "
                 "{2,3} (thorough {2,3,5}) both adjacent and tiled; " + _MODELS_TXT + "; " + _TREES_TXT +
                 "; thorough: + 400 seeded problems with 5-7 tips, 6-12 blocks",
        "rule": "a case = (problem, [colperm perm] | [repeat k how]); lnL(T) == k*lnL; non-trivial when the "
                "transformed alignment differs from the base alignment; distinct by hash of the case",
    },
    "merge": {
        "gen": gen_merge, "contract": contract_merge,
        "functions": _FUN + ["likelihood_tree._indexed", "LikelihoodTreeEdge.get_log_sum_across_sites"],
        "bound": "same problems as 'columns' with explicit motif probs: lnL == sum over unique columns of "
                 "multiplicity * lnL(that column alone); thorough + 150 seeded larger problems",
        "rule": "a case = (problem,); non-trivial when the alignment has a repeated column; distinct by hash",
    },
    "order": {
        "gen": gen_order, "contract": contract_steps,
        "functions": _FUN + ["LikelihoodTreeEdge.__init__", "likelihood_tree_numba.sum_input_likelihoods",
                             "make_partial_likelihood_defns"],
        "bound": "every order of the sequences in the alignment (<=4 tips all; 5 tips 23 seeded, thorough all 119 for the "
                 "plain nucleotide models and 40 seeded for the others; quick 8 for codon/protein/dinucleotide), "
                 "every combination of child orders at all nodes (quick <=16 seeded of them when more), three "
                 "consistent renamings of tips and internal nodes; " + _MODELS_TXT + "; " + _TREES_TXT,
        "rule": "a case = (problem, [seqorder p] | [childorder perms] | [relabel i]); non-trivial when the problem "
                "text changes; distinct by hash of the case",
    },
    "reroot": {
        "gen": gen_reroot, "contract": contract_steps,
        "functions": _FUN + ["make_partial_likelihood_defns", "LikelihoodFunction.set_param_rule",
                             "substitution_model psubs / expm of the reversible models"],
        "bound": "time-reversible models only (GN, ssGN, GNC excluded); every placement of the root on the unrooted "
                 "tree: at every node of degree >=3, on every edge at fractions {0.5,0.25} (thorough +0.9; with "
                 "set_param_rule lengths also 0 and 1, i.e. a zero-length root edge); edge-scoped kappa travels "
                 "with its edge; " + _MODELS_TXT + "; " + _TREES_TXT + "; thorough + 500 seeded 5-7 tip problems",
        "rule": "a case = (problem, [reroot placement]); the re-rooted tree is built from the undirected edge list "
                "by the spec, not by cogent3; non-trivial always; distinct by hash of the case",
    },
    "clade_scope": {
        "gen": gen_clade_scope, "contract": contract_steps,
        "functions": ["LikelihoodFunction.set_param_rule(tip_names=, outgroup_name=, clade=)", "TreeNode.get_edge_names",
                      "TreeNode.unrooted_deepcopy"],
        "bound": "reversible models with a kappa term on the named base trees with >= 4 tips; kappa = 3.5 scoped to the "
                 "clade of 2 random tips seen from a random outgroup tip (2 draws per base, thorough 6) x the root at every "
                 "node of degree >= 3",
        "rule": "a case = (problem with the scope rule, [reroot at a node]); lnL must not change; skipped when the model "
                "has no kappa or the rule is refused on the base tree",
    },
    "api_reroot": {
        "gen": gen_api_reroot, "contract": contract_api_reroot,
        "functions": ["core.tree.TreeNode.unrooted / rooted_at / rooted_with_tip / PhyloNode.root_at_midpoint -> "
                      "make_likelihood_function", "evolve.likelihood_function.LikelihoodFunction.get_log_likelihood"],
        "bound": "the base problems of the reroot contract that carry their lengths in the newick string, have named internal "
                 "nodes and no edge-specific parameters; time-reversible models; both orders of a bifurcating root's children; "
                 "moves: unrooted(), root_at_midpoint(), rooted_with_tip (2 tips), rooted_at (2 internal nodes), "
                 "unrooted().rooted_with_tip(last tip)",
        "rule": "lnL on the tree returned by the library's own root move == lnL on the tree as given (relative 1e-9); "
                "always non-trivial",
        "shards": 16,
    },
    "split": {
        "gen": gen_split, "contract": contract_steps,
        "functions": _FUN + ["make_partial_likelihood_defns (single-child nodes)", "LikelihoodFunction.set_param_rule"],
        "bound": "all continuous-time models (each is time-homogeneous along an edge; an edge-scoped kappa is given to both parts); "
                 "every edge split at {0.5,0.25} (thorough +0.9; with set_param_rule lengths also 0 and 1), all "
                 "edges at once, every second edge at 0.3/0.8; " + _MODELS_TXT + "; " + _TREES_TXT +
                 "; thorough + 400 seeded 5-7 tip problems x 2 random edge subsets",
        "rule": "a case = (problem, [split {edge: fraction}]); non-trivial always; distinct by hash of the case",
    },
    "compose": {
        "gen": gen_compose, "contract": contract_steps,
        "functions": _FUN,
        "bound": "seeded compositions of 2-3 (thorough 2-4) of the transformations above on every base problem "
                 "(2 per base, thorough 6 per base + 300 larger problems)",
        "rule": "a case = (problem, [step,...]); later steps are drawn on the transformed problem; distinct by hash",
    },
}
