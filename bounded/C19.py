"""Bounded run-time contracts for C19 (file writes are all-or-nothing; interrupted runs resume to the same result).
Stand-in tier: fault injection on the real code and the real file system; never counted as proved.

Abstract view of a write = the whole working directory: state of the destination (absent / the previous bytes /
exactly the new content, decoded by an independent reader: bytes, gzip, zipfile) + a bystander file beside it + every
other path (temporary files).  Contract text (taken from the property statement, not from the code):

  fault-free  : the writer returns, destination == new content, bystander untouched, nothing else in the directory
  kill        : at every external-call boundary (mkdtemp, open, write, writelines, close, unlink, rename/replace,
                rmtree, ZipFile open/write/close) the destination is the previous state or exactly the new content,
                bystander untouched (temporary files may stay: nobody is alive to remove them)
  raised error: every external call in turn fails in its natural way (OSError; write fails after half of the data):
                the writer either returns with the new content in place, or raises with the destination in its previous
                state or holding exactly the new content; nothing temporary is left unless rmtree itself was made to fail
  sigkill     : the same kill clause with the writer running in a forked child that is really killed (SIGKILL) at the
                boundary; the directory it leaves must also equal what the in-process kill emulation leaves
  format fail : a formatting failure leaves the destination and the directory as they were
  resume      : apply_to interrupted (kill or OSError) at every record boundary and at every external-call boundary
                inside a record write, then re-run on the same store: the final store equals the store of an
                uninterrupted run (and that equals the explicit expected store), and no record that was completely
                stored before the interruption is processed again (records stored as NotCompleted may be retried: the
                statement leaves that open); kill interruptions are run both emulated and as a real SIGKILL of a child

A failing fault schedule is minimised (faults are dropped while the same symptom shows) before it becomes the key:
key = contract / call site[variant] / initial destination / minimal schedule / first symptom.

The harness (speclib/c19_replay.py, full mode) intercepts the externals; an audit hook checks that no file-system
mutation happens outside an intercepted external, so that "every boundary" really is every boundary."""
from __future__ import annotations

import contextlib
import functools
import gzip
import hashlib
import io
import json
import os
import pathlib
import pickle
import random
import shutil
import tempfile
import warnings
import zipfile

# tmpfs when there is one: the contracts are thousands of tiny directory creations and removals
TMPBASE = "/dev/shm" if os.path.isdir("/dev/shm") and os.access("/dev/shm", os.W_OK) else None
OLD_TEXT = ">old\nAAAA\n"
BYSTANDER = "BYSTANDER\n"
TREE1, TREE2 = "((a:1,b:2):3,c:4);", "((a:1,c:2):3,b:4);"
NWK1, NWK2 = "((a:1.0,b:2.0):3.0,c:4.0);", "((a:1.0,c:2.0):3.0,b:4.0);"


# ------------------------------------------------------------------------------------------------ writers
def _seqs(new, aligned):
    """aligned: "array" (ArrayAlignment) | "aln" (Alignment) | False (SequenceCollection; new=True: new_alignment's)"""
    from cogent3 import make_aligned_seqs, make_unaligned_seqs
    if aligned:
        return make_aligned_seqs({"a": "ACGT", "b": "AC-T"}, moltype="dna", array_align=aligned == "array")
    return make_unaligned_seqs({"a": "ACGT", "b": "ACT"}, moltype="dna", new_type=new)


def _tree(nwk=TREE1):
    from cogent3 import make_tree
    return make_tree(nwk)


def _table(titled=False):
    from cogent3 import make_table
    kw = {"title": "T", "legend": "L"} if titled else {}
    return make_table(header=["a", "b"], data=[[1, "x"], [2, "y"]], **kw)


def _dictarray():
    from cogent3.util.dict_array import DictArrayTemplate
    return DictArrayTemplate(["a", "b"], ["x", "y"]).wrap([[1, 2], [3, 4]])


def _collection(kind):
    from cogent3.phylo import tree_collection as tc
    klass = {"scored": tc.ScoredTreeCollection, "loglik": tc.LogLikelihoodScoredTreeCollection,
             "weighted": tc.WeightedTreeCollection}[kind]
    return klass([(2.5, _tree(TREE1)), (1.5, _tree(TREE2))])   # the constructor wants descending scores


FASTA_ALN, FASTA_COLL = ">a\nACGT\n>b\nAC-T\n", ">a\nACGT\n>b\nACT\n"
PHYLIP_ALN = "2  4\na         ACGT\nb         AC-T\n"
TSV, CSV = "a\tb\n1\tx\n2\ty\n", "a,b\n1,x\n2,y\n"
DA_TSV = "dim-1\tdim-2\tvalue\na\tx\t1\na\ty\t2\nb\tx\t3\nb\ty\t4"
DA_CSV = DA_TSV.replace("\t", ",")
SCORED = f"{NWK1}\t[2.5]\n{NWK2}\t[1.5]\n"
USEFUL = f"2.5\t{NWK1}\n1.5\t{NWK2}\n"
AW_TEXT = "first line\nsecond line\n"


def _seq_writer(new, aligned, fname, expect, **kw):
    site = ("core.new_alignment" if new else "core.alignment") + ".write["

    def make():
        obj = _seqs(new, aligned)
        exp = ("json", obj.to_json()) if expect == "json" else ("text", expect)
        return (lambda p: obj.write(str(p), **kw)), exp
    return site, fname, make


def _tree_writer(fname, expect, **kw):
    def make():
        obj = _tree()
        exp = {"json": ("json", obj.to_json()), "xml": ("text", obj.get_xml())}.get(expect, ("text", expect))
        return (lambda p: obj.write(str(p), **kw)), exp
    return "core.tree.write[", fname, make


def _table_writer(fname, expect, titled=False, arg=None, **kw):
    def make():
        obj = _table(titled)
        if expect == "json":
            exp = ("json", obj.to_json())
        elif expect == "pickle":
            exp = ("pickle", obj.__getstate__())
        elif expect == "md":
            exp = ("text", obj.to_string(format="md") + "\n")
        else:
            exp = ("text", expect)
        return (lambda p: obj.write(str(p), **kw)), exp
    return "util.table.write[", fname, make, {"arg": arg}


def _da_writer(fname, expect, **kw):
    def make():
        obj = _dictarray()
        return (lambda p: obj.write(str(p), **kw)), ("text", expect)
    return "util.dict_array.write[", fname, make


def _tc_writer(kind, fname, expect):
    def make():
        obj = _collection(kind)
        return (lambda p: obj.write(str(p))), ("text", expect)
    return "phylo.tree_collection.write[", fname, make


BIG_TEXT = "".join(f">s{i}\n{'ACGT' * 15}\n" for i in range(300))   # ~20 kB: more than one user-space buffer


def _raw_writer(how, fname, text=AW_TEXT):
    half = len(text) // 2

    def make():
        from cogent3.util import io as cio

        def with_(p):
            with cio.atomic_write(p, mode="wt") as f:
                f.write(text[:half])
                f.write(text[half:])

        def noctx(p):
            w = cio.atomic_write(p, mode="wt")
            w.write(text[:half])
            w.write(text[half:])
            w.close()

        def open_w(p):
            with cio.open_zip(p, "w") as f:   # what open_(p, "w") dispatches to for a .zip path
                f.write(text)

        def openzip_noctx(p):
            w = cio.open_zip(p, "w")
            w.write(text)
            w.close()

        def in_zip(p):
            p = pathlib.Path(p)
            with cio.atomic_write(p.parent / p.name[:-4], in_zip=p, mode="w") as f:
                f.write(text)
        fn = {"with": with_, "noctx": noctx, "open_w": open_w, "openzip_noctx": openzip_noctx, "in_zip": in_zip}[how]
        return fn, ("text", text)
    site = "util.io.open_zip[" if how in ("open_w", "openzip_noctx") else "util.io.atomic_write["
    opts = {"bare": how in ("noctx", "openzip_noctx")}
    if how == "in_zip":
        opts["view"] = "member-added"   # in_zip=<archive>: the write adds one member to an archive that has others
    return site, fname, make, opts


def _table_compress():
    return _table_writer("out.tsv.gz", TSV, arg="out.tsv", compress=True)


# name -> (call-site prefix, destination file name, make() -> (write(path), expected), [name passed to the writer])
WRITERS = {
    "arrayaln/fasta": _seq_writer(False, "array", "out.fasta", FASTA_ALN),
    "aln/fasta": _seq_writer(False, "aln", "out.fasta", FASTA_ALN),
    "coll.old/fasta": _seq_writer(False, False, "out.fasta", FASTA_COLL),
    "coll.new/fasta": _seq_writer(True, False, "out.fasta", FASTA_COLL),
    "arrayaln/phylip": _seq_writer(False, "array", "out.phylip", PHYLIP_ALN),
    "aln/phylip": _seq_writer(False, "aln", "out.phylip", PHYLIP_ALN),
    "aln/format=fasta": _seq_writer(False, "aln", "out.txt", FASTA_ALN, format="fasta"),
    "coll.new/file_format=fasta": _seq_writer(True, False, "out.txt", FASTA_COLL, file_format="fasta"),
    "arrayaln/json": _seq_writer(False, "array", "out.json", "json"),
    "aln/json": _seq_writer(False, "aln", "out.json", "json"),
    "coll.old/json": _seq_writer(False, False, "out.json", "json"),
    "coll.new/json": _seq_writer(True, False, "out.json", "json"),
    "arrayaln/fasta.gz": _seq_writer(False, "array", "out.fasta.gz", FASTA_ALN),
    "aln/fasta.gz": _seq_writer(False, "aln", "out.fasta.gz", FASTA_ALN),
    "coll.old/fasta.gz": _seq_writer(False, False, "out.fasta.gz", FASTA_COLL),
    "coll.new/fasta.gz": _seq_writer(True, False, "out.fasta.gz", FASTA_COLL),
    "aln/json.gz": _seq_writer(False, "aln", "out.json.gz", "json"),
    "coll.new/json.gz": _seq_writer(True, False, "out.json.gz", "json"),
    "aln/fasta.zip": _seq_writer(False, "aln", "out.fasta.zip", FASTA_ALN),
    "coll.old/fasta.zip": _seq_writer(False, False, "out.fasta.zip", FASTA_COLL),
    "coll.new/fasta.zip": _seq_writer(True, False, "out.fasta.zip", FASTA_COLL),
    "coll.new/json.zip": _seq_writer(True, False, "out.json.zip", "json"),
    "tree/nwk": _tree_writer("out.nwk", NWK1),
    "tree/nwk-no-lengths": _tree_writer("out.nwk", "((a,b),c);", with_distances=False),
    "tree/xml": _tree_writer("out.xml", "xml"),
    "tree/json": _tree_writer("out.json", "json"),
    "tree/nwk.gz": _tree_writer("out.nwk.gz", NWK1),
    "tree/json.gz": _tree_writer("out.json.gz", "json"),
    "tree/json.zip": _tree_writer("out.json.zip", "json"),
    "table/tsv": _table_writer("out.tsv", TSV),
    "table/csv": _table_writer("out.csv", CSV),
    "table/csv-title-legend": _table_writer("out.csv", "T\n" + CSV + "L\n", titled=True),
    "table/format=tsv": _table_writer("out.txt", TSV, format="tsv"),
    "table/pickle": _table_writer("out.pickle", "pickle"),
    "table/json": _table_writer("out.json", "json"),
    "table/md": _table_writer("out.md", "md"),
    "table/tsv.gz": _table_writer("out.tsv.gz", TSV),
    "table/csv.gz": _table_writer("out.csv.gz", CSV),
    "table/json.gz": _table_writer("out.json.gz", "json"),
    "table/compress=True": _table_compress(),
    "table/tsv.zip": _table_writer("out.tsv.zip", TSV),
    "table/json.zip": _table_writer("out.json.zip", "json"),
    "dictarray/tsv": _da_writer("out.tsv", DA_TSV),
    "dictarray/csv": _da_writer("out.csv", DA_CSV, format="csv", sep=","),
    "dictarray/tsv.gz": _da_writer("out.tsv.gz", DA_TSV),
    "dictarray/tsv.zip": _da_writer("out.tsv.zip", DA_TSV),
    "trees/scored": _tc_writer("scored", "out.trees", SCORED),
    "trees/loglik": _tc_writer("loglik", "out.trees", USEFUL),
    "trees/weighted.gz": _tc_writer("weighted", "out.trees.gz", USEFUL),
    "atomic_write/with": _raw_writer("with", "out.txt"),
    "atomic_write/write+close": _raw_writer("noctx", "out.txt"),
    "atomic_write/with.gz": _raw_writer("with", "out.txt.gz"),
    "atomic_write/with.zip": _raw_writer("with", "out.txt.zip"),
    "atomic_write/in_zip=path-20kB": _raw_writer("in_zip", "out.txt.zip", BIG_TEXT),
    "open_zip/w": _raw_writer("open_w", "out.fasta.zip"),
    "open_zip/w-20kB": _raw_writer("open_w", "out.fasta.zip", BIG_TEXT),
}


def site_of(wname):
    w = WRITERS[wname]
    return w[0] + (wname.replace("/", ":") if w[0].startswith("core.") and "tree" not in w[0] else wname.split("/", 1)[1]) + "]"


def target_kind(fname):
    return "zip" if fname.endswith(".zip") else "gz" if fname.endswith(".gz") else "plain"


def opts_of(wname):
    w = WRITERS[wname]
    return w[3] if len(w) > 3 else {}


def old_bytes(fname, opts=None):
    kind = target_kind(fname)
    if kind == "gz":
        return gzip.compress(OLD_TEXT.encode(), mtime=0)
    if kind == "zip":
        buf = io.BytesIO()
        with zipfile.ZipFile(buf, "w") as z:
            # what an earlier write of the same path left; for in_zip=<archive>: an archive holding another member
            z.writestr("other.txt" if (opts or {}).get("view") == "member-added" else fname[:-4], OLD_TEXT)
        return buf.getvalue()
    return OLD_TEXT.encode()


def decode(raw, kind, opts=None, had_old=False):
    """independent reader: ('text', bytes) or ('other', why)"""
    try:
        if kind == "gz":
            return "text", gzip.decompress(raw)
        if kind == "zip":
            with zipfile.ZipFile(io.BytesIO(raw)) as z:
                infos = z.infolist()
                if (opts or {}).get("view") == "member-added" and had_old:
                    names = [i.filename for i in infos]
                    if len(infos) != 2 or names[0] != "other.txt":
                        return "other", f"zip-archive-with-members-{names}"
                    if z.read(infos[0]).decode() != OLD_TEXT:
                        return "other", "zip-archive-other-member-changed"
                    return "text", z.read(infos[1])
                if len(infos) != 1:
                    return "other", f"zip-archive-with-{len(infos)}-members"
                return "text", z.read(infos[0])
        return "text", raw
    except Exception as e:
        return "other", f"unreadable-{kind}({type(e).__name__})"


def is_new(data, expect):
    mode, want = expect
    try:
        if mode == "text":
            return data.decode() == want
        if mode == "json":
            return json.loads(data.decode()) == json.loads(want)
        if mode == "pickle":
            return pickle.loads(data) == want
    except Exception:
        return False
    raise ValueError(mode)


def classify(dest, pre, fname, expect, opts=None):
    if not dest.exists():
        return "absent", ""
    raw = dest.read_bytes()
    if pre is not None and raw == pre:
        return "old", ""
    how, data = decode(raw, target_kind(fname), opts, pre is not None)
    if how == "text":
        if is_new(data, expect):
            return "new", ""
        if len(raw) == 0:
            return "other", "empty-file"
        return "other", "neither-old-nor-new-content"
    if len(raw) == 0:
        return "other", "empty-file"
    return "other", data


def norm_leftover(rel):
    parts = pathlib.PurePath(rel).parts
    out = []
    for i, p in enumerate(parts):
        if p.startswith("tmp") and len(p) >= 8 and "." not in p:
            out.append("tmpdir")
        elif len(p) >= 36 and p[8] == "-" and p[13] == "-":
            out.append("tmpfile" + "".join(pathlib.PurePath(p[36:]).suffixes))
        else:
            out.append(p)
    return "/".join(out)


def run_writer(wname, dest0, faults, sigkill=False):
    """sigkill=True: the writer runs in a child process and a scheduled kill is a real SIGKILL of that process"""
    from speclib import c19_replay as R
    warnings.filterwarnings("ignore")
    w = WRITERS[wname]
    fname = w[1]
    opts = opts_of(wname)
    arg = opts.get("arg") or fname
    write, expect = w[2]()
    work = tempfile.mkdtemp(prefix="c19b_", dir=TMPBASE)
    try:
        root = pathlib.Path(work)
        dest, by = root / fname, root / "bystander.txt"
        by.write_text(BYSTANDER)
        pre = None
        if dest0 == "old":
            pre = old_bytes(fname, opts)
            dest.write_bytes(pre)
        by_name = {lab: ("kill" if kind == "kill" else "fail") for lab, kind in faults}
        detail = ""
        if sigkill:
            outcome, log = fork_and_run(wname, root / arg, by_name)
            script = R.Script([], full=True)
            script.log = log
        else:
            script = R.Script([], full=True, by_name=by_name)
            outcome = "return"
            with R.audited(script, work), R.patched(script):
                try:
                    write(root / arg)
                except R.Kill:
                    outcome = "killed"
                except BaseException as e:
                    outcome = f"raise {type(e).__name__}"
                    detail = str(e)[:120]
        state, why = classify(dest, pre, fname, expect, opts)
        leftovers = sorted(norm_leftover(str(p.relative_to(root))) for p in root.rglob("*") if p not in (dest, by))
        return {"outcome": outcome, "dest": state, "why": why, "leftovers": leftovers,
                "bystander": by.exists() and by.read_text() == BYSTANDER, "log": list(script.log),
                "names": [x.split(":", 1)[0] for x in script.log if not x.endswith(":killed-before")],
                "failed": list(script.failed), "hit": list(script.hit), "unintercepted": sorted(set(script.unintercepted)),
                "error": detail}
    finally:
        shutil.rmtree(work, ignore_errors=True)


def fork_and_run(wname, path, by_name):
    """the writer runs in a forked child; a scheduled kill is a real SIGKILL of that child.  Returns (outcome, trace)"""
    from speclib import c19_replay as R
    rfd, wfd = os.pipe()
    pid = os.fork()
    if pid == 0:   # sacrificial process
        code = 0
        try:
            os.close(rfd)
            write, _ = WRITERS[wname][2]()
            script = R.Script([], full=True, by_name=by_name)
            script.real_kill = True
            real_next = script.next

            def next_(name):   # unbuffered trace: it must survive the kill
                try:
                    return real_next(name)
                finally:
                    os.write(wfd, f"EXT {script.log[-1]}\n".encode())
            script.next = next_
            try:
                with R.patched(script):
                    write(pathlib.Path(path))
            except BaseException as e:
                os.write(wfd, f"EXC {type(e).__name__}\n".encode())
                code = 1
        finally:
            os._exit(code)
    os.close(wfd)
    chunks = []
    while True:
        b = os.read(rfd, 65536)
        if not b:
            break
        chunks.append(b)
    os.close(rfd)
    _, status = os.waitpid(pid, 0)
    lines = b"".join(chunks).decode().splitlines()
    log = [x[4:] for x in lines if x.startswith("EXT ")]
    if os.WIFSIGNALED(status):
        return ("killed" if os.WTERMSIG(status) == 9 else f"signal-{os.WTERMSIG(status)}"), log
    exc = [x[4:] for x in lines if x.startswith("EXC ")]
    return (f"raise {exc[-1]}" if exc else "return"), log


def labels(names):
    seen, out = {}, []
    for nm in names:
        seen[nm] = seen.get(nm, 0) + 1
        out.append(f"{nm}#{seen[nm]}")
    return out


@functools.lru_cache(maxsize=None)
def discover(wname, dest0, failing):
    """labels ("name#occurrence") of the externals the real code calls when the externals in ``failing`` fail"""
    return tuple(labels(run_writer(wname, dest0, [[lab, "raise"] for lab in failing])["names"]))


def later(labs, lab):
    return labs[labs.index(lab) + 1:] if lab in labs else ()


def gen_faults(tier, seed):
    thorough = tier == "thorough"
    rnd = random.Random(seed)
    for wname in WRITERS:
        for dest0 in ("absent", "old"):
            yield [wname, dest0, []]
            l0 = discover(wname, dest0, ())
            for lk in l0:
                yield [wname, dest0, [[lk, "kill"]]]
                yield [wname, dest0, [[lk, "raise"]]]
                for lj in later(discover(wname, dest0, (lk,)), lk):
                    yield [wname, dest0, [[lk, "raise"], [lj, "kill"]]]
                    yield [wname, dest0, [[lk, "raise"], [lj, "raise"]]]
                    if not thorough:
                        continue
                    for li in later(discover(wname, dest0, (lk, lj)), lj):
                        yield [wname, dest0, [[lk, "raise"], [lj, "raise"], [li, "kill"]]]
                        yield [wname, dest0, [[lk, "raise"], [lj, "raise"], [li, "raise"]]]
            if thorough:   # beyond the frontier: random walks to 4-6 faults
                for _ in range(6):
                    chosen = []
                    for _ in range(rnd.choice((4, 5, 6))):
                        labs = discover(wname, dest0, tuple(chosen))
                        rest = later(labs, chosen[-1]) if chosen else labs
                        if not rest:
                            break
                        chosen.append(rnd.choice(rest))
                    if len(chosen) >= 4:
                        fl = [[lab, "raise"] for lab in chosen]
                        if rnd.random() < 0.5:
                            fl[-1][1] = "kill"
                        yield [wname, dest0, fl]


def pretty(lab):
    return lab[:-2] if lab.endswith("#1") else lab


def fault_pattern(faults):
    return "+".join(("kill-before@" if kind == "kill" else "raise@") + pretty(lab) for lab, kind in faults) or "fault-free"


def judge(dest0, faults, res, opts=None):
    """list of symptoms (empty = the property statement holds for this run)"""
    sym = []
    killed = res["outcome"] == "killed"
    prev = "old" if dest0 == "old" else "absent"
    if res["dest"] == "other":
        sym.append(f"destination-{res['why']}")
    elif not faults:
        if res["outcome"] != "return":
            sym.append(f"fault-free-write-raises-{res['outcome'].split()[-1]}")
        elif res["dest"] != "new":
            sym.append(f"returns-but-destination-{res['dest']}")
    elif res["outcome"] == "return":
        if res["dest"] != "new":
            sym.append(f"returns-but-destination-{res['dest']}")
    elif res["dest"] not in (prev, "new"):
        sym.append(f"destination-{res['dest']}-was-{prev}")
    if not res["bystander"]:
        sym.append("bystander-file-changed")
    bare_abort = (opts or {}).get("bare") and res["failed"][:1] == ["file.write"]
    # (write()+close() without a with-statement: after a failing write() nothing of the writer runs any more and
    #  close() would commit, so cleaning up is not demanded of the bare protocol; the property's writers all use with)
    if res["leftovers"] and not killed and "shutil.rmtree" not in res["failed"] and not bare_abort:
        sym.append("left-behind:" + ",".join(sorted(set(res["leftovers"]))))
    if res["unintercepted"]:
        sym.append("file-system-call-outside-the-intercepted-externals:" + ",".join(res["unintercepted"]))
    return sym


def reached(faults, res):
    return all(lab in res["hit"] for lab, _ in faults) and \
        (res["outcome"] == "killed") == any(kind == "kill" for _, kind in faults)


def contract_faults(case):
    wname, dest0, faults = case
    opts = opts_of(wname)
    res = run_writer(wname, dest0, faults)
    if not reached(faults, res):   # precondition: every scheduled fault was reached
        return ("skip",)
    sym = judge(dest0, faults, res, opts)
    if not sym:
        return ("ok", bool(faults) or res["dest"] == "new")
    # minimise the schedule: drop every fault without which the same first symptom still shows
    minimal = [list(f) for f in faults]
    for f in list(reversed(minimal)):
        trial = [g for g in minimal if g != f]
        r2 = run_writer(wname, dest0, trial)
        if reached(trial, r2) and judge(dest0, trial, r2, opts)[:1] == sym[:1]:
            minimal, res = trial, r2
    return ("fail", f"faults/{site_of(wname)}/{dest0}/{fault_pattern(minimal)}/{sym[0]}",
            f"{wname}, destination initially {dest0}, minimal fault schedule {minimal} (found with {faults}): externals "
            f"{res['log']}; outcome {res['outcome']} {res['error']!r}, destination {res['dest']} {res['why']}, other paths "
            f"{res['leftovers']}, bystander intact {res['bystander']}; all symptoms {judge(dest0, minimal, res, opts)}")


# ------------------------------------------------------------------------------------------------ real SIGKILL
def gen_sigkill(tier, seed):
    for wname in WRITERS:
        for dest0 in ("absent", "old"):
            for lk in discover(wname, dest0, ()):
                yield [wname, dest0, [[lk, "kill"]]]
                if tier == "thorough":   # a kill during the clean-up that follows a failing call
                    for lj in later(discover(wname, dest0, (lk,)), lk):
                        yield [wname, dest0, [[lk, "raise"], [lj, "kill"]]]


def contract_sigkill(case):
    """the same statement as 'faults', with the process really killed; also: the in-process emulation of the kill
    must leave the same destination state as the real kill"""
    wname, dest0, faults = case
    opts = opts_of(wname)
    res = run_writer(wname, dest0, faults, sigkill=True)
    if res["outcome"] != "killed":
        return ("fail", f"sigkill/{site_of(wname)}/{dest0}/{fault_pattern(faults)}/child-not-killed-{res['outcome'].replace(' ', '-')}",
                f"{case}: child outcome {res['outcome']}, externals {res['log']}")
    sym = judge(dest0, faults, res, opts)
    if sym:   # not the kill's doing when the schedule without the kill already shows it: report under that key
        r = contract_faults([wname, dest0, [f for f in faults if f[1] != "kill"]])
        if r[0] == "fail" and r[1].endswith("/" + sym[0]):
            return (r[0], r[1], r[2] + f" (seen again with a real SIGKILL: {faults})")
    if sym:
        return ("fail", f"sigkill/{site_of(wname)}/{dest0}/{fault_pattern(faults)}/{sym[0]}",
                f"{wname}, destination initially {dest0}, schedule {faults}, process killed (SIGKILL) just before {faults[-1][0]}: externals "
                f"{res['log']}; destination {res['dest']} {res['why']}, other paths {res['leftovers']}, bystander intact "
                f"{res['bystander']}")
    emu = run_writer(wname, dest0, faults)
    if (emu["dest"], emu["why"], emu["leftovers"]) != (res["dest"], res["why"], res["leftovers"]):
        return ("fail", f"sigkill/{site_of(wname)}/{dest0}/{fault_pattern(faults)}/emulated-kill-differs-from-real-kill",
                f"{case}: real kill leaves {res['dest']} {res['why']} {res['leftovers']}, emulation leaves {emu['dest']} "
                f"{emu['why']} {emu['leftovers']}")
    return ("ok", True)


# ------------------------------------------------------------------------------------------------ formatting failures
def _bad_tree_collection():
    from cogent3.phylo.tree_collection import ScoredTreeCollection
    return ScoredTreeCollection([(2.5, _tree()), (1.5, "not a tree")])


def _raising_writer(rows, has_header=True):
    raise ValueError("writer failed")


FMTFAIL = {
    "aln.old/format=bogus": ("core.alignment.write", "out.fasta", lambda p: _seqs(False, "aln").write(str(p), format="bogus")),
    "coll.old/format=bogus": ("core.alignment.write", "out.fasta", lambda p: _seqs(False, False).write(str(p), format="bogus")),
    "coll.new/format=bogus": ("core.new_alignment.write", "out.fasta", lambda p: _seqs(True, False).write(str(p), file_format="bogus")),
    "aln.old/unknown-suffix": ("core.alignment.write", "out.bogus", lambda p: _seqs(False, "aln").write(str(p))),
    "coll.new/unknown-suffix": ("core.new_alignment.write", "out.bogus", lambda p: _seqs(True, False).write(str(p))),
    "aln.old/no-suffix": ("core.alignment.write", "out", lambda p: _seqs(False, "aln").write(str(p))),
    "coll.new/no-suffix": ("core.new_alignment.write", "out", lambda p: _seqs(True, False).write(str(p))),
    "aln.old/bogus.gz": ("core.alignment.write", "out.bogus.gz", lambda p: _seqs(False, "aln").write(str(p))),
    "aln.old/bogus.zip": ("core.alignment.write", "out.bogus.zip", lambda p: _seqs(False, "aln").write(str(p))),
    "aln.old/bad-kwarg": ("core.alignment.write", "out.fasta", lambda p: _seqs(False, "aln").write(str(p), nonsense=1)),
    "coll.new/bad-kwarg": ("core.new_alignment.write", "out.fasta", lambda p: _seqs(True, False).write(str(p), nonsense=1)),
    "table/bedgraph": ("util.table.write", "out.bedgraph", lambda p: _table().write(str(p))),
    "table/bedgraph.gz": ("util.table.write", "out.bedgraph.gz", lambda p: _table().write(str(p))),
    "table/writer-raises": ("util.table.write", "out.tsv", lambda p: _table().write(str(p), writer=_raising_writer)),
    "table/format=latex-bad-kwarg": ("util.table.write", "out.tex", lambda p: _table().write(str(p), justify=3)),
    "dictarray/format=bogus": ("util.dict_array.write", "out.txt", lambda p: _dictarray().write(str(p), format="bogus")),
    "tree/format=bogus": ("core.tree.write", "out.nwk", lambda p: _tree().write(str(p), format=3)),
    "tree/nwk.zip": ("core.tree.write", "out.nwk.zip", lambda p: _tree().write(str(p))),
    "trees/bad-member": ("phylo.tree_collection.write", "out.trees", lambda p: _bad_tree_collection().write(str(p))),
    "trees/bad-member.gz": ("phylo.tree_collection.write", "out.trees.gz", lambda p: _bad_tree_collection().write(str(p))),
    # the temporary file cannot even be opened, for a reason that is not an OSError (bad mode / unknown or misplaced encoding)
    "raw/mode=wtb": ("util.io.atomic_write", "out.txt", lambda p: _aw_use(p, mode="wtb")),
    "raw/mode=rw": ("util.io.atomic_write", "out.txt", lambda p: _aw_use(p, mode="rw")),
    "raw/encoding=utf-88": ("util.io.atomic_write", "out.txt", lambda p: _aw_use(p, encoding="utf-88")),
    "raw.gz/encoding=utf-88": ("util.io.atomic_write", "out.txt.gz", lambda p: _aw_use(p, encoding="utf-88")),
    "raw.gz/binary-with-encoding": ("util.io.atomic_write", "out.txt.gz", lambda p: _aw_use(p, mode="wb", encoding="utf-8")),
    "raw.bz2/binary-with-encoding": ("util.io.atomic_write", "out.txt.bz2", lambda p: _aw_use(p, mode="wb", encoding="utf-8")),
    "raw/no-context/mode=wtb": ("util.io.atomic_write", "out.txt", lambda p: _aw_use(p, ctx=False, mode="wtb")),
    "raw/no-context/encoding=utf-88": ("util.io.atomic_write", "out.txt", lambda p: _aw_use(p, ctx=False, encoding="utf-88")),
    "table/mode=wtb": ("util.table.write", "out.tsv", lambda p: _table().write(str(p), mode="wtb")),
    "table.gz/mode=wtb": ("util.table.write", "out.tsv.gz", lambda p: _table().write(str(p), mode="wtb")),
}


def _aw_use(p, ctx=True, **kw):
    from cogent3.util.io import atomic_write
    if ctx:
        with atomic_write(p, **kw) as f:
            f.write(AW_TEXT)
    else:
        aw = atomic_write(p, **kw)
        aw.write(AW_TEXT)
        aw.close()


def gen_fmtfail(tier, seed):
    for name in FMTFAIL:
        for dest0 in ("absent", "old"):
            yield [name, dest0]


def contract_fmtfail(case):
    name, dest0 = case
    site, fname, call = FMTFAIL[name]
    warnings.filterwarnings("ignore")
    work = tempfile.mkdtemp(prefix="c19f_", dir=TMPBASE)
    try:
        root = pathlib.Path(work)
        dest, by = root / fname, root / "bystander.txt"
        by.write_text(BYSTANDER)
        pre = None
        if dest0 == "old":
            pre = old_bytes(fname)
            dest.write_bytes(pre)
        try:
            call(dest)
        except Exception as e:
            err = f"{type(e).__name__}: {e}"[:160]
        else:
            return ("skip",)   # formatting did not fail: the statement says nothing here
        now = dest.read_bytes() if dest.exists() else None
        others = sorted(norm_leftover(str(p.relative_to(root))) for p in root.rglob("*") if p not in (dest, by))
        sym = []
        if now != pre:
            sym.append("destination-" + ("removed" if now is None else "created" if pre is None else "overwritten"))
        if not (by.exists() and by.read_text() == BYSTANDER):
            sym.append("bystander-file-changed")
        if others:
            sym.append("left-behind:" + ",".join(sorted(set(others))))
        if sym:
            return ("fail", f"fmtfail/{site}[{name.split('/', 1)[1]}]/{dest0}/{sym[0]}",
                    f"{name} on {fname}, destination initially {dest0}: raises {err}; destination now "
                    f"{'absent' if now is None else repr(now[:60])}, other paths {others}; all symptoms {sym}")
        return ("ok", True)
    finally:
        shutil.rmtree(work, ignore_errors=True)


# ------------------------------------------------------------------------------------------------ apply_to resume
RECORDS = {   # id -> fasta text; records whose sequences are shorter than 3 become NotCompleted (min_length)
    "s0": ">a\nACGT\n>b\nACGA\n", "s1": ">a\nAC\n>b\nAG\n", "s2": ">a\nACGTTT\n>b\nACGAAA\n",
    "s3": ">a\nACGTAA\n>c\nACGAGG\n", "s4": ">a\nA\n>c\nC\n", "s5": ">x\nTTTT\n>y\nTTTA\n",
}
RECORDS.update({"xs0": ">a\nAC\n>b\nAG\n", "as0": ">a\nAT\n>b\nAG\n", "s0.x": ">a\nA\n>b\nG\n"})      # fail (too short); names related to "s0" by suffix / prefix
CONFIGS = {"3": ["s0", "s1", "s2"], "4": ["s0", "s1", "s2", "s3"], "6": ["s0", "s1", "s2", "s3", "s4", "s5"],
           # a failing input whose identifier ends with (starts with) the identifier of an input that succeeds, processed first
           "sfx": ["as0", "xs0", "s0.x", "s0", "s2"]}     # (as0 is listed, hence processed, before s0; xs0 after it)
MIN_LENGTH = 3


def expected_store(ids):
    """the store an uninterrupted run must produce, written down by hand"""
    done = {i: RECORDS[i] for i in ids if min(len(x) for x in RECORDS[i].split("\n")[1::2]) >= MIN_LENGTH}
    files = {f"{i}.fasta": t for i, t in done.items()}
    files.update({f"md5/{i}.txt": hashlib.md5(t.encode()).hexdigest() for i, t in done.items()})
    nc = sorted(i for i in ids if i not in done)
    return files, nc


class _Interrupt(BaseException):
    pass


def store_view(path):
    out = {}
    path = pathlib.Path(path)
    if not path.exists():
        return out
    for p in sorted(path.rglob("*")):
        if p.is_file():
            try:
                out[str(p.relative_to(path))] = p.read_text()
            except Exception as e:
                out[str(p.relative_to(path))] = f"<unreadable {type(e).__name__}>"
    return out


def run_apply(root, out, ids, mode, interrupt=None, real_kill=False):
    """one session of apply_to.  interrupt: None | ["record", k] | ["inside", r, j, "kill"|"raise"] | ["observe"]
    returns (outcome, ids handed to the writer, log of externals of record r -- with "observe": one log per record)"""
    import cogent3.app.data_store as dsm
    from cogent3 import get_app, open_data_store
    from speclib import c19_replay as R
    old_master = dsm.is_master_process
    dsm.is_master_process = lambda: True   # the forked harness worker plays the user's main process
    try:
        ins = open_data_store(pathlib.Path(root) / "in", suffix="fasta", mode="r")
        outds = open_data_store(out, suffix="fasta", mode=mode)
        writer = get_app("write_seqs", data_store=outds, format="fasta")
        app = get_app("load_unaligned", format="fasta", moltype="dna") + get_app("min_length", length=MIN_LENGTH) + writer
        klass = type(writer)
        orig = klass.main
        calls, ext_log = [], []

        def main(self, data, identifier=None):
            n = len(calls)
            if interrupt and interrupt[0] == "record" and n == interrupt[1]:
                if real_kill:
                    os.kill(os.getpid(), 9)
                raise _Interrupt()
            calls.append(identifier)
            if interrupt and interrupt[0] == "observe":
                script = R.Script([], full=True)
                try:
                    with R.patched(script):
                        return orig(self, data=data, identifier=identifier)
                finally:
                    ext_log.append([x.split(":", 1)[0] for x in script.log])
            if interrupt and interrupt[0] == "inside" and n == interrupt[1]:
                j, kind = interrupt[2], interrupt[3]
                trace = [["*", "ok"]] * j + [["*", "fail"]] if kind == "raise" else []
                script = R.Script(trace, kill_before=j if kind == "kill" else None, full=True)
                script.real_kill = real_kill
                try:
                    with R.patched(script):
                        return orig(self, data=data, identifier=identifier)
                finally:
                    ext_log.extend(script.log)
            return orig(self, data=data, identifier=identifier)
        klass.main = main
        try:
            # the records are handed over in the order of ``ids`` (a directory listing has no defined order)
            by_id = {pathlib.Path(str(m.unique_id)).name[:-len(".fasta")]: m for m in ins.completed}
            app.apply_to([by_id[i] for i in ids], logger=False)
            outcome = "return"
        except (_Interrupt, R.Kill):
            outcome = "killed"
        except Exception as e:
            outcome = f"raise {type(e).__name__}"
        finally:
            klass.main = orig
        return outcome, calls, ext_log
    finally:
        dsm.is_master_process = old_master


def run_apply_forked(root, out, ids, mode, interrupt):
    """the session runs in a forked child and its interruption is a real SIGKILL of that child"""
    rfd, wfd = os.pipe()
    pid = os.fork()
    if pid == 0:
        try:
            os.close(rfd)
            res = run_apply(root, out, ids, mode, interrupt, real_kill=True)
            os.write(wfd, json.dumps(res).encode())
        finally:
            os._exit(0)
    os.close(wfd)
    chunks = []
    while True:
        b = os.read(rfd, 65536)
        if not b:
            break
        chunks.append(b)
    os.close(rfd)
    _, status = os.waitpid(pid, 0)
    if os.WIFSIGNALED(status):
        return "killed", ["<died>"], []
    return tuple(json.loads(b"".join(chunks).decode()))


def make_inputs(root, ids):
    d = pathlib.Path(root) / "in"
    d.mkdir()
    for i in ids:
        (d / f"{i}.fasta").write_text(RECORDS[i])


@functools.lru_cache(maxsize=None)
def discover_records(cfg):
    """per record (in processing order): number of externals inside its write"""
    ids = CONFIGS[cfg]
    work = tempfile.mkdtemp(prefix="c19r_", dir=TMPBASE)
    try:
        make_inputs(work, ids)
        _, _, logs = run_apply(work, pathlib.Path(work) / "o", ids, "w", ["observe"])
        return tuple(len(x) for x in logs)
    finally:
        shutil.rmtree(work, ignore_errors=True)


def gen_resume(tier, seed):
    thorough = tier == "thorough"
    rnd = random.Random(seed)
    for cfg in (("3", "4", "6", "sfx") if thorough else ("3", "4", "sfx")):
        n = len(CONFIGS[cfg])
        yield [cfg, []]
        for k in range(n + 1):
            yield [cfg, [["record", k]]]
            yield [cfg, [["record", k]], "sigkill"]
        counts = discover_records(cfg)
        for r in range(n):
            for j in range(counts[r] + 1):
                for kind in ("kill", "raise"):
                    if kind == "raise" and j == counts[r]:
                        continue
                    yield [cfg, [["inside", r, j, kind]]]
                    if kind == "kill":
                        yield [cfg, [["inside", r, j, kind]], "sigkill"]
        # two interruptions in a row
        pairs = [(a, b) for a in range(n + 1) for b in range(n + 1)]
        for a, b in (pairs if thorough else pairs[::3]):
            yield [cfg, [["record", a], ["record", b]]]
        for _ in range(120 if thorough else 12):
            seq = []
            for _ in range(rnd.choice((2, 3))):
                if rnd.random() < 0.3:
                    seq.append(["record", rnd.randrange(n + 1)])
                else:
                    r = rnd.randrange(n)
                    seq.append(["inside", r, rnd.randrange(max(counts) + 1), rnd.choice(("kill", "raise"))])
            yield [cfg, seq]


def diff_store(got, want):
    """which part of the store differs: stable words for the key"""
    parts = set()
    for name in sorted(set(got) | set(want)):
        g, w = got.get(name), want.get(name)
        if g == w:
            continue
        where = "md5" if name.startswith("md5/") else "not_completed" if name.startswith("not_completed/") else \
            "completed-record" if "/" not in name else "other-path"
        what = "missing" if g is None else "unexpected" if w is None else "empty" if g == "" else \
            "truncated" if w.startswith(g) else "different"
        parts.add(f"{where}-{what}")
    rank = {"completed-record": 0, "md5": 1, "not_completed": 2, "other-path": 3}
    return sorted(parts, key=lambda x: (rank[x.rsplit("-", 1)[0]], x))


# ------------------------------------------------------------------------------------------------ resume into a sqlite store
def gen_resume_db(tier, seed):
    for cfg in ("3", "4", "sfx") + (("6",) if tier == "thorough" else ()):
        n = len(CONFIGS[cfg])
        for k in range(n + 1):
            yield [cfg, [k]]
        for a in range(n + 1):
            for b in range(a, n + 1):
                if (a + b) % 2 == 0 or tier == "thorough":
                    yield [cfg, [a, b]]


def _db_session(work, out, ids, mode, stop_at):
    """one apply_to session writing to the sqlite store ``out``; interrupted before record number stop_at (None: not at all)"""
    import cogent3.app.data_store as dsm
    from cogent3 import get_app, open_data_store
    old_master = dsm.is_master_process
    dsm.is_master_process = lambda: True
    try:
        ins = open_data_store(pathlib.Path(work) / "in", suffix="fasta", mode="r")
        outds = open_data_store(out, mode=mode)
        writer = get_app("write_db", data_store=outds)
        app = get_app("load_unaligned", format="fasta", moltype="dna") + get_app("min_length", length=MIN_LENGTH) + writer
        klass, calls = type(writer), []
        orig = klass.main

        def main(self, data, identifier=None):
            if stop_at is not None and len(calls) == stop_at:
                raise _Interrupt()
            calls.append(identifier)
            return orig(self, data=data, identifier=identifier)
        klass.main = main
        try:
            by_id = {pathlib.Path(str(m.unique_id)).name[:-len(".fasta")]: m for m in ins.completed}
            app.apply_to([by_id[i] for i in ids], logger=False)
            outcome = "return"
        except _Interrupt:
            outcome = "killed"
        except Exception as e:
            outcome = f"raise {type(e).__name__}: {str(e)[:120]}"
        finally:
            klass.main = orig
            with contextlib.suppress(Exception):
                outds.close()
        return outcome, calls
    finally:
        dsm.is_master_process = old_master


def contract_resume_db(case):
    """interrupted apply_to sessions into a sqlite store, then one uninterrupted session in append mode: no session raises
    because of a record, no finished input is processed again, and the store ends with every input exactly once"""
    from cogent3 import open_data_store
    cfg, stops = case
    ids = CONFIGS[cfg]
    want_files, want_nc = expected_store(ids)
    want_done = sorted(k[:-len(".fasta")] for k in want_files if k.endswith(".fasta"))
    work = tempfile.mkdtemp(prefix="c19d_", dir=TMPBASE)
    try:
        make_inputs(work, ids)
        out = pathlib.Path(work) / "out.sqlitedb"
        processed = []
        for n, k in enumerate(list(stops) + [None]):
            o, calls = _db_session(work, out, ids, "w" if n == 0 else "a", k)
            if o.startswith("raise"):
                where = "final-session" if k is None else "interrupted-session"
                return ("fail", f"resume-db/{where}/apply_to-raises-{o.split()[1].rstrip(':')}",
                        f"inputs {ids}, interruptions before records {stops}: session {n} -> {o}; processed so far {processed}")
            again = sorted(set(calls) & set(processed))
            if again:
                return ("fail", "resume-db/finished-input-processed-again", f"inputs {ids}, interruptions {stops}: session {n} re-processed {again}")
            processed += calls
        ro = open_data_store(out, mode="r")
        done = sorted(str(m.unique_id) for m in ro.completed)
        notc = sorted(str(m.unique_id) for m in ro.not_completed)
        ro.close()
        if done != want_done or notc != sorted(want_nc):
            return ("fail", "resume-db/final-store-differs", f"inputs {ids}, interruptions {stops}: completed {done} (want {want_done}), "
                                                             f"not completed {notc} (want {sorted(want_nc)})")
        return ("ok", any(k is not None and k < len(ids) for k in stops))
    finally:
        shutil.rmtree(work, ignore_errors=True)


def contract_resume(case):
    res = _contract_resume(case)
    if res[0] == "fail" and len(case[1]) > 1:   # minimise: one of the interruptions alone may already do it
        for it in case[1]:
            r1 = _contract_resume([case[0], [it]] + list(case[2:]))
            if r1[0] == "fail":
                return (r1[0], r1[1], r1[2] + f" (found with {case[1]})")
    return res


def _contract_resume(case):
    cfg, interrupts = case[0], case[1]
    sigkill = len(case) > 2 and case[2] == "sigkill"
    ids = CONFIGS[cfg]
    warnings.filterwarnings("ignore")
    work = tempfile.mkdtemp(prefix="c19a_", dir=TMPBASE)
    try:
        make_inputs(work, ids)
        root = pathlib.Path(work)
        ref_out, out = root / "ref", root / "out"
        o, calls, ref_logs = run_apply(work, ref_out, ids, "w", ["observe"])
        calls0 = list(calls)
        ref = store_view(ref_out)
        want_files, want_nc = expected_store(ids)
        problems = []
        if o != "return" or sorted(calls) != sorted(ids):
            problems.append(f"uninterrupted run: outcome {o}, processed {calls}")
        got_files = {k: v for k, v in ref.items() if not k.startswith("not_completed/") and
                     not (k.startswith("md5/") and k[4:-4] in want_nc)}
        if got_files != want_files or sorted(k[14:-5] for k in ref if k.startswith("not_completed/")) != want_nc:
            return ("fail", f"resume/uninterrupted/store-differs-from-expected:{','.join(diff_store(got_files, want_files))}",
                    f"inputs {ids}: uninterrupted apply_to gives {ref}, expected completed+md5 {want_files}, "
                    f"not completed {want_nc}; {problems}")
        if problems:
            return ("fail", "resume/uninterrupted/not-every-input-processed-once", f"inputs {ids}: {problems}")
        if not interrupts:
            return ("ok", True)
        # interrupted sessions, then a final uninterrupted session on the same store
        reached = False
        history = []
        for n, it in enumerate(interrupts):
            o, calls, log = (run_apply_forked if sigkill else run_apply)(work, out, ids, "w" if n == 0 else "a", it)
            history.append((it, o, calls, log))
            if o != "return":
                reached = True
        if not reached:
            return ("skip",)   # no interruption point was reached
        after = store_view(out)
        stored = {i for i in ids if after.get(f"{i}.fasta") == ref.get(f"{i}.fasta") is not None
                  and after.get(f"md5/{i}.txt") == ref.get(f"md5/{i}.txt")}
        o, calls, _ = run_apply(work, out, ids, "a")
        final = store_view(out)

        def describe(it):
            if it[0] == "record":
                return "kill@record-boundary"
            names = ref_logs[it[1]] if it[1] < len(ref_logs) else []
            ext = pretty(labels(names)[it[2]]) if it[2] < len(names) else "return"
            rec = "not_completed" if it[1] < len(calls0) and calls0[it[1]] in want_nc else "completed"
            return f"{'kill-before' if it[3] == 'kill' else 'raise'}@{ext}-inside-{rec}-record-write"
        if len(interrupts) == 1:
            how = describe(interrupts[0])
        else:
            how = "several-interruptions(" + "+".join(sorted({describe(it).split("@")[0] + "@" + (
                "record-boundary" if it[0] == "record" else "inside-record-write") for it in interrupts})) + ")"
        desc = (("interrupted sessions really killed (SIGKILL of a forked child); " if sigkill else "") +
                f"inputs {ids}; sessions {[(h[0], h[1], h[2], h[3]) for h in history]}; store after the interruptions "
                f"{after}; final session: outcome {o}, processed {calls}; final store {final}; uninterrupted store {ref}")
        if o != "return":
            return ("fail", f"resume/dir/{how}/resumed-run-{o.replace(' ', '-')}", desc)
        if final != ref:
            return ("fail", f"resume/dir/{how}/final-store-differs:{diff_store(final, ref)[0]}", desc + f"; differences {diff_store(final, ref)}")
        again = sorted(stored & set(calls))
        if again:
            return ("fail", f"resume/dir/{how}/completed-record-processed-again", desc + f"; processed again {again}")
        return ("ok", True)
    finally:
        shutil.rmtree(work, ignore_errors=True)


BOUNDED = {
    "faults": {
        "gen": gen_faults, "contract": contract_faults,
        "functions": ["util.io.atomic_write.__init__/_make_tmppath/_get_fileobj/__enter__/write/__exit__/close/"
                      "_close_rename_standard/_close_rename_zip", "util.io.open_ (mode w)", "util.io.open_zip (mode w)",
                      "format.alignment.save_to_filename", "format.alignment.write_alignment_to_file",
                      "core.alignment._SequenceCollectionBase.write", "core.new_alignment.SequenceCollection.write",
                      "core.tree.TreeNode.write", "util.table.Table.write", "util.dict_array.DictArray.write",
                      "phylo.tree_collection.ScoredTreeCollection.write"],
        "bound": f"{len(WRITERS)} writer call shapes (old/new alignment + collection: fasta, phylip, json, format=; tree: "
                 "newick, xml, json; table: tsv, csv, pickle, json, md, compress=True; dict-array; 3 tree collections; "
                 "atomic_write with / write+close / in_zip; open_ and open_zip mode w) x {plain, .gz, .zip} targets x "
                 "destination {absent, pre-existing} x every external-call boundary found on the real run x {kill before "
                 "it, it fails}; then, after each failing call, every later boundary x {kill, fail} (quick: 2 faults, "
                 "thorough: 3 faults exhaustively + 40 seeded 4-5-fault schedules per writer and destination state)",
        "rule": "a case = (writer, initial destination, fault schedule); boundaries are discovered by running the real "
                "code under the schedule's prefix; non-trivial when every scheduled fault was reached (otherwise skipped); "
                "distinct by hash of the case",
    },
    "sigkill": {
        "gen": gen_sigkill, "contract": contract_sigkill,
        "functions": ["util.io.atomic_write (all methods)", "util.io.open_zip (mode w)", "core.alignment._SequenceCollectionBase.write",
                      "core.new_alignment.SequenceCollection.write", "core.tree.TreeNode.write", "util.table.Table.write",
                      "util.dict_array.DictArray.write", "phylo.tree_collection.ScoredTreeCollection.write"],
        "bound": f"all {len(WRITERS)} writer call shapes x destination {{absent, pre-existing}} x every external-call boundary "
                 "(thorough: also every boundary after one failing call): the writer runs in a forked child process that "
                 "is killed with SIGKILL at the boundary",
        "rule": "a case = (writer, initial destination, boundary); the directory left by the dead process is judged by the "
                "same statement as in 'faults', and must equal what the in-process kill emulation leaves; distinct by hash "
                "of the case",
    },
    "fmtfail": {
        "gen": gen_fmtfail, "contract": contract_fmtfail,
        "functions": ["core.alignment._SequenceCollectionBase.write", "core.new_alignment.SequenceCollection.write",
                      "format.alignment.save_to_filename", "util.table.Table.write", "util.dict_array.DictArray.write",
                      "core.tree.TreeNode.write", "phylo.tree_collection.ScoredTreeCollection.write"],
        "bound": f"{len(FMTFAIL)} calls whose formatting fails natively (unknown format / suffix, bad keyword, bedgraph "
                 "on unsuitable data, raising writer function, bad collection member, zip target without writelines) or whose "
                 "temporary file cannot be opened for a reason other than an OSError (invalid mode, unknown encoding, encoding "
                 "with a binary mode; context manager and write()/close() protocol) x "
                 "destination {absent, pre-existing} x {plain, .gz, .zip} where the writer accepts it",
        "rule": "a case = (call, initial destination); skipped when the call does not raise (the statement only speaks "
                "about failing formatting); non-trivial when it raises",
    },
    "resume_db": {
        "gen": gen_resume_db, "contract": contract_resume_db,
        "functions": ["app.composable._apply_to", "app.io.write_db.main", "sqlite_data_store.DataStoreSqlite.write / "
                      "write_not_completed / __contains__ / completed / not_completed"],
        "bound": "the input configurations of 'resume' (incl. the one with suffix-related identifiers); load_unaligned + "
                 "min_length + write_db into a DataStoreSqlite; one or two sessions interrupted before record k (every k; every "
                 "second pair, thorough all pairs), then an uninterrupted append session",
        "rule": "no session raises because of a record; a finished input is not processed again; the final store holds every "
                "input exactly once (completed / not completed as the hand-written expectation says)",
    },
    "resume": {
        "gen": gen_resume, "contract": contract_resume, "shards": 16,
        "functions": ["app.composable._apply_to", "app.composable._as_completed", "app.io.write_seqs.main",
                      "app.data_store.DataStoreDirectory._write/write/write_not_completed/drop_not_completed/"
                      "__contains__/completed/not_completed"],
        "bound": "input stores of 3 and 4 records (thorough also 6), one or two of them ending as NotCompleted, and one of 5 "
                 "records in which three failing identifiers end / start with the identifier of a succeeding one; "
                 "load_unaligned + min_length + write_seqs into a DataStoreDirectory; interruption after every prefix of "
                 "k records, and at every external-call boundary inside every record write x {kill, OSError}; two "
                 "interruptions in a row (quick: every third pair of record boundaries, thorough: all pairs); seeded "
                 "sample of 2-3 mixed interruptions (12 quick / 120 thorough per configuration); every single kill also as "
                 "a real SIGKILL of a forked child session",
        "rule": "a case = (input configuration, list of interruptions); each interrupted session and the final session "
                "use fresh store and app objects on the same directory; skipped when no interruption point was reached; "
                "distinct by hash of the case",
    },
}
